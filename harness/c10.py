"""C10 - reported solutions are the best candidates and are internally consistent.

Tie:
  select        : stage returns of a real genotype() call (estimate_cn, every estimate_major,
                  the list handed to estimate_minor, every solve_minor_model, the final list) are
                  recorded by wrapping the stage functions from outside; Lean `select` recomputes
                  sorting, score carry, rescaling, gap filtering and compares every stage
  empty_stage   : a stage that returns nothing ends in the documented error, nothing is reported
Oracle (always on; the search): independent recomputation of the combined scores and the
within-gap set in Python; chain consistency of every reported solution.
"""
import collections
import os
import shutil
from fractions import Fraction

import gen_gene
import lib
import sim

PID = "C10"
PROPS = ["Aldy.Props.C10", "Aldy.Props.C04Decision"]
TRUSTED_EXTRA = ["the read simulator and pysam (sample generation)", "stage wrappers installed by attribute replacement in the harness process"]
ASSUMPTIONS = ["scores whose 1000-fold lies within 1e-7 of an integer are excluded from the sort-key comparison (float truncation hazard)"]

PREC = Fraction(1, 100)


class Recorder:
    perturb_rng = None

    def perturb(self):
        if self.perturb_rng is None:
            return 0.0
        return self.perturb_rng.choice([0.0, 0.0, 0.015625, 0.0625, 0.125, 0.25, 0.375])

    def __enter__(self):
        from aldy import cn, major, minor
        self.mods = (cn, major, minor)
        self.orig = (cn.estimate_cn, major.estimate_major, minor.estimate_minor, minor.solve_minor_model)
        rec = self
        rec.cn = None
        rec.majors = []
        rec.selected = None
        rec.minor_raw = []
        rec.fail_stage = getattr(self, "fail_stage", None)

        def e_cn(*a, **k):
            res = rec.orig[0](*a, **k)
            if rec.fail_stage == "cn":
                res = []
            for s in res:  # perturb the stage return: inputs of the selection code under test
                s.score += rec.perturb()
            rec.cn = [(s.score, s._solution_nice()) for s in res]
            rec.cn_objs = list(res)
            return res

        def e_major(gene, coverage, cn_solution, *a, **k):
            res = rec.orig[1](gene, coverage, cn_solution, *a, **k)
            rec.major_call = (gene, coverage, a, {kk: v for kk, v in k.items() if kk != "identifier"})
            if rec.fail_stage == "major":
                res = []
            # one structure without admissible major solutions (the copy-number stage keeps a configuration on weaker
            # evidence than the major stage accepts): the other structures must be scored as if it had not been there
            if getattr(rec, "fail_major_index", None) is not None and len(rec.majors) == rec.fail_major_index:
                res = []
            for s in res:
                s.score += rec.perturb()
            rec.majors.append({"cn_nice": cn_solution._solution_nice(), "cn_score": cn_solution.score,
                               "sols": [(s.score, s._solution_nice()) for s in res]})
            return res

        def s_minor(gene, coverage, major_sol, *a, **k):
            res = rec.orig[3](gene, coverage, major_sol, *a, **k)
            if rec.fail_stage == "minor":
                res = []
            for s in res:
                s.score += rec.perturb()
            for s in res:
                rec.minor_raw.append({"obj": s, "raw": s.score, "major": major_sol})
            return res

        def e_minor(gene, coverage, major_sols, *a, **k):
            rec.selected = list(major_sols)
            rec.selected_view = [(m.score, m._solution_nice(), m.cn_solution._solution_nice(), m.cn_solution.score) for m in major_sols]
            return rec.orig[2](gene, coverage, major_sols, *a, **k)

        cn.estimate_cn, major.estimate_major, minor.estimate_minor, minor.solve_minor_model = e_cn, e_major, e_minor, s_minor
        return self

    def __exit__(self, *a):
        cn, major, minor = self.mods
        cn.estimate_cn, major.estimate_major, minor.estimate_minor, minor.solve_minor_model = self.orig
        return False


def make_case(r):
    y = gen_gene.gen_gene(r, pseudogene=True, deletion=True, fusions=r.choice([0, 1]), offsets=(10000, 20000), allow_mnp=False)
    g = gen_gene.load(y, "hg19")
    majors = [a for a, al in g.alleles.items() if al.cn_config == "1"]
    ncopies = r.choice([2, 3, 3, 3, 4])
    copies = []
    for _ in range(ncopies):
        a = r.choice(majors)
        copies.append([a, r.choice(list(g.alleles[a].minors))])
    depths = [12, 12] + [r.choice([5, 6, 7, 12]) for _ in copies[2:]]
    r.shuffle(depths)
    return {"yaml": y, "copies": copies, "depths": depths, "gap": r.choice(["0", "0.1", "0.3", "0.5", "0.5", "1"]),
            "max_minor_solutions": r.choice([1, 1, 3]), "fail_stage": r.choice([None] * 21 + ["cn", "major", "minor"]),
            "perturb_seed": r.choice([None, r.randint(0, 10**6), r.randint(0, 10**6)]),
            "fail_major_index": r.choice([None, None, None, 0, 0, 1]),
            # the sample reaches genotype() as a debug archive written by an earlier run with default parameters: the gap and
            # the solution count asked for now must govern the selection, as for any other input
            "via_dump": r.random() < 0.3}


def run_case(d, case, idx):
    from aldy.common import GRange, AldyException
    from aldy.genotype import genotype
    g = gen_gene.load(case["yaml"], "hg19")
    cnr = GRange("20", 60000, 60400)
    ypath = os.path.join(d, f"g{idx}.yml")
    with open(ypath, "w") as f:
        f.write(case["yaml"])
    prof_bam = os.path.join(d, f"prof{idx}.bam")
    ref = sim.simulate_reads(g, [("1", "1.001"), ("1", "1.001")], depth=12) + sim.neutral_reads(cnr, 24)
    sim.write_bam(prof_bam, ref, length=sim.chrom_length_for(g))
    reads = sim.simulate_reads(g, [tuple(c) for c in case["copies"]], depth=case["depths"]) + sim.neutral_reads(cnr, 24)
    bam = os.path.join(d, f"s{idx}.bam")
    sim.write_bam(bam, reads, length=sim.chrom_length_for(g))
    rec = Recorder()
    rec.fail_stage = case.get("fail_stage")
    rec.fail_major_index = case.get("fail_major_index")
    if case.get("perturb_seed") is not None:
        import random
        rec.perturb_rng = random.Random(case["perturb_seed"])
    err = None
    final = None
    sols = None
    sample_path, profile_arg, region_arg = bam, prof_bam, cnr
    if case.get("via_dump"):
        import c17
        dbg = os.path.join(d, f"arch{idx}")
        c17.run_cli(["genotype", bam, "-g", ypath, "-p", prof_bam, "-n", f"20:{cnr.start}-{cnr.end}", "-o", os.path.join(d, f"arch{idx}.aldy"),
                     "--debug", dbg, "--genome", "hg19"])
        if os.path.exists(dbg + ".tar.gz"):
            sample_path, profile_arg, region_arg = dbg + ".tar.gz", None, None
    with rec:
        try:
            res = genotype(ypath, sample_path, profile_arg, output_file=None, cn_region=region_arg, genome="hg19", gap=case["gap"],
                           max_minor_solutions=case["max_minor_solutions"])
            sols = list(res.values())[0]
            final = [(s.score, s._solution_nice()) for s in sols]
        except AldyException as e:
            err = str(e)
    return {"rec": rec, "final": final, "err": err, "sols": sols, "gene": g}


def cand(score, nice, parent=0):
    return {"score": lib.frac(score), "nice": nice, "parent": parent}


def near_int(x):
    """float truncation int(1000*x) differs from the exact one (sort-key hazard)"""
    import math
    return int(1000 * x) != math.floor(Fraction(x) * 1000)


def build_request(case, out):
    rec = out["rec"]
    cn = rec.cn or []
    # majors in the order genotype() called estimate_major = sorted structures
    majors = [[cand(s, n) for s, n in m["sols"]] for m in rec.majors]
    minors = []
    if rec.selected is not None:
        for e in rec.minor_raw:
            parent = next(i for i, m in enumerate(rec.selected) if m is e["major"])
            minors.append({"cand": cand(e["raw"], e["obj"]._solution_nice(), parent), "obj": e["obj"]})
    return {"op": "select", "gap": lib.frac(Fraction(case["gap"])), "cn": [cand(s, n) for s, n in cn], "majors": majors,
            "minors": [m["cand"] for m in minors]}, minors


def oracle(case, out):
    """property clauses recomputed independently from the recorded stage returns"""
    why = []
    rec = out["rec"]
    gap = float(Fraction(case["gap"]))
    if out["final"] is None:
        # an error is only legitimate when some stage returned nothing (or a guard fired)
        stage_empty = (not rec.cn) or (rec.cn and not any(m["sols"] for m in rec.majors)) or (rec.selected is not None and not rec.minor_raw)
        if not stage_empty and "too low" not in (out["err"] or "") and "no reads" not in (out["err"] or ""):
            why.append(f"error {out['err'][:80]!r} although every stage returned candidates")
        return why
    if not rec.cn or not rec.selected or not rec.minor_raw:
        why.append("solutions reported although a stage returned nothing")
        return why
    min_cn = min(s for s, _ in rec.cn)
    # every structure the copy-number stage returned is a source of candidates: one that was never handed to the major
    # stage is explored here, and none of its major solutions may lie within the gap of the best major score
    explored = {m["cn_nice"] for m in rec.majors}
    missing = [c for c in getattr(rec, "cn_objs", []) if c._solution_nice() not in explored]
    if missing and getattr(rec, "major_call", None) and rec.fail_stage is None:
        from aldy import major as _major
        gene_, cov_, a_, k_ = rec.major_call
        carried = [sc + (m["cn_score"] - min_cn) for m in rec.majors for sc, _ in m["sols"]]
        for c in missing:
            try:
                extra = _major.estimate_major(gene_, cov_, c, *a_, **k_)
            except Exception:
                extra = []
            for s_ in extra:
                cs = s_.score + (c.score - min_cn)
                if carried and cs - min(carried + [cs]) - gap < 0.01 - 1e-6:
                    why.append(f"structure {c._solution_nice()} (score {c.score:.4f}) was returned by the copy-number stage but never handed to the major stage, although its major solution "
                               f"{s_._solution_nice()} (carried score {cs:.4f}) lies within the gap of the best major score {min(carried + [cs]):.4f}")
                    break
    # the major solutions handed to the refinement stage: every one carries its own raw score plus the score difference of
    # ITS structure to the best structure, and they are exactly the ones within the gap of the best carried score
    raw = {}
    for m in rec.majors:
        for sc, n in m["sols"]:
            raw.setdefault((m["cn_nice"], n), []).append((sc, m["cn_score"]))
    all_carried = [sc + (m["cn_score"] - min_cn) for m in rec.majors for sc, _ in m["sols"]]
    for (msc, mnice, cnice, cscore) in rec.selected_view:
        opts = raw.get((cnice, mnice), [])
        if opts and not any(abs(msc - (sc + (cs - min_cn))) < 1e-6 for sc, cs in opts):
            sc, cs = opts[0]
            why.append(f"major solution {mnice} of structure {cnice} enters the refinement with score {msc:.6f}; its own score {sc:.6f} plus the "
                       f"score difference of its structure ({cs:.6f} - {min_cn:.6f}) is {sc + cs - min_cn:.6f}")
    if all_carried:
        mb = min(all_carried)
        n_expect = sum(1 for c in all_carried if c - mb - gap < 0.01 - 1e-9)
        n_maybe = sum(1 for c in all_carried if c - mb - gap < 0.01 + 1e-9)
        if not why and not (n_expect <= len(rec.selected_view) <= n_maybe):
            why.append(f"{len(rec.selected_view)} major solutions handed to the refinement, {n_expect} lie within the gap of the best carried score {mb:.6f}")
    # combined score of each refined candidate
    sel_min = min(m[0] for m in rec.selected_view)
    cands = []
    for e in rec.minor_raw:
        mj = e["major"]
        carried = e["raw"] + (mj.score - sel_min)
        comb = carried * ((mj.cn_solution.score + 1) / (min_cn + 1))
        cands.append((comb, e["obj"]._solution_nice()))
    best = min(c for c, _ in cands)
    expect = sorted((c, n) for c, n in cands if c - best - gap < 0.01 - 1e-9)
    maybe = sorted((c, n) for c, n in cands if c - best - gap < 0.01 + 1e-9)
    got = sorted(out["final"])
    if not (len(expect) <= len(got) <= len(maybe)) or any(not any(abs(c - c2) < 1e-6 and n == n2 for c2, n2 in maybe) for c, n in got):
        why.append(f"reported set {[(round(c, 4), n) for c, n in got][:4]} differs from the candidates within gap+precision of the best combined score {[(round(c, 4), n) for c, n in expect][:4]}")
    f = out["final"]
    for i in range(len(f) - 1):
        if f[i][0] >= f[i + 1][0] + 0.001 + 1e-9:
            why.append(f"solutions are not listed best first: {f[i][0]} before {f[i + 1][0]}")
    # chain consistency
    for s in out["sols"]:
        cnc = collections.Counter(dict(s.major_solution.cn_solution.solution))
        alc = collections.Counter(out["gene"].alleles[a.major].cn_config for a in s.solution)
        if cnc != alc:
            why.append(f"structure {dict(cnc)} does not match the configurations of the called alleles {dict(alc)}")
        mj = collections.Counter()
        for a, k in s.major_solution.solution.items():
            mj[a.major] += k
        if mj != collections.Counter(a.major for a in s.solution):
            why.append("minor alleles do not refine the major alleles one to one")
        for a in s.solution:
            if a.minor not in out["gene"].alleles[a.major].minors:
                why.append(f"minor {a.minor} is not a minor allele of major {a.major}")
        flat = sorted(i for h in s.diplotype for i in h if i >= 0)
        if flat != list(range(len(s.solution))):
            why.append(f"diplotype {s.diplotype} does not list each allele once")
    return why


def tie(ctx):
    r = lib.rng("c10")
    quick = ctx["tier"] == "quick"
    cases = []
    if ctx.get("replay") and "violation" in ctx["replay"] and "yaml" in (ctx["replay"]["violation"].get("input") or {}):
        cases.append(ctx["replay"]["violation"]["input"])
    for fn, cj in lib.load_corpus(PID):
        cases.append(cj)
    while len(cases) < (60 if quick else 600):
        cases.append(make_case(r))
    d = sim.scratch_dir()
    outs_real, reqs, minors_all = [], [], []
    try:
        for i, c in enumerate(cases):
            out = run_case(d, c, i)
            outs_real.append(out)
            rq, minors = build_request(c, out)
            reqs.append(rq)
            minors_all.append(minors)
    finally:
        shutil.rmtree(d, ignore_errors=True)
    outs = lib.driver_batch(reqs)
    fam = {k: {"cases": 0, "disagreements": []} for k in ("select", "empty_stage")}
    violations = []
    stats = collections.Counter()
    distinct = set()
    samples = []

    def same_list(real, model, what, inp, hazard):
        if hazard:
            real = sorted(real)
            model = sorted(model, key=lambda b: (Fraction(b["score"]), b["nice"]))
        ok = len(real) == len(model) and all(abs(a[0] - float(Fraction(b["score"]))) < 1e-6 and a[1] == b["nice"] for a, b in zip(real, model))
        if not ok:
            fam["select"]["disagreements"].append({"why": f"{what}: implementation {[(round(a[0], 5), a[1]) for a in real][:4]} vs model {[(round(float(Fraction(b['score'])), 5), b['nice']) for b in model][:4]}", "input": inp})

    for c, out, o in zip(cases, outs_real, outs):
        rec = out["rec"]
        inp = c
        if out["final"] is None:
            fam["empty_stage"]["cases"] += 1
            stats["errors"] += 1
            exp = o["stage_error"]
            msg = out["err"] or ""
            got = "no_structures" if "No solutions found" in msg else "no_major" if "No major solutions" in msg else "no_minor" if "could not phase" in msg else "other"
            if got == "other":
                stats["guard_errors"] += 1
            elif exp != got:
                fam["empty_stage"]["disagreements"].append({"why": f"implementation raised {msg[:60]!r}, model expects {exp}", "input": inp})
        else:
            fam["select"]["cases"] += 1
            if o["stage_error"] is not None:
                fam["select"]["disagreements"].append({"why": f"solutions reported but the model expects error {o['error']}", "input": inp})
            hazard = any(near_int(s) for s, _ in (rec.cn or [])) or any(near_int(m[0]) for m in rec.selected_view) or any(near_int(s) for s, _ in out["final"])
            stats["sort_key_hazard"] += hazard
            same_list([(m[0], m[1]) for m in rec.selected_view], o["major_selected"], "major solutions handed to the minor stage", inp, hazard)
            same_list(out["final"], o["final"], "final solutions", inp, hazard)
            stats["final_multi"] += len(out["final"]) > 1
            stats["via_dump"] += bool(c.get("via_dump"))
            stats["cn_multi"] += len(rec.cn) > 1
            stats["major_multi"] += len(rec.selected_view) > 1
            stats["filtered_out"] += len(rec.minor_raw) > len(out["final"])
            if len(rec.cn) > 1 or len(rec.selected_view) > 1:
                distinct.add(lib.canon_hash({k: v for k, v in c.items() if k != "yaml"}) + lib.canon_hash(c["yaml"]))
            if len(samples) < 3 and len(out["final"]) > 1:
                samples.append({"copies": c["copies"], "depths": c["depths"], "gap": c["gap"], "structures": rec.cn, "selected_majors": [(m[0], m[1]) for m in rec.selected_view][:4], "final": out["final"][:4]})
        why = oracle(c, out)
        if why:
            violations.append({"why": why[0], "all": why[:5], "input": inp, "observed": {"final": out["final"], "err": out["err"]}, "signature": "c10:" + " ".join(why[0].split(" ")[:3])})
    return {"families": fam, "violations": violations, "evaluations": len(cases), "distinct_nontrivial": len(distinct),
            "rule": "full genotype() on simulated BAMs of generated genes (2-4 planted copies with unequal per-copy depth 5-16 => ambiguous structures), gap {0,0.1,0.3}, structures the copy-number stage returned but the major stage never saw are explored by the oracle, 1 or 3 minor solutions per major, stage failures injected by emptying a stage's return; non-trivial = more than one structure or major solution reached the selection; distinct by hash",
            "samples": samples, "stats": dict(stats)}


def search(ctx, hints):
    r = lib.rng("c10-search")
    cases = [h["input"] for h in hints if "yaml" in (h.get("input") or {})]
    while len(cases) < 60:
        c = make_case(r)
        c["gap"] = r.choice(["0.1", "0.3", "0.3", "0.5"])
        c["fail_stage"] = None
        cases.append(c)
    d = sim.scratch_dir()
    violations = []
    try:
        for i, c in enumerate(cases):
            out = run_case(d, c, i)
            why = oracle(c, out)
            if why:
                violations.append({"why": why[0], "all": why[:5], "input": c, "observed": {"final": out["final"], "err": out["err"]}, "signature": "c10:" + " ".join(why[0].split(" ")[:3])})
                if len(violations) >= 2:
                    break
    finally:
        shutil.rmtree(d, ignore_errors=True)
    return {"violations": violations, "cases_searched": len(cases)}
