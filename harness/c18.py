"""C18 - model parameters take the values the user gave, through every route.

Ties:
  update_api     : Profile("x").update({name: value}) (value: CLI-style strings and native Python
                   values) == Lean `update` (result value with type, or rejection)
  param_table    : the table of parameter names/types/defaults the model uses is regenerated from
                   Profile.__init__ and equals the attributes of a fresh Profile object
  cli_profile    : `aldy profile <file> --param k=v ...` (real __main__ parsing, real options writer)
                   prints a YAML whose options section, loaded again with Profile.load, carries
                   the values Lean `update` predicts (split at first '=', '-' -> '_' in keys)
Oracle (always on, and the search): the property's own clauses - documented boolean spellings,
exact numeric values, unknown names ignored, malformed values rejected, write/load round trip.
"""
import collections
import contextlib
import io
import os
import tempfile
from fractions import Fraction

import lib

PID = "C18"
PROPS = ["Aldy.Props.C18"]
TRUSTED_EXTRA = ["PyYAML dump/safe_load for the options section", "argparse for --param tokenisation"]
ASSUMPTIONS = ["numeric spellings are finite decimal literals (inf/nan excluded)", "an int-typed parameter given a native non-integral float is truncated by int() - outside the documented value space, not judged"]

TRUE_SPELL = ["true", "True", "TRUE", "tRuE", "1", " true "]
FALSE_SPELL = ["false", "False", "FALSE", "fAlSe", "0", "false "]


def fresh():
    from aldy.profile import Profile
    return Profile("x")


def param_types():
    p = fresh()
    return {k: v for k, v in p.__dict__.items() if k not in ("name", "cn_region", "data", "cn_solution")}


def wire(v):
    if v is None:
        return {"t": "none"}
    if isinstance(v, bool):
        return {"t": "bool", "v": v}
    if isinstance(v, int):
        return {"t": "int", "v": v}
    if isinstance(v, float):
        return {"t": "float", "v": lib.frac(v)}
    return {"t": "str", "v": str(v)}


def unwire(j):
    if j["t"] == "float":
        return ("float", Fraction(j["v"]))
    if j["t"] == "none":
        return ("none", None)
    return (j["t"], j["v"])


def typed(v):
    if isinstance(v, bool):
        return ("bool", v)
    if isinstance(v, int):
        return ("int", v)
    if isinstance(v, float):
        return ("float", Fraction(v))
    if v is None:
        return ("none", None)
    return ("str", v)


def same(a, b):
    if a[0] != b[0]:
        return False
    if a[0] == "float":
        return abs(a[1] - b[1]) <= Fraction(1, 10**12) * max(1, abs(a[1]))
    return a[1] == b[1]


INT_STR = ["10", "0", "-3", "+7", " 12 ", "1_000", "007", "3000"]
FLOAT_STR = ["0.5", "1", "-0.25", "1e-3", "2.5E2", ".5", "5.", "1_0.5", " 0.75", "+3.0", "1e+2", "0.1", "21"]
BAD_NUM = ["", "abc", "1.5.2", "1e", "--1", "1 2", "0x10", "1__0", "_1", "1_", "e5", ".", "ten", "1,5"]
BAD_BOOL = ["yes", "no", "2", "", "tru", "on", "off", "-1", "None", "falsee"]


def gen_cases(r, n):
    types = param_types()
    names = list(types)
    cases = []
    # systematic part: every parameter x every documented spelling class
    for nme, cur in types.items():
        if isinstance(cur, bool):
            vals = TRUE_SPELL + FALSE_SPELL + [True, False, 1, 0, 1.0, 0.0] + BAD_BOOL + [2, 0.5, None]
        elif isinstance(cur, int):
            vals = INT_STR + [5, 0, -2, True, False, None] + BAD_NUM + ["0.5", "1e3"]
        elif isinstance(cur, float):
            vals = FLOAT_STR + INT_STR[:4] + [0.3, 2, True, None] + BAD_NUM
        else:
            vals = ["map-ont", "", "x y", "I223M;rs1", 5, True, None]
        for v in vals:
            cases.append([(nme, v)])
    # unknown names
    for nme in ["gapp", "Gap", "min-coverage", "unknown", "", "profile"]:
        cases.append([(nme, "1")])
        cases.append([(nme, "abc"), ("gap", "0.2")])
    # random multi-parameter updates (later keys override earlier ones in a dict: keys distinct)
    for _ in range(n):
        k = r.randint(1, 4)
        chosen = r.sample(names, k)
        kw = []
        for nme in chosen:
            cur = types[nme]
            if isinstance(cur, bool):
                v = r.choice(TRUE_SPELL + FALSE_SPELL + [True, False, 1, 0] + (BAD_BOOL if r.random() < 0.15 else []))
            elif isinstance(cur, int):
                v = r.choice(INT_STR + [r.randint(-5, 50)] + (BAD_NUM if r.random() < 0.15 else []))
            elif isinstance(cur, float):
                v = r.choice(FLOAT_STR + [str(Fraction(r.randint(0, 400), 100).limit_denominator(100).numerator / 100)] + (BAD_NUM if r.random() < 0.15 else []))
            else:
                v = r.choice(["map-hifi", "map-ont", "sr", ""])
            kw.append((nme, v))
        cases.append(kw)
    return cases


def run_api(kw):
    from aldy.common import AldyException
    p = fresh()
    try:
        ret = p.update(dict(kw))
    except AldyException as e:
        msg = str(e)
        return {"invalid": msg.split("Invalid parameter ")[1].split(":")[0] if "Invalid parameter " in msg else "?"}, None
    return {"values": {k: typed(v) for k, v in p.__dict__.items() if k not in ("name", "cn_region", "data", "cn_solution")},
            "params": {k: typed(v) for k, v in ret.items()}}, p


def gen_options(r, kw):
    """a well-formed options section (native values, as YAML hands them over), sometimes on the names the caller passes"""
    types = param_types()
    names = [n for n in types if n != "neutral_value"]
    chosen = set(r.sample(names, r.randint(0, 3)))
    for n, _ in kw:
        if n in types and n != "neutral_value" and r.random() < 0.6:
            chosen.add(n)
    opts = {}
    for n in sorted(chosen):
        cur = types[n]
        if isinstance(cur, bool):
            opts[n] = not cur if r.random() < 0.7 else cur
        elif isinstance(cur, int):
            opts[n] = r.choice([cur + 3, 7, 1])
        elif isinstance(cur, float):
            opts[n] = r.choice([cur + 0.5, 0.75, 2.0])
        else:
            opts[n] = "sr"
    return opts if (opts or r.random() < 0.5) else None


def run_load(g, opts, kw, path):
    """the programming-interface route of genotype(): Profile.load(gene, profile file, **params)"""
    import yaml
    from aldy.common import AldyException
    from aldy.profile import Profile
    doc = {"neutral": {"hg19": ["1", 100, 200], "value": 1234.0}, g.name: {}}
    if opts is not None:
        doc["options"] = opts
    with open(path, "w") as f:
        yaml.safe_dump(doc, f)
    try:
        p = Profile.load(g, path, None, **dict(kw))
    except AldyException as e:
        msg = str(e)
        return {"invalid": msg.split("Invalid parameter ")[1].split(":")[0] if "Invalid parameter " in msg else "?" + msg[:80]}
    except Exception as e:
        return {"raises": f"{type(e).__name__}: {e}"}
    return {"values": {k: typed(v) for k, v in p.__dict__.items() if k not in ("name", "cn_region", "data", "cn_solution")}}


def oracle(kw, real, baseline=None):
    """property clauses, independent of the model"""
    why = []
    types = param_types()
    if len(kw) != 1:
        return why
    nme, v = kw[0]
    if v is None:
        return why
    if nme not in types:
        if "invalid" in real:
            why.append(f"unknown parameter name {nme!r} is not ignored (error raised)")
        elif any(not same(real["values"][k], (baseline or {}).get(k, typed(types[k]))) for k in types):
            why.append(f"unknown parameter name {nme!r} changed a parameter")
        return why
    cur = types[nme]
    if isinstance(cur, bool):
        exp = None
        if isinstance(v, bool):
            exp = v
        elif isinstance(v, (int, float)) and v in (0, 1):
            exp = bool(v)
        elif isinstance(v, str) and v.strip().lower() in ("true", "1"):
            exp = True
        elif isinstance(v, str) and v.strip().lower() in ("false", "0"):
            exp = False
        if exp is None:
            if "invalid" not in real:
                why.append(f"malformed boolean {v!r} for {nme} is accepted as {real['values'][nme][1]}")
        elif "invalid" in real:
            why.append(f"documented boolean spelling {v!r} for {nme} is rejected")
        elif real["values"][nme] != ("bool", exp):
            why.append(f"boolean parameter {nme} given {v!r} becomes {real['values'][nme][1]!r}, expected {exp}")
    elif isinstance(cur, (int, float)) and isinstance(v, str):
        import re
        s = v.strip()
        num_int = re.fullmatch(r"[+-]?\d+(_\d+)*", s)
        num_float = re.fullmatch(r"[+-]?((\d+(_\d+)*)(\.(\d+(_\d+)*)?)?|\.\d+(_\d+)*)([eE][+-]?\d+(_\d+)*)?", s)
        ok = num_int if isinstance(cur, int) else num_float
        if not ok:
            if "invalid" not in real:
                why.append(f"malformed number {v!r} for {nme} is accepted as {real['values'][nme][1]!r}")
        elif "invalid" in real:
            why.append(f"well-formed number {v!r} for {nme} is rejected")
        else:
            exp = Fraction(s.replace("_", ""))
            got = real["values"][nme]
            if got[0] != ("int" if isinstance(cur, int) else "float") or abs(Fraction(got[1]) - exp) > Fraction(1, 10**12) * max(1, abs(exp)):
                why.append(f"numeric parameter {nme} given {v!r} becomes {got}")
    return why


@contextlib.contextmanager
def only_genes(names):
    import pkg_resources
    orig = pkg_resources.resource_listdir

    def listdir(pkg, sub):
        if pkg == "aldy.resources" and sub == "genes":
            return [f"{n}.yml" for n in names]
        return orig(pkg, sub)

    pkg_resources.resource_listdir = listdir
    try:
        yield
    finally:
        pkg_resources.resource_listdir = orig


def run_cli_profile(tokens, cuts=()):
    """`aldy profile "<illumina>" --param t1 t2 ... [--param t3 ...]` through the real main(); `cuts` are the
    indices at which a new `--param` flag starts; returns (yaml text, error)"""
    import yaml
    from aldy import __main__ as M
    out = io.StringIO()
    err = None
    with only_genes(["tpmt"]):
        with contextlib.redirect_stdout(out), contextlib.redirect_stderr(io.StringIO()):
            try:
                argv = ["profile", "<illumina>", "--genome", "hg19"]
                for i, t in enumerate(tokens):
                    if i == 0 or i in cuts:
                        argv.append("--param")
                    argv.append(t)
                M.main(argv)
            except SystemExit as e:
                err = f"exit {e.code}"
            except Exception as e:  # AldyException escapes main() for invalid tokens
                err = f"{type(e).__name__}: {e}"
    text = out.getvalue()
    try:
        doc = yaml.safe_load(text) if text.strip() else None
    except Exception:
        doc = None
    return doc, text, err


def genotype_route(r):
    """route `genotype(..., **params)` / `--param` on a genotyping run: the values given must be in force when the sample is
    READ (several parameters are consumed by the reader: sample column of a VCF, read filters of the realigner, long-read
    switches, neutral value), not only afterwards. The profile handed to the sample reader is inspected at that moment"""
    from aldy import sam as samm
    from aldy.genotype import genotype
    from aldy.profile import Profile
    from aldy.common import AldyException
    why = []
    vcf = os.path.join(lib.REPO, "aldy/tests/resources/NA07000_SLCO1B1.vcf.gz")
    sets = [{"vcf_sample_idx": 0, "min_mapq": r.choice([3, 7, 30]), "min_quality": r.choice([1, 5, 20]), "display_format": True},
            {"vcf_sample_idx": "0", "neutral_value": r.choice([1.5, 2.5]), "indelpost": False, "sam_long_reads": r.choice([True, False]), "max_minor_solutions": 2}]
    orig = samm.Sample.__init__
    n = 0
    for params in sets:
        seen = {}

        def spy(self, gene, profile, *a, **kw):
            if profile is not None:
                seen.update({k: getattr(profile, k) for k in params})
            return orig(self, gene, profile, *a, **kw)

        samm.Sample.__init__ = spy
        try:
            try:
                import logbook
                with logbook.NullHandler().applicationbound():
                    genotype("slco1b1", vcf, None, output_file=None, genome="hg19", **params)
            except AldyException:
                pass
        finally:
            samm.Sample.__init__ = orig
        n += 1
        want = Profile("expected", **params)
        for k in params:
            if k not in seen:
                why.append(f"genotype(**{params}): the sample reader was handed no profile")
                break
            if seen[k] != getattr(want, k):
                why.append(f"genotype(**params) with {k}={params[k]!r}: when the sample is read the profile still says {k}={seen[k]!r} (expected {getattr(want, k)!r})")
                break
    return why, n


def tie(ctx):
    r = lib.rng("c18")
    quick = ctx["tier"] == "quick"
    cases = gen_cases(r, 300 if quick else 5000)
    if ctx.get("replay") and "violation" in ctx["replay"] and "kwargs" in (ctx["replay"]["violation"].get("input") or {}):
        cases.insert(0, [tuple(x) for x in ctx["replay"]["violation"]["input"]["kwargs"]])
    for fn, cj in lib.load_corpus(PID):
        cases.insert(0, [tuple(x) for x in cj["kwargs"]])
    reqs = [{"op": "param_table"}]
    reals = []
    for kw in cases:
        real, _ = run_api(kw)
        reals.append(real)
        reqs.append({"op": "params_update", "kwargs": [[n, wire(v)] for n, v in kw]})
    # Profile.load(gene, file with an options section, **explicit parameters)
    import views
    g_load = views.shipped_gene("tpmt", "hg19")
    loads = []
    with tempfile.TemporaryDirectory() as td:
        lpath = os.path.join(td, "p.yml")
        for kw in cases:
            if any(n in ("gene", "profile", "cn_region") for n, _ in kw):
                continue
            opts = gen_options(r, kw)
            base = run_load(g_load, opts, [], lpath).get("values") if (len(kw) == 1 and kw[0][0] not in param_types()) else None
            loads.append((kw, opts, run_load(g_load, opts, kw, lpath), base))
    load_reqs = [{"op": "params_load", "options": [[n, wire(v)] for n, v in (opts or {}).items()], "kwargs": [[n, wire(v)] for n, v in kw],
                  "neutral": wire(1234.0)} for kw, opts, _, _ in loads]
    # CLI + options round trip
    cli = []
    types = param_types()
    names = list(types)
    for i in range(12 if quick else 120):
        toks = []
        for nme in r.sample(names, r.randint(1, 4)):
            cur = types[nme]
            if isinstance(cur, bool):
                v = r.choice(TRUE_SPELL[:5] + FALSE_SPELL[:5])
            elif isinstance(cur, int):
                v = r.choice(["10", "0", "7", "3000", "1_000"])
            elif isinstance(cur, float):
                v = r.choice(["0.5", "1", "0.25", "1e-3", "2.5E2", "0.1", "=3"][:6])
            else:
                v = r.choice(["map-ont", "sr", "a=b"])
            key = nme.replace("_", "-") if r.random() < 0.5 else nme
            toks.append(f"{key}={v}")
        if r.random() < 0.1:
            toks.append("novalue")
        cli.append(toks)
    cli_real = []
    stats_cli_flags = []
    for toks in cli:
        # the same parameters given with one flag or with several (`--param a=1 --param b=2 c=3`)
        cuts = tuple(sorted(i for i in range(1, len(toks)) if r.random() < 0.35)) if len(toks) > 1 else ()
        stats_cli_flags.append(1 + len(cuts))
        doc, text, err = run_cli_profile(toks, cuts)
        loaded = None
        lerr = None
        if doc is not None:
            from aldy.profile import Profile
            from aldy.gene import Gene
            import views
            g = views.shipped_gene("tpmt", "hg19")
            with tempfile.NamedTemporaryFile("w", suffix=".yml", delete=False) as f:
                f.write(text)
                path = f.name
            try:
                p = Profile.load(g, path)
                loaded = {k: typed(v) for k, v in p.__dict__.items() if k in types}
            except Exception as e:
                lerr = f"{type(e).__name__}: {e}"
            finally:
                os.unlink(path)
        cli_real.append((doc, err, loaded, lerr))
        kw = []
        bad = False
        for t in toks:
            if "=" not in t:
                bad = True
                break
            reqs.append({"op": "split_param", "p": t})
        reqs.append({"op": "params_update", "kwargs": [[t.split("=", 1)[0].replace("-", "_"), wire(t.split("=", 1)[1])] for t in toks if "=" in t]})
    outs = lib.driver_batch(reqs + load_reqs)
    load_outs = outs[len(reqs):]
    outs = outs[:len(reqs)]
    fam = {k: {"cases": 0, "disagreements": []} for k in ("param_table", "update_api", "cli_profile", "load_api")}
    violations = []
    stats = collections.Counter()
    # table
    fam["param_table"]["cases"] = 1
    table = {n: unwire(v) for n, v in outs[0] if v["t"] not in ("arg",)}
    obj = {k: typed(v) for k, v in fresh().__dict__.items() if k not in ("name", "cn_region", "data")}
    if set(table) != set(obj) or any(not same(table[k], obj[k]) for k in obj):
        fam["param_table"]["disagreements"].append({"why": f"generated parameter table differs from a fresh Profile: {sorted(set(table) ^ set(obj))}"})
    distinct = set()
    samples = []
    for kw, real, o in zip(cases, reals, outs[1:1 + len(cases)]):
        fam["update_api"]["cases"] += 1
        inp = {"kwargs": [[n, v] for n, v in kw]}
        if "invalid" in real or "invalid" in o:
            agree = ("invalid" in real) and ("invalid" in o) and real["invalid"] == o["invalid"]
            stats["rejected"] += "invalid" in real
        else:
            mv = {n: unwire(v) for n, v in o["values"]}
            agree = all(same(real["values"][k], mv[k]) for k in real["values"]) and \
                {n: unwire(v) for n, v in o["params"]}.keys() == real["params"].keys()
            stats["accepted"] += 1
            if not o["roundtrip"]:
                fam["update_api"]["disagreements"].append({"why": "model: options round trip does not reproduce the values", "input": inp})
        if not agree:
            fam["update_api"]["disagreements"].append({"why": f"Profile.update gives {real if 'invalid' in real else {k: v for k, v in real['params'].items()}} but the model gives {o if 'invalid' in o else o['params']}", "input": inp})
        why = oracle(kw, real)
        if why:
            violations.append({"why": why[0], "input": inp, "observed": str(real)[:300], "signature": "c18:" + why[0].split(" ")[0] + ":" + why[0].split(" ")[1]})
        distinct.add(lib.canon_hash(inp))
        for n, v in kw:
            stats["type_" + type(v).__name__] += 1
        if len(samples) < 4 and len(kw) > 1:
            samples.append({"kwargs": inp["kwargs"], "result": str(real)[:200]})
    for (kw, opts, real, base), o in zip(loads, load_outs):
        fam["load_api"]["cases"] += 1
        inp = {"kwargs": [[n, v] for n, v in kw], "options": opts, "route": "Profile.load"}
        stats["load_with_options_on_given_name"] += any(n in (opts or {}) for n, _ in kw)
        if "raises" in real:
            violations.append({"why": f"Profile.load with explicit parameters raises {real['raises']}", "input": inp, "signature": "c18:load_raises"})
            continue
        if "invalid" in real or "invalid" in o:
            agree = ("invalid" in real) and ("invalid" in o) and real["invalid"] == o["invalid"]
        else:
            mv = {n: unwire(v) for n, v in o["values"]}
            agree = all(same(real["values"][k2], mv[k2]) for k2 in real["values"])
        if not agree:
            diff = "" if ("invalid" in real or "invalid" in o) else str([(k2, real["values"][k2], mv[k2]) for k2 in real["values"] if not same(real["values"][k2], mv[k2])][:2])
            fam["load_api"]["disagreements"].append({"why": f"Profile.load(**params) differs from the model: {real.get('invalid', '')} {o.get('invalid', '')} {diff}", "input": inp})
        # options section: a parameter written there (and not passed explicitly) takes exactly that value
        if "values" in real and opts:
            given = {n for n, _ in kw}
            for n_, v_ in opts.items():
                if n_ not in given and n_ in real["values"] and not same(real["values"][n_], typed(v_)):
                    violations.append({"why": f"Profile.load route: options section of the profile file says {n_}={v_!r}, the loaded profile has {real['values'][n_][1]!r}",
                                       "input": inp, "signature": "c18:load:options_value_not_taken"})
                    break
        why = oracle(kw, real, base)
        if why:
            violations.append({"why": "Profile.load route: " + why[0], "input": inp, "observed": str(real)[:300], "signature": "c18:load:" + why[0].split(" ")[0] + ":" + why[0].split(" ")[1]})
    k = 1 + len(cases)
    for toks, (doc, err, loaded, lerr) in zip(cli, cli_real):
        fam["cli_profile"]["cases"] += 1
        nsplit = 0
        bad_token = False
        for t in toks:
            if "=" not in t:
                bad_token = True
                break
            nsplit += 1
        splits = outs[k:k + nsplit]
        k += nsplit
        upd = outs[k]
        k += 1
        inp = {"tokens": toks}
        if bad_token:
            stats["cli_bad_token"] += 1
            if doc is not None:
                fam["cli_profile"]["disagreements"].append({"why": "token without '=' accepted by the profile command", "input": inp})
            continue
        for t, sp in zip(toks, splits):
            if sp.get("k") != t.split("=", 1)[0].replace("-", "_") or sp.get("v") != t.split("=", 1)[1]:
                fam["cli_profile"]["disagreements"].append({"why": f"--param splitting differs for {t!r}", "input": inp})
        if "invalid" in upd:
            if doc is not None:
                fam["cli_profile"]["disagreements"].append({"why": f"model rejects {upd['invalid']} but the profile command printed a profile", "input": inp})
            continue
        if doc is None or loaded is None:
            fam["cli_profile"]["disagreements"].append({"why": f"profile command failed ({err or lerr}) but the model accepts", "input": inp})
            if doc is not None:
                violations.append({"why": f"the profile written by the profile command with {toks} cannot be loaded again: {lerr}", "input": inp, "signature": "c18:roundtrip_load_fails"})
            continue
        mv = {n: unwire(v) for n, v in upd["values"]}
        # without an explicit value the neutral value is taken from the neutral region of the file, not from the table
        nv_given = any(t.split("=")[0].strip().replace("-", "_") == "neutral_value" for t in toks)
        bad = [kk for kk in loaded if (kk != "neutral_value" or nv_given) and not same(loaded[kk], mv[kk])]
        if bad:
            fam["cli_profile"]["disagreements"].append({"why": f"profile written with {toks} reloads with {bad[0]}={loaded[bad[0]]}, model says {mv[bad[0]]}", "input": inp})
            violations.append({"why": f"profile written by the profile command with {toks} and loaded again carries {bad[0]}={loaded[bad[0]][1]!r} instead of {mv[bad[0]][1]!r}", "input": inp, "signature": "c18:roundtrip"})
        stats["cli_roundtrips"] += 1
    gw, gn = genotype_route(r)
    stats["genotype_route_runs"] = gn
    for w in gw[:1]:
        violations.append({"why": w, "input": {"route": "genotype(**params)"}, "signature": "c18:genotype_route_value_not_in_force_when_sample_is_read"})
    return {"families": fam, "violations": violations, "evaluations": len(cases) + len(cli), "distinct_nontrivial": len(distinct),
            "rule": "every parameter x every documented spelling class (booleans: true/false any case, 1/0, native; numbers: decimal literals with sign/underscore/exponent; malformed; None) + unknown names + random multi-parameter updates, through Profile.update, through Profile.load(gene, file with an options section, **explicit parameters) and through `aldy profile --param` -> YAML -> Profile.load; distinct by hash",
            "samples": samples, "stats": dict(stats)}


def search(ctx, hints):
    r = lib.rng("c18-search")
    cases = [[tuple(x) for x in h["input"]["kwargs"]] for h in hints if "kwargs" in (h.get("input") or {})]
    cases += gen_cases(r, 200)
    violations = []
    for kw in cases:
        real, _ = run_api(kw)
        for one in ([kw] if len(kw) == 1 else [[x] for x in kw]):
            real1, _ = run_api(one)
            why = oracle(one, real1)
            if why:
                violations.append({"why": why[0], "input": {"kwargs": [[n, v] for n, v in one]}, "observed": str(real1)[:300],
                                   "signature": "c18:" + why[0].split(" ")[0] + ":" + why[0].split(" ")[1]})
        if len(violations) >= 5:
            break
    # dedupe by signature
    seen = {}
    for v in violations:
        seen.setdefault(v["signature"], v)
    return {"violations": list(seen.values()), "cases_searched": len(cases)}
