"""Generator of small valid gene databases (YAML, same schema as the shipped ones).

Layout mirrors aldy/tests/resources/toy.yml: the RefSeq covers the pseudogene (if any) followed
by the gene; hg19 maps it to the + strand, hg38 to the - strand at another offset; regions tile
the mapped span.  Variants are spelled against the generated sequence.
"""
import yaml

COMP = {"A": "T", "C": "G", "G": "C", "T": "A"}


def gen_gene(r, name="GEN", pseudogene=None, n_exons=None, n_alleles=None, fusions=None, deletion=None, custom=None,
             cigar_indels=False, same_strand=False, allow_mnp=True, offsets=(100000000, 200000000), scale=1, ascending38=False,
             balanced_gaps=False):
    pseudogene = r.random() < 0.6 if pseudogene is None else pseudogene
    n_exons = n_exons or r.randint(2, 4)
    lens = {"up": r.randint(5, 12)}
    order = ["up"]
    for e in range(1, n_exons + 1):
        lens[f"e{e}"] = r.randint(6, 14)
        order.append(f"e{e}")
        if e < n_exons:
            lens[f"i{e}"] = r.randint(5, 12)
            order.append(f"i{e}")
    lens["down"] = r.randint(8, 30)
    order.append("down")
    if scale != 1:
        lens = {n: v * scale for n, v in lens.items()}   # longer regions, same number of variants: sparser sites
    G = sum(lens.values())
    L = G * (2 if pseudogene else 1)
    seq = "".join(r.choice("ACGT") for _ in range(L))
    # refseq coordinates (1-based, half-open) of each region for gene and pseudogene
    off_gene = G if pseudogene else 0
    ref_regions = {}
    x = 1
    for n in order:
        ref_regions[n] = (x, x + lens[n])
        x += lens[n]
    exons = [[off_gene + ref_regions[f"e{e}"][0], off_gene + ref_regions[f"e{e}"][1]] for e in range(1, n_exons + 1)]

    S19, S38 = offsets
    regions19, regions38 = {}, {}
    for n in order:
        if n[0] == "i":
            continue  # introns are derived by the loader
        a, b = ref_regions[n]
        g19 = [S19 + off_gene + a, S19 + off_gene + b]
        p19 = [S19 + a, S19 + b]
        if same_strand:
            g38 = [S38 + off_gene + a, S38 + off_gene + b]
            p38 = [S38 + a, S38 + b]
        else:
            # minus strand: refseq 1-based x  <->  genome S38 + (L + 1 - x)
            g38 = [S38 + L + 1 - (off_gene + b) + 1, S38 + L + 1 - (off_gene + a) + 1]
            p38 = [S38 + L + 1 - b + 1, S38 + L + 1 - a + 1]
        regions19[n] = g19 + (p19 if pseudogene else [])
        regions38[n] = g38 + (p38 if pseudogene else [])
    if ascending38:
        # the hg38 region table listed by ascending genome coordinate (for the - strand: 3' to 5'), as a curator working
        # from a genome browser would write it; the loader orders regions itself
        regions38 = dict(sorted(regions38.items(), key=lambda kv: kv[1][0]))
    gname, pname = name, name + "P"
    mappings = {"hg19": ["20", S19 + 1, S19 + L + 1, "+", f"M{L}"],
                "hg38": ["20", S38 + 1, S38 + L + 1, "+" if same_strand else "-", f"M{L}"]}
    if cigar_indels:
        # an insertion or deletion between RefSeq and genome inside the last (in genome order) region
        for build, regs, S in (("hg19", regions19, S19), ("hg38", regions38, S38)):
            if r.random() < 0.7:
                best = None
                for n_, co in regs.items():
                    for k_ in range(0, len(co), 2):
                        if best is None or co[k_ + 1] > regs[best[0]][best[1] + 1]:
                            best = (n_, k_)
                n_, k_ = best
                a_, b_ = regs[n_][k_], regs[n_][k_ + 1]
                if b_ - a_ >= 8:
                    x = r.randint(a_ + 3, b_ - 4)          # 1-based genome coordinate where the gap starts
                    before = x - (S + 1)
                    if r.random() < 0.5:
                        dd = r.randint(1, 3)
                        regs[n_][k_ + 1] = b_ + dd
                        mappings[build][2] += dd
                        mappings[build][4] = f"M{before} D{dd} M{L - before}"
                    else:
                        ii = r.randint(1, 3)
                        if L - before - ii > 2:
                            regs[n_][k_ + 1] = b_ - ii
                            mappings[build][2] -= ii
                            mappings[build][4] = f"M{before} I{ii} M{L - before - ii}"

    blocked = set()
    if balanced_gaps and not cigar_indels:
        # one build whose alignment has an insertion and, further on inside the same region, a deletion of the same length
        # (`M260 I3 M187 D3 M150`): genome span and RefSeq length are equal although the alignment is gapped, and every base
        # between the two gaps sits at a shifted offset. No catalogue variant is placed on or next to the gaps.
        build, regs, S = r.choice([("hg19", regions19, S19), ("hg38", regions38, S38)])
        cands = [(n_, co) for n_, co in regs.items() if co[1] - co[0] >= 20]
        if cands:
            # (mostly the longest region with the gaps near its two ends: the catalogue variants of the region lie between them)
            n_, co = max(cands, key=lambda t: t[1][1] - t[1][0]) if r.random() < 0.7 else r.choice(cands)
            a_, b_ = co[0], co[1]
            kk = r.randint(1, 3)
            x = r.randint(a_ + 2, a_ + 5)
            mid = b_ - x - kk - 4 if r.random() < 0.7 else r.randint(6, b_ - x - kk - 4)
            before = x - (S + 1)
            rest = L - before - kk - mid
            if rest > 3:
                mappings[build][4] = f"M{before} I{kk} M{mid} D{kk} M{rest}"
                for p_ in list(range(before - 3, before + kk + 5)) + list(range(before + kk + mid - 4, before + kk + mid + 5)):
                    blocked.add(p_)
                    blocked.add(L + 1 - p_)

    # ---- variants -------------------------------------------------------------------------
    gene_lo, gene_hi = off_gene + 1, off_gene + G  # 1-based inclusive refseq range of the gene
    used_sites = set(blocked)

    def pick_site(width=1):
        for _ in range(50):
            p = r.randint(gene_lo + 1, gene_hi - width - 1)
            if all((p + k) not in used_sites for k in range(-1, width + 1)):
                for k in range(width):
                    used_sites.add(p + k)
                return p
        return None

    def snp(p):
        ref = seq[p - 1]
        alt = r.choice([c for c in "ACGT" if c != ref])
        return [p, f"{ref}>{alt}"]

    pool = []  # (mutation, functional)
    n_vars = r.randint(4, 9)
    for _ in range(n_vars):
        kind = r.choice(["snp", "snp", "snp", "snp", "ins", "del", "mnp" if allow_mnp else "snp"])
        if kind == "snp":
            p = pick_site()
            if p is None:
                continue
            m = snp(p)
        elif kind == "ins":
            p = pick_site()
            if p is None:
                continue
            m = [p, "ins" + "".join(r.choice("ACGT") for _ in range(r.randint(1, 3)))]
        elif kind == "del":
            w = r.randint(1, 3)
            p = pick_site(w)
            if p is None:
                continue
            m = [p, "del" + seq[p - 1:p - 1 + w]]
        else:
            w = r.choice([2, 3])
            p = pick_site(w)
            if p is None:
                continue
            ref = seq[p - 1:p - 1 + w]
            if w == 3 and r.random() < 0.5:
                alt = COMP[ref[0]] + "." + COMP[ref[2]]
                refs = ref[0] + "." + ref[2]
            else:
                alt = "".join(COMP[c] for c in ref)
                refs = ref
            m = [p, f"{refs}>{alt}"]
        functional = r.random() < 0.55 or (kind == "mnp")
        pool.append((m, functional))
    # a second alternate allele at an existing SNP site (multi-allelic site)
    snps = [(m, f) for m, f in pool if ">" in m[1] and len(m[1]) == 3]
    if snps and r.random() < 0.5:
        m, _ = r.choice(snps)
        others = [c for c in "ACGT" if c not in (m[1][0], m[1][2])]
        pool.append(([m[0], f"{m[1][0]}>{r.choice(others)}"], True))

    def entry(m, functional, i):
        rs = f"rs{1000 + i}" if r.random() < 0.7 else "-"
        return [m[0], m[1], rs] + (["functional"] if functional else [])

    entries = [entry(m, f, i) for i, (m, f) in enumerate(pool)]
    alleles = {f"{gname}*1.001": {"label": f"{gname}*1", "mutations": []}}
    n_alleles = n_alleles or r.randint(3, 8)
    major_no = 1
    for k in range(n_alleles):
        if not entries:
            break
        muts = r.sample(entries, r.randint(1, min(3, len(entries))))
        # never two non-insertion variants at one site in one allele
        seen = set()
        ok = []
        for e in muts:
            key = e[0] if not e[1].startswith("ins") else ("ins", e[0])
            if key in seen:
                continue
            seen.add(key)
            ok.append(e)
        if r.random() < 0.6 or major_no == 1:
            major_no += 1
            sub = 1
        else:
            sub = r.randint(2, 9)
        nm = f"{gname}*{major_no}.{sub:03d}"
        if nm in alleles:
            continue
        alleles[nm] = {"mutations": [list(e) for e in ok]}
        if r.random() < 0.3:
            alleles[nm]["label"] = f"{gname}*{major_no}{chr(65 + sub % 26)}"
    structural = []
    if pseudogene:
        fusions = r.randint(0, 2) if fusions is None else fusions
        brk_regions = [n for n in order if n not in ("up",)]
        for _ in range(fusions):
            major_no += 1
            side = r.choice(["-", "+"])
            brk = r.choice(brk_regions[1:-1] if len(brk_regions) > 2 else brk_regions)
            muts = [[pname, brk + side]]
            if r.random() < 0.4 and entries:
                muts.append(list(r.choice(entries)))
            alleles[f"{gname}*{major_no}.001"] = {"mutations": muts}
            structural.append(str(major_no))
    deletion = r.random() < 0.6 if deletion is None else deletion
    if deletion:
        major_no += 1
        alleles[f"{gname}*{major_no}.001"] = {"label": f"{gname}*{major_no}DEL", "mutations": [[gname, "deletion"]]}
    custom = r.random() < 0.15 if custom is None else custom
    if custom:
        major_no += 1
        regs = r.sample([n for n in order if n[0] in "ei"], 2)
        alleles[f"{gname}*{major_no}.001"] = {"mutations": [[gname, "deletion:" + ",".join(regs)]]}
    cn_regions = [n for n in order if n[0] in "ei"]
    tandems = []
    if structural and r.random() < 0.7:
        tandems.append([structural[0], "1"])
    doc = {
        "name": gname, "version": "gen-1", "generated": "2026-01-01",
        "alleles": alleles,
        "structure": {"genes": [gname] + ([pname] if pseudogene else []),
                      "regions": {"hg19": regions19, "hg38": regions38},
                      "cn_regions": cn_regions, "tandems": tandems},
        "reference": {"name": "NG_GEN", "mappings": mappings, "exons": exons, "seq": seq},
    }
    return yaml.safe_dump(doc, sort_keys=False, default_flow_style=None)


def with_balanced_gaps(r, y):
    """the same database, one build re-aligned with an insertion and, further on inside the same region, a deletion of the
    same length (`M260 I3 M187 D3 M150`): genome span and RefSeq length stay equal although the alignment is gapped, and
    every RefSeq base between the two gaps sits at a shifted genome offset. The gaps bracket catalogue variants of the
    region where it has some; no variant lies on or next to a gap. Returns the input when no region fits."""
    doc = yaml.safe_load(y)
    L = len(doc["reference"]["seq"])
    var = set()
    for a in doc["alleles"].values():
        muts = a if isinstance(a, list) else a["mutations"]
        for e in muts:
            if isinstance(e[0], int):
                w = len(str(e[1]).split(">")[0]) if ">" in str(e[1]) else (len(str(e[1])[3:].split("ins")[0]) if str(e[1]).startswith("del") else 1)
                var |= set(range(e[0], e[0] + max(1, w)))
    builds = [b for b in ("hg19", "hg38") if doc["reference"]["mappings"][b][4] == f"M{L}"]
    r.shuffle(builds)
    best = None
    for build in builds:
        mp = doc["reference"]["mappings"][build]
        S = mp[1] - 1
        plus = mp[3] == "+"
        regs = [(n_, co[0], co[1]) for n_, co in doc["structure"]["regions"][build].items() if co[1] - co[0] >= 18]
        r.shuffle(regs)
        for n_, a_, b_ in regs:
            for _ in range(12):
                kk = r.randint(1, 3)
                x = r.randint(a_ + 2, a_ + 6)
                if b_ - x - kk - 3 < 6:
                    continue
                mid = r.randint(6, b_ - x - kk - 3)
                before = x - (S + 1)
                rest = L - before - kk - mid
                if rest < 3:
                    continue
                # RefSeq 1-based positions: gap zones and the stretch between the gaps, in this build's orientation
                conv = (lambda o: o + 1) if plus else (lambda o: L - o)
                zone = {conv(o) for o in list(range(before - 4, before + kk + 4)) + list(range(before + kk + mid - 4, before + kk + mid + 4))}
                between = {conv(o) for o in range(before + kk, before + kk + mid)}
                if zone & var:
                    continue
                score = len(between & var)
                if best is None or score > best[0]:
                    best = (score, f"M{before} I{kk} M{mid} D{kk} M{rest}", build)
    if best is not None:
        doc["reference"]["mappings"][best[2]][4] = best[1]
        return yaml.safe_dump(doc, sort_keys=False, default_flow_style=None)
    return y


def with_delins(r, y):
    """the same database plus a function-altering deletion-insertion (`delXinsY`, as CYP2A6*27 has one): on an allele of
    its own and on one existing allele"""
    doc = yaml.safe_load(y)
    seq = doc["reference"]["seq"]
    L = len(seq)
    used = {e[0] + k for a in doc["alleles"].values() for e in a["mutations"] if isinstance(e[0], int) for k in range(-3, 5)}
    lo = L // 2 + 2 if len(doc["structure"]["genes"]) > 1 else 3
    cand = [p for p in range(lo, L - 8) if all(p + k not in used for k in range(0, 4))]
    if not cand:
        return y
    p = r.choice(cand)
    w = r.randint(1, 3)
    op = f"del{seq[p - 1:p - 1 + w]}ins{''.join(r.choice('ACGT') for _ in range(r.randint(1, 3)))}"
    ent = [p, op, "-", "functional"]
    doc["alleles"][f"{doc['name']}*66.001"] = {"mutations": [list(ent)]}
    plain = [an for an, al in doc["alleles"].items() if al["mutations"] and all(isinstance(e[0], int) for e in al["mutations"]) and not an.endswith("*66.001")]
    if plain and r.random() < 0.6:
        doc["alleles"][r.choice(plain)]["mutations"].append(list(ent))
    return yaml.safe_dump(doc, sort_keys=False, default_flow_style=None)


def with_random(r, y):
    """the same database plus a `random:` section: catalogued variants that belong to no allele (as in CFTR, GSTM1, GSTP1),
    one or two of them function-altering"""
    doc = yaml.safe_load(y)
    seq = doc["reference"]["seq"]
    L = len(seq)
    used = {e[0] + k for a in doc["alleles"].values() if isinstance(a, dict) for e in a["mutations"] if isinstance(e[0], int) for k in range(-3, 5)}
    lo = L // 2 + 2 if len(doc["structure"]["genes"]) > 1 else 3
    cand = [p for p in range(lo, L - 8) if p not in used]
    if len(cand) < 3:
        return y
    ents = []
    for k, p in enumerate(r.sample(cand, 3)):
        ref = seq[p - 1]
        alt = r.choice([b for b in "ACGT" if b != ref])
        ents.append([p, f"{ref}>{alt}", f"rs{9000 + k}"] + (["functional"] if k < 2 else []))
    doc["alleles"]["random"] = ents
    return yaml.safe_dump(doc, sort_keys=False, default_flow_style=None)


def with_siblings(r, y):
    """the same database plus sibling minor alleles of the reference allele: one with three silent SNPs, two with a silent
    SNP at ONE position and different alternative bases (a multi-allelic site), two with silent SNPs at further positions"""
    doc = yaml.safe_load(y)
    seq = doc["reference"]["seq"]
    L = len(seq)
    used = {e[0] + k for a in doc["alleles"].values() for e in a["mutations"] if isinstance(e[0], int) for k in range(-2, 4)}
    lo = L // 2 + 2 if len(doc["structure"]["genes"]) > 1 else 3
    cand = [p for p in range(lo, L - 4) if p not in used]
    if len(cand) < 6:
        return y
    ps = r.sample(cand, 6)

    def snp(p, avoid=()):
        ref = seq[p - 1]
        alt = r.choice([b for b in "ACGT" if b != ref and b not in avoid])
        return [p, f"{ref}>{alt}", "-"], alt

    name = doc["name"]
    m1, _ = snp(ps[0]); m2, _ = snp(ps[1]); m3, _ = snp(ps[2])
    doc["alleles"][f"{name}*1.071"] = {"mutations": [m1, m2, m3]}
    a1, alt1 = snp(ps[3])
    a2, _ = snp(ps[3], avoid=(alt1,))
    doc["alleles"][f"{name}*1.072"] = {"mutations": [a1]}
    doc["alleles"][f"{name}*1.073"] = {"mutations": [a2]}
    doc["alleles"][f"{name}*1.074"] = {"mutations": [snp(ps[4])[0]]}
    doc["alleles"][f"{name}*1.075"] = {"mutations": [snp(ps[5])[0]]}
    return yaml.safe_dump(doc, sort_keys=False, default_flow_style=None)


def load(yml_text, genome="hg19", name="GEN"):
    from aldy.gene import Gene
    return Gene(None, name=name, yml=yml_text, genome=genome)
