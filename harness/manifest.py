#!/usr/bin/env python3
"""Regenerates MANIFEST.json from the table below (run after adding a check)."""
import json
import os

HERE = os.path.dirname(os.path.abspath(__file__))
VERIF = os.path.dirname(HERE)

BASE_NOTE = ("Trusted: Lean 4.33 kernel with axioms propext/Classical.choice/Quot.sound only (audited on every run; no sorry, "
             "native_decide, bv_decide or own axioms); the AST constant extractor; the hand-written Lean model of the named functions, "
             "bound to /repo's current source only by the correspondence run of this check; CBC/OR-Tools, pysam, PyYAML, natsort; "
             "floating point compared with exact rationals up to 1e-6. ")

CHECKS = {
    "C05": {
        "text": "Machine-checked theorems (Lean 4) about a model of lpinterface.solutions() for every finite model, every gap, every positive "
                "precision and every choice the solver makes among tied optima: first yield optimal, every yield feasible and within the gap, "
                "no active set contains an earlier one (no repeats), non-decreasing objectives, completeness modulo supersets, exact "
                "completeness on antichains; exactness of the abs/product/or/xor gadgets and of the exclusion cut. The model is tied to the "
                "code by comparing the model the real CBC wrapper holds with Lean's Shape.toIlp, by validating every real solutions() trace "
                "with the executable validRun predicate on an exhaustively enumerated point set, and by regenerating the precision literals.",
        "text_more": "A fifth of the random models are built in two stages on one model object with a solutions(limit=1) look in between. stage_reports_optimum: over a model whose objective is nowhere negative a normally ended run reports at least its optimum; the three stage models meet the hypothesis (cn_objective_nonneg, major_objective_nonneg, minor_objective_nonneg in the stages' own property files). Models with general integer variables are covered: a yielded assignment names binaries only (points_act_sublist). ",
        "design_ref": "DESIGN.md section 3.1, 3.3, 4 (C05)",
        "note": "Gurobi wrapper not modelled (not installed). The premise 'each solve returns a global optimum' is tested, not proved.",
        "technique": "Lean 4 proof (induction over the Run relation; linear arithmetic) + model-vs-CBC structural and trace correspondence",
    },
    "C02": {
        "text": "Machine-checked theorems about MajorInst.build (the Lean model of solve_major_model's construction) for every instance and every "
                "feasible point: per-configuration allele counts equal the structure (CSAT), every observed core variant is carried XOR novel, "
                "at most one novel non-insertion variant per site, copy selectors ordered, error rows equal observed minus called copies, helpers "
                "dominate |error|, objective = sum of helpers + novelty penalties (closed form, tight at optima by abssum_exact), novelty flag exact; "
                "the feasible set is an ANTICHAIN (major_active_antichain: if the active copy selectors of one feasible point are contained in "
                "another's, the two points agree on every binary - selectors by the structure equalities, OR / XOR / novel flags as functions of "
                "them), which is exactly the hypothesis under which C05 run_T6 gives: every combination within the gap is reported, once. "
                "Tie: on every run the model the real code hands to CBC (captured through the MPSolver API at the first solve) is compared with "
                "MajorInst.build of the same instance, _filter_alleles with filterAlleles, and an independent exhaustive oracle over all allele "
                "multisets checks score, optimality, gap-completeness and uniqueness of the real return (C05's loop theorems carry the enumeration).",
        "text_more": "Directed: catalogued function-altering variants that belong to no allele (random: section; GSTP1 and generated) observed at one copy's depth. Spec-level bridge (Props/C02Spec): specMajor I k is the documented score of calling k(a) copies of every candidate allele a (absolute observed-minus-called copies per core variant and reference row, a variant nobody carries being called once as novel, plus the novelty penalties) and never looks at the ILP; proved for EVERY instance: every admissible multiset is the decision of a feasible point whose objective is its documented score (major_decision_achievable), every feasible point that selects it scores at least that (major_spec_lower_bound), every feasible point selects an admissible multiset (major_decision_of_sat), hence the objective of any optimum of the model is the least documented score among the admissible multisets (major_optimal_score_is_least_documented) - 'the reported score is the documented one and no admissible combination scores lower' modulo the solver returning an optimum. Tie family major_spec_score: the score of every reported multiset equals specMajor decided by Lean. ",
        "design_ref": "DESIGN.md section 10.2-10.3 (as built), section 4 (C02), 3.2 (plan)",
        "note": "Optimality/completeness = C05's Run theorems (each solve returns a true optimum: CBC trusted, cross-checked by the exhaustive "
                "oracle on generated instances) + the antichain theorem, under the hypothesis that every candidate allele's configuration is part "
                "of the structure (what _filter_alleles guarantees; compared with filterAlleles on every run).",
        "technique": "Lean 4 proof over the constraint builder + captured-model structural correspondence + exhaustive spec oracle",
    },
    "C03": {
        "text": "Machine-checked theorems about CNInst.build (Lean model of solve_cn_model's construction) for every instance and feasible point: "
                "exactly two complete haplotype slots, double deletion excludes every other slot, slot ordering, only DEFAULT configurations have "
                "extra copies (fusion/deletion/custom at most twice), error terms equal the documented residuals and lie within +-cn_max, objective = "
                "documented weighted sum; about the read-out foldCN: reported structures distinct, each is the decoding of a yield with that score, "
                "every yield's structure reported, score = least objective among yielded explanations (given non-decreasing yields, C05 T4); and about "
                "the estimate_cn decision table (user structure verbatim, unknown names rejected, two/one default copies). Ties on every run: captured "
                "CBC model == CNInst.build, real return == foldCN(real yields), _filter_configs == filterConfigs, estimate_cn decisions == cnDecision; "
                "plus an exhaustive spec-level oracle over all admissible internal assignments.",
        "text_more": "Spec-level bridge (Props/C03Spec): specCN is the documented score of a selection of structure slots (weighted absolute gene-minus-pseudogene residuals + absolute gene-fit residuals + parsimony / fusion penalties), never looks at the error variables; proved for EVERY instance: every selection that satisfies the structural families and leaves every residual within cn_max is the selection of a feasible point whose objective is its documented score (cn_decision_achievable), every feasible point scores at least the documented score of its selection, which is admissible (cn_spec_lower_bound, cn_admissible_of_sat), hence the objective of any optimum is the least documented score among the admissible selections (cn_optimum_is_spec_min). Tie family cn_spec_score on every yielded selection. The objective is non-negative at every feasible point for non-negative penalty parameters (cn_objective_nonneg), the hypothesis under which C05 stage_reports_optimum / the gap theorems apply to this stage. Through genotype(): the structure is estimated with a copy-number capable profile also after an exome run of the same gene in the same process. ",
        "design_ref": "DESIGN.md section 10.2-10.3 (as built), section 4 (C03) (plan)",
        "note": "Global optimality and superset-completeness are C05's Run theorems applied to this model plus the exhaustive oracle; the exome/VCF "
                "profile dispatch of genotype.py is covered by C19/C16 ties.",
        "technique": "Lean 4 proof over the constraint builder and the fold + captured-model structural correspondence + exhaustive spec oracle",
    },
    "C18": {
        "text": "Machine-checked theorems about the Lean model of Profile.update for every state, name and value: true/false in any letter case "
                "and 1/0 and native booleans take the documented value, any other boolean spelling is rejected, decimal integers (signed) parse to "
                "exactly that integer (via Nat.digits round trip), native numbers keep their value, unknown names and None are ignored, malformed "
                "values end in an error naming the parameter, a well-formed value is stored under the parameter's type, typed values survive the "
                "options-section round trip, --param items split at the first '='. Ties: parameter table regenerated from Profile.__init__; "
                "Profile.update vs the model on every parameter x spelling class and random multi-updates; `aldy profile --param` -> YAML -> "
                "Profile.load round trip through the real CLI code. A genuine defect (booleans) was repaired by a fix: commit.",
        "text_more": "Whole dictionaries and the Profile.load route: update_dict_takes_value, load_explicit_wins / load_options_kept / load_param_takes_value (an explicit parameter - False, 0, 0.0 included - overrides the options section of the profile file); tie load_api. ",
        "design_ref": "DESIGN.md section 10.2-10.3 (as built), section 4 (C18), 5 (plan)",
        "note": "Python's float() is modelled on finite decimal literals only (tie-checked, no theorem); inf/nan excluded; int() of a native "
                "non-integral float truncates (documented, not judged).",
        "technique": "Lean 4 proof over the typed-update model + differential correspondence with Profile.update and the real CLI route",
    },
    "C01": {
        "text": "The pipeline as a composition of machine-checked links over the Lean models of the stages. Major stage (model of "
                "solve_major_model, tied structurally to the real CBC model by C02): for EVERY instance, if the evidence is the zero-error "
                "evidence of a multiset k of candidate alleles (predicate Planted: k fills the structure, every variant / reference row is "
                "observed on exactly the planted carriers) then the planted assignment is a feasible point with objective 0 "
                "(planted_major_feasible, all seven constraint families discharged), no feasible point scores below 0 (hence the planted "
                "multiset is an optimum), and every optimum calls for every row exactly the planted number of carriers and flags nothing novel "
                "(major_optima_carry_planted_variants: nothing added, nothing lost). Minor stage (model of solve_minor_model, tied by C04): the "
                "objective of every feasible point is at least its absolute row error (miss / add / novel-core / phase terms proved "
                "non-negative from the product gadgets), so whenever some point scores 0 every optimum carries every considered variant on "
                "exactly the observed number of copies. Evidence: observed copy number of a row under uniform depth; the minor-stage filter "
                "keeps deleted-base observations (shape regenerated from source). The boolean the driver evaluates (plantedB) is proved "
                "equivalent to Planted. Tie, per simulated sample (error-free BAMs written with pysam: both strands, with/without "
                "pseudogene, SNP/ins/del/multi-substitution alleles, 2-4 copies, whole-gene deletion, fusions, read length 50-250, depth "
                "20-40, profile from a simulated reference sample) run through the real genotype(): (1) Planted decided by Lean on the real "
                "inputs of solve_major_model, (2) the planted point of the refinement model evaluated by Lean in MinorInst.build of the real "
                "inputs of solve_minor_model - feasible, objective equal to the real optimum, (3) the conclusion compared with the result: "
                "planted multiset among the best solutions when the planted structure is CN-optimal, every best solution's variants (with "
                "multiplicity) equal to the simulated haplotypes. Three genuine defects found and repaired by fix: commits; one input class "
                "(two indels <= 20 bp apart) is a known finding.",
        "text_more": "Directed database: all subsets of five core SNPs as alleles - a two-copy sample decomposes in sixteen equally good ways and every one of them must be among the best solutions. Spec level (Props/C01Spec): a planted multiset is an admissible decision of documented score 0 (planted_admissible, planted_spec_zero), no multiset has a negative documented score (specMajor_nonneg), hence with zero-error evidence every optimum of the major ILP selects an admissible multiset of documented score 0 and scores 0 (optimum_spec_zero_of_planted, via C02 major_optimal_score_is_least_documented). Refinement stage, for EVERY instance (Props/C01Minor): under the decidable clauses PlantedMinor (planted candidates fill the major solution, every considered variant / reference row is observed on exactly the planted carriers, a planted candidate has gene copies at and at most one variant per considered site, rules 5/6 leave room, every read-phase pattern that some slot can explain is attributed to a planted copy agreeing with it at every site) the closed-form planted point satisfies all fourteen constraint families of MinorInst.build - read-phase block included, phase cells proved to be keyed without repetition - and scores 0 (planted_minor_zero), hence every optimum carries every considered variant on exactly the planted number of copies (planted_minor_optima_exact); the clauses are decided by Lean on the real inputs of solve_minor_model (plantedMinorB_iff; tie family planted_minor_premise: where they hold the best refinement reported must score 0). A fifth of the samples are genotyped with indelpost=false; the structure clause is decided independently of the copy-number stage's own answer (region depths within a quarter copy of the planted structure). Five genuine defects found through this check were repaired by fix: commits. ",
        "design_ref": "DESIGN.md section 10.2-10.3 (as built), section 4 (C01), 5 (plan)",
        "note": "PARTIAL: the premises Planted / PlantedMinor (the pileup of error-free reads is the zero-error evidence of the planted "
                "copies) are decided per sample by evaluating the Lean definitions on the real stage inputs (translation validation), not "
                "proved for all samples - what follows from them (feasibility with objective 0, exactness of every optimum, both stages) is proved for all instances; read parsing itself is C06/C08, depth normalisation C07, CN optimality is a "
                "premise of the property (C03), enumeration / selection C05/C10. Simulation is aligner-free (CIGARs written directly); "
                "indelpost, pysam trusted. Indels closer than 15 bp to the end of a read run are not planted (no flanking sequence in the "
                "N-padded reference aldy hands to indelpost).",
        "technique": "Lean 4 proof (constructive feasibility of the planted point, objective lower bounds, exactness of zero-error optima) + per-sample evaluation of the theorems' hypotheses on real stage inputs + full-pipeline correspondence on simulated BAMs",
    },
    "C14": {
        "text": "Lean world model (catalogue + evidence as state, every modelled query / accessor / filter / stage as an operation): machine-checked "
                "that any history of operations leaves the world unchanged and that the answer to an operation is independent of the history "
                "before it (shape of the accessor regenerated from SolvedAllele.mutations: copy vs in-place - the in-place shape has a closed "
                "counter-example); the evidence filter of a candidate's refinement depends only on that candidate's own structure (shape "
                "regenerated from estimate_minor); the construction order of the minor model is invariant under permutation of the caller's "
                "set of considered variants (insertion-sort canonicalisation proved: sorted + permutation + antisymmetry; flag regenerated from "
                "solve_minor_model), hence so is the whole built model; feasibility is invariant under row permutation. Tie: deep snapshots of "
                "the real Gene/Coverage objects around every operation of random histories over the real stages, accessors, writers and queries "
                "(shipped + generated genes) equal the initial snapshot and a fresh load; repeated / interleaved / multi-gene genotype() calls "
                "(incl. failing genes) and fresh interpreters under several PYTHONHASHSEED values give byte-identical output; sibling "
                "independence of refinement probed on the real estimate_minor. Three genuine defects repaired by fix: commits (accessor aliasing, "
                "filter closing over the loop variable, hash-seed dependent tie-breaker); pooled candidates across siblings is a known finding.",
        "text_more": "candidate_order_canonical (flag MINOR_CANDIDATES_SORTED regenerated): the pooled candidates reach the model in one order; the harness compares every order of candidate sets incl. structures of equal copy number and different layout; the read-phase table is part of the world snapshots. Three further genuine defects repaired by fix: commits (candidate order, hash order of the keep selectors). ",
        "design_ref": "DESIGN.md section 10.2-10.3 (as built), section 4 (C14), 5 (plan)",
        "note": "PARTIAL: interpreter-level behaviour (hash seeds, module-level caches, solver determinism of CBC) is runtime; it is exhibited "
                "by the subprocess runs, not by a theorem. The world theorem covers the modelled operations only; un-modelled code is covered "
                "by the snapshot tie. Solver determinism (CBC returning the same optimum for the same model) is assumed.",
        "technique": "Lean 4 proof (state-machine invariant by induction over histories, sort canonicalisation, shapes regenerated from source) + deep-snapshot and fresh-interpreter correspondence",
    },
    "C19": {
        "text": "Machine-checked theorems about the Lean model of the no-data guards (Sample.__init__ neutral-region checks, genotype()'s "
                "average-depth guard, whose shape is regenerated from the source): for alignment input an average depth below the minimum - in "
                "particular a locus without reads - never proceeds to calling, whether the structure is estimated or user-supplied; an empty neutral "
                "region is rejected; 'proceed' implies adequate data. Tie: simulated error-free BAMs (normal / no locus reads / depth 0-1 / empty or "
                "thin neutral region / pseudogene-only) x (profile from BAM | user-supplied structure) x (simple output) run through the real "
                "genotype(); outcome class compared with the model on inputs measured from the real Sample/Profile objects; property oracle on "
                "the outcome (error, empty simple line, pseudogene-only => whole-gene deletion). A genuine defect (guard skipped for user-supplied "
                "structures) was repaired by a fix: commit; a minor one (missing simple line for errors raised while loading the sample) is a "
                "known finding.",
        "text_more": "History runs (a well-covered file genotyped from the same path before), genes without a copy-number model, few copy-number regions and a simulated CYP2D6 whole-gene deletion sample are part of the tie. ",
        "design_ref": "DESIGN.md section 10.2-10.3 (as built), section 4 (C19), 5 (plan)",
        "note": "The pseudogene-only => deletion clause is decided by the correspondence run (real CN stage on simulated depth) and C03's "
                "theorems, not by a dedicated optimality theorem. pysam/indelpost trusted.",
        "technique": "Lean 4 proof over the guard decision table (shape regenerated from source) + simulated-BAM correspondence through genotype()",
    },
    "C11": {
        "text": "Lean model of estimate_diplotype (grouping, placeholders, tandem pairing on a defaultdict, even split, duplicate and rest "
                "balancing, non-empty repair, flatten + natural sort) and of the natsort key and name rendering. Machine-checked for every input: "
                "the grouped dictionary holds exactly the indices 0..n-1 plus 2/1/0 deletion placeholders (only with a deletion allele); dictionary "
                "operations, the stable sort, flattening, the final ordering and the non-empty repair are permutations (no copy lost, duplicated "
                "or invented); every phase of the heuristic - the tandem loop, the even split, duplicate and rest balancing - preserves the multiset "
                "of copies still to place or placed, the last phase leaves nothing in the dictionary (uniqueness of its keys is an invariant), "
                "hence END TO END (diplotype_partition): the reported diplotype, flattened, is a permutation of the called copies 0..n-1 plus "
                "exactly the placeholders, for every multiset, order and tandem list whose pairs name two different allele numbers; after the "
                "repair both sides are non-empty when two or more items were placed. Tie: real estimate_diplotype and "
                "get_major_diplotype vs the model on multisets of 0-6 copies in all production orders (toy, CYP2D6, CYP2A6, CYP2C19, GSTM1, "
                "generated genes), get_major_name vs majorName, natsort's key vs natKey on every name; property oracle on every real output.",
        "text_more": "Directed: the deletion allele (or an allele with its number) called alone or next to one other copy. Tandems (Props/C11Tandem): every pair the tandem step puts on a haplotype is shown as two neighbouring copies of one reported haplotype - later steps only append single copies or move the last item, the natural sort reorders items, flattening writes a pair consecutively (tandem_pair_adjacent, for every input); the step forms pairs only (tandemLoop_pairs). Two called copies (Props/C11Order): whatever the allele numbers, deletion allele and tandem list, copy 0 and copy 1 end on different haplotypes (diplotype_two_arrangement) and the names shown do not depend on the production order (diplotype_two_order_independent; the natural-sort order is asymmetric for all keys - keyLt_asymm; hypothesis 'different names have different keys' decided per input by the driver). Oracle clauses: natural order of haplotypes and of the alleles inside them; the deletion allele itself may be among the called copies. ",
        "design_ref": "DESIGN.md section 10.2-10.3 (as built), section 4 (C11) (plan)",
        "note": "The partition clause is proved end to end under the hypothesis that a catalogued tandem pairs two different allele numbers (for "
                "a pair (x, x) the code deletes two list entries per emitted pair or raises IndexError; no shipped database has one). That a pair once formed stays adjacent is a theorem (C11Tandem); which copies the tandem step pairs (consumption of shared members) is decided by the correspondence run and the oracle; order-independence for two copies is a theorem (C11Order), for one copy there is one order. Order clauses rest on "
                "natsort (key compared on every name).",
        "technique": "Lean 4 proof (list permutations by induction) + exhaustive-order differential correspondence with estimate_diplotype",
    },
    "C10": {
        "text": "Lean model of the selection code of genotype.py (structure sort, major score carry, gap filter, minor score carry and rescaling, "
                "final filter and sort). Machine-checked for every candidate list and gap: the selected list is a permutation of exactly the "
                "candidates within gap + SOLUTION_PRECISION of the best score; the best candidate is always kept; the list is sorted by the code's "
                "key, hence score_i < score_j + 1/1000 for i < j, and 1/1000 < SOLUTION_PRECISION (regenerated constants); score carry and the "
                "rescaling factor >= 1; an empty stage selects nothing. Tie: stage returns of real genotype() calls on simulated BAMs (ambiguous "
                "structures, perturbed stage scores, injected empty stages) recorded by wrapping the stage functions from outside and replayed "
                "through the model, stage by stage; independent Python oracle recomputes the combined scores, the within-gap set and the chain "
                "consistency (structure <-> alleles <-> minors <-> diplotype) of every reported solution.",
        "text_more": "One structure whose major stage returns nothing (any position in the order); every major solution handed to the refinement carries its own score plus the score difference of its own structure, and exactly the ones within the gap are handed on. Chain consistency (Props/C04Decision, readout_refines_major): for every feasible point of the refinement model and every major allele of the major solution, exactly as many reported minor-allele copies carry its name as the major solution has copies of it (with major_csat of C02 for structure vs alleles and diplotype_partition of C11 for the diplotype, the chain clauses are theorems). The oracle explores structures the copy-number stage returned but the major stage never saw: none of their major solutions may lie within the gap. ",
        "design_ref": "DESIGN.md section 10.2-10.3 (as built), section 4 (C10) (plan)",
        "note": "Chain consistency is checked by the oracle on every reported solution and follows from C02 major_csat / C04 at model level; "
                "float truncation int(1000*score) is compared exactly unless the float and exact truncations differ (counted as hazard).",
        "technique": "Lean 4 proof (sort/filter permutation and order lemmas) + recorded-stage-return replay correspondence with genotype()",
    },
    "C12": {
        "text": "Lean model of write_decomposition and of write_vcf as written. Machine-checked for every solution: a copy's listed variants are "
                "exactly definition + added - missing, each once; the decomposition consists per copy of one empty row or one row per carried "
                "variant (sound and complete); VCF records are one per variant with one-based POS; GT is exact for a single solution (or identical "
                "solutions) without lost variants (vcf_gt_partial). The full VCF clause is false of model and code: closed counter-examples "
                "(shared table across solution columns, lost variants still written, indel REF/ALT) are proved in Lean and replayed on the "
                "implementation; they are known findings (a repair would change the recorded NA10860.vcf.expected). Ties on every run: real "
                "write_decomposition text == model, real write_vcf records == model (as written); property oracle on the real text.",
        "design_ref": "DESIGN.md section 10.2-10.3 (as built), section 4 (C12), 5 (plan)",
        "note": "Five known findings (VCF writer) listed in known_findings.json; any other deviation is reported. Header lines and the "
                "output-kind dispatch of genotype() are exercised by C17/C14 runs, not modelled here.",
        "technique": "Lean 4 proof (row exactness, permutation/dedup lemmas, closed counter-examples by kernel evaluation) + text-level differential correspondence",
    },
    "C06": {
        "text": "Lean model of _parse_read (CIGAR walk over M,=,X,I,D,S with quality binning from the regenerated table, phase writes, "
                "multi-nucleotide merging), of the eligibility filters and of _make_coverage. Machine-checked for every read, locus and position "
                "(induction over the CIGAR, no length bound): the walk adds exactly one non-insertion observation at p iff ref_start <= p < "
                "ref_start + reference length (deleted bases count, insertions and soft clips consume nothing); depth over any read list = number "
                "of spanning reads; depth is invariant under read permutation and under splitting a run or exchanging M/=/X; every observation "
                "carries the binned mapping quality of its read. Ties: _parse_read on generated tuples and the whole Sample(...) on BAMs written by "
                "pysam (flags, clips, shared names, both strands) vs the model; oracle from htslib's aligned pairs (depth and counts per position).",
        "text_more": "Reads carry no-call and ambiguity bases in their aligned part (an observation like any other). Props/C06Table.lean: the table _make_coverage builds lists each allele of a site once and Coverage.total(pos) equals the number of reads spanning pos (makeTable_totalPos, total_is_spanning_reads). ",
        "design_ref": "DESIGN.md section 10.2-10.3 (as built), section 4 (C06) (plan)",
        "note": "PARTIAL at theorem level: the depth theorems hold for every locus at every position that is not part of a catalogued "
                "multi-substitution site (mergeMnp_depth_away, depth_total_general: the merge step changes observations only at the positions of "
                "its site); at those sites the merge is covered by the correspondence and the oracle. Count exactness is proved in the same scope: "
                "shows_one_read (every read contributes exactly one non-insertion observation at a spanned position - the deleted-base marker, "
                "the reference marker or the substitution to the read's base, as the specification function showsAt says) and "
                "support_total_general (the support of an operation is the number of reads that show it). The phase clause and the insertion "
                "observations are decided by the ties and the htslib oracle. indelpost support counts are inputs (trusted).",
        "technique": "Lean 4 proof (structural induction over CIGAR and read lists) + differential correspondence on tuples and pysam-written BAMs",
    },
    "C07": {
        "text": "Lean model of _normalize_coverage and of the three per-base depth walkers (sample pileup, neutral-region walker, profile "
                "walker; their op-code lists are regenerated from the source). Machine-checked: the three walkers consume the same reference bases "
                "for every CIGAR operation, hence agree on every read set all of them accept; duplicating every read k times multiplies every "
                "region sum by k; normalised depth is invariant when sample and neutral sums are both multiplied by k != 0, linear in the gene "
                "sum, equals exactly PROFILE_COPIES = 2 when profile and sample sums coincide (self profile) and the region is covered; an empty "
                "neutral region is an error. Tie: real Sample/Profile.load/get_sam_profile_data on simulated read sets (indels, clips, flags, "
                "custom neutral regions, both strands) vs the model in four metamorphic variants + profile YAML round trip; metamorphic oracle "
                "on the real values.",
        "text_more": "Reads with no-call bases (shared generator with C06). Linked to the pileup model: the sum _normalize_coverage takes over a region of Coverage.total(pos) equals the sum over the reads of the region bases each spans (region_sum_is_sum_of_depths, normalised_signal_is_read_overlap). ",
        "design_ref": "DESIGN.md section 10.2-10.3 (as built), section 4 (C07) (plan)",
        "note": "The consequence 'reported structure independent of depth' follows from invariance of the depth vector fed to the CN stage; "
                "_filter_configs' absolute min_coverage threshold can differ between depths (documented hypothesis FilterStable, not a theorem). "
                "NA10860 approximate check not run in the quick tier.",
        "technique": "Lean 4 proof (field arithmetic over Rat, op-table case analysis) + metamorphic differential correspondence on pysam-written BAMs",
    },
    "C08": {
        "text": "Lean model of the RefSeq<->genome maps, the lookup sequence, the per-kind strand conversion of process_mutation, _reverse_op and "
                "of what a variant denotes on a sequence (insertion after its anchor base). Machine-checked for every sequence, position and "
                "allele: reverse complement is an involution; for deletions, insertions, deletion-insertions and (dot-free) multi-substitutions "
                "applying the converted variant to the reverse-complemented sequence and orienting back equals applying the variant as written "
                "(one theorem per kind = one position rule each); the conversion's position arithmetic yields exactly those offsets; _reverse_op "
                "undoes the allele conversion. Tie: for every database x build the model's maps, lookup sequence and loaded variants are compared "
                "with the real Gene, and the driver evaluates the haplotype equation and the reference-allele hypotheses on every variant "
                "(shipped: quick 7 genes x 2 builds, thorough all 38 x 2; generated: random sequence, all kinds, both strands, alignment strings "
                "with I/D); independent sequence-level Python oracle on the real Gene object.",
        "text_more": "Generated databases include builds aligned with an insertion and a later deletion of the same length around catalogued variants; insertions written next to an alignment gap are counted and not decided. Inferred amino-acid effects of uncatalogued substitutions are compared with an independent translation of the coding exons and across builds; multi-base variants are placed at and beside the gaps of the RefSeq-to-genome alignment. ",
        "design_ref": "DESIGN.md section 10.2-10.3 (as built), section 4 (C08) (plan)",
        "note": "Multi-block mappings and dotted multi-substitutions are decided by evaluation per variant (finite, exhaustive for shipped "
                "databases in the thorough tier) rather than by the list-level theorems. Insertion anchoring handed to indelpost/long-read "
                "matching is exercised through C01/C16 runs, amino-acid effect inference is not modelled.",
        "technique": "Lean 4 proof (list surgery under reverse complement) + exhaustive per-variant evaluation and differential correspondence with Gene",
    },
    "C09": {
        "text": "Lean model of the whole catalogue construction (_init_regions, _init_alleles, _init_partials: mutation intake with first-wins "
                "metadata on top of the C08 coordinate model, structural configurations with freezekey merging and min-name renaming, grouping "
                "by (structure, sorted core set), unique naming with label fallback and ':n' suffix, fusion partials, duplicate-minor removal "
                "with alias table). Machine-checked for every key function and input list about the grouping fold used for majors and for "
                "duplicate minors: groups have pairwise different keys, every member has its group's key, all members together are a permutation "
                "of the input (each database allele in exactly one major, no loss); core/partial variant sets are filters (membership = "
                "conjunction). Tie: the model's catalogue (majors, minors, variant sets, configurations with copy-number vectors, alias table, "
                "regions, mutation metadata) equals the real Gene for toy + shipped databases x 2 builds and for generated databases with "
                "collisions; oracle on the real Gene: reachability, single owner, distinct keys, functional split, partial = restriction, "
                "configurations exist, equality between builds in RefSeq terms (under the evaluated hypothesis that every variant is mapped in "
                "both builds).",
        "text_more": "Props/C09Names.lean: the names handed out to the major alleles are pairwise different for any number of groups competing for one prefix or label (assignNames_nodup over the used_names invariant; nameStep / assignNames are the functions buildCatalogue runs). ",
        "design_ref": "DESIGN.md section 10.2-10.3 (as built), section 4 (C09) (plan)",
        "note": "PARTIAL at theorem level: name injectivity and the effect of dict overwrites/partials are decided per database by the "
                "correspondence and the oracle, not by theorems. One known finding (insertion on a region boundary, opposite strands).",
        "technique": "Lean 4 proof (fold invariants: distinct keys, membership, permutation) + full-catalogue differential correspondence with Gene",
    },
    "C04": {
        "text": "Lean model of the whole refinement ILP of solve_minor_model (allele copies tied to the major solution, keep/add selectors with "
                "product helpers, coverage rows, rules 1-6, read-phase block with pattern counting and down-sampling, objective with the "
                "construction-order tie-breaker and novel-core penalty) and of the read-out incl. the homozygous post-processing. Machine-checked "
                "for every instance and feasible point, directly from the emitted constraints: per called major exactly that many copies of its "
                "own minors are selected and nothing beyond the total; core variants of a selected allele are kept; keep/add selectors need the "
                "allele; add selectors exist only where the allele has gene copies and outside its definition; product helpers equal AND; a "
                "variant without filtered support (or without copies at its position) is carried by no allele; a supported one by at least one "
                "and at most its read count; at most one variant per position and allele; error terms equal observed minus carriers with helpers "
                "dominating |error|; read-out alleles are selected slots with lost subset of definition and added subset of addable variants. "
                "Ties on every solve_minor_model call of the real estimate_minor: captured CBC model == MinorInst.build; returned alleles == "
                "readOut of the solver's binaries; returned score == reported objective; oracle with the property's clauses and exhaustive "
                "optimality on small instances.",
        "text_more": "Tie family considered_set: the variants every refinement considers are the documented pool over ALL major solutions (variants of every minor allele of every called major allele, every novel variant, the catalogued variants of no allele); the refinement is judged against that pool. Oracle: the clause 'the reported score equals the objective of the reported assignment' is recomputed from the report alone including the read-phase disagreement (every pattern attributed to the selected copy that contradicts it least); the exhaustive optimum includes the phase term and rule 6; directed class: two copies of one minor allele that differ crosswise (multi-allelic site, variants in trans) with the planted assignment as an admissible upper bound. Spec level (Props/C04Spec, Model/MinorSpec): specMinor computes the documented objective from the reported assignment alone (selected copies, kept / gained variants, the copy each read-phase pattern is attributed to; no product helper, error variable or absolute-value helper is read) and for EVERY instance the objective of any optimum of the model equals specMinor of the assignment that optimum reports (minor_optimum_score_is_spec; product helpers of kept and gained variants exact, reference rows, novel-core indicators, phase indicators); tie family minor_spec_score: the objective reported for every first yield equals specMinor decided by Lean. The helpers are functions of the reported assignment (Props/C04Decision, minor_helpers_determined): two feasible points reporting the same copy / keep / add selectors agree on every product helper and every row error. At an optimum the score IS the documented objective of the reported assignment (Props/C04Tight): no constraint other than its own two mentions an error helper (noabs_cons, all fourteen families), so replacing every helper by the absolute row error keeps a point feasible and lowers the objective by the slack of the helpers (minor_tighten); hence at any optimum every helper equals |observed - carried| of its row (minor_optimum_abs_tight) and the objective is the sum of those absolute fit errors over the variant and reference rows plus the miss / add / novel-core penalties and the read-phase disagreement (minor_optimum_score_is_documented). Score (Props/C04Score): at every point the objective equals error helpers + minor_miss x dropped definition variants + minor_add x (1 + k/1e6) per set add selector + minor_add/2 x novel-core indicators + minor_phase x cnt x (agreeing selectors missed + disagreeing selectors hit) per phase cell (minor_score_closed_form), and at feasible points each summand is the indicator its name says (minor_dropped_term, minor_vnewor_exact, minor_phase_terms; the selectors of a phase cell are keep / add selectors of the cell's slot). Two genuine defects repaired by fix: commits (reference row at multi-allelic sites, candidate order). The clause 'every carried variant has supporting filtered reads' is decided on instances with a variant between the filter thresholds of the structure's copy count and of the copies its site really has. ",
        "design_ref": "DESIGN.md section 10.2-10.3 (as built), section 4 (C04), 3.2 (plan)",
        "note": "Optimality = C05 Run theorems + exhaustive oracle on small instances (tie-breaker epsilon <= minor_add*#selectors/1e6 allowed); "
                "'one variant per site' after the homozygous post-processing is checked by the oracle on every real output (no violation seen), "
                "proved only at ILP level. The iteration order of the considered-variant set is taken from the implementation.",
        "technique": "Lean 4 proof over the constraint builder + captured-model structural correspondence + read-out replay + exhaustive spec oracle",
    },
    "C15": {
        "text": "Lean model of Coverage.quality_filter / basic_filter / filtered, of _filter_alleles and of the minor stage's evidence filter "
                "(as written). Machine-checked for every table, profile and variant: the quality filter of a variant depends only on its "
                "qualifying observations (appending observations that fail either threshold changes nothing), keeps only qualifying ones and is "
                "idempotent; an allele is a candidate only if its structure is in the gene structure and every core variant has positive "
                "filtered support, so an allele with an unsupported core variant is never a candidate; a variant that passes the threshold "
                "filter has at least min_coverage and at least total*threshold/cn supporting observations. Ties: _filter_alleles and the "
                "evidence estimate_minor hands to solve_minor_model (intercepted) vs the model on tables mixing qualifying and sub-threshold "
                "observations under varied, asymmetric thresholds. Oracle: metamorphic pairs through the real estimate_major/estimate_minor give "
                "identical solutions and scores; every called core/novel/carried variant meets the count and fraction thresholds on qualifying reads.",
        "text_more": "Whole table (Props/C15Table): adding observations that fail the base- or mapping-quality threshold to any operation - catalogued at that position or not - of a position of the table leaves Coverage.filtered(quality_filter) IDENTICAL (same positions, operations, observation lists and indel table: qfiltered_addLow, for every table with pairwise different positions), hence every stage model built from it (major_model_ignores_low). Refinement with novel=True, variants below min_coverage at shallow sites and variants between the filter thresholds of low-copy sites are part of the metamorphic runs. ",
        "design_ref": "DESIGN.md section 10.2-10.3 (as built), section 4 (C15) (plan)",
        "note": "Invariance of the stages under low-quality reads is proved for the filter and carried to the stages by the metamorphic "
                "correspondence (stages read evidence only through the filtered coverage - checked by the C02/C04 structural ties); the phase "
                "record is not quality-filtered in the code.",
        "technique": "Lean 4 proof (filter algebra) + metamorphic differential correspondence through the real stages",
    },
    "C16": {
        "text": "Lean model of _load_vcf (get_mut conversion, 20/10 pseudo-read bookkeeping with the literals regenerated, REF-mismatch "
                "re-expression, per-record multi-substitution merging, skip rules) followed by the table assembly and the Coverage constructor "
                "rule. Machine-checked: 20 = 2 x 10; alleles of ignored shape are skipped (shape of the skip test regenerated from the source); "
                "no records => full reference support everywhere; non-diploid/missing genotypes and matching 0/0 records change nothing; a "
                "single-base change becomes a substitution spelled against the reference base (or the reference marker), left-anchored "
                "deletions/insertions are anchored after the common prefix, same-length multi-base pairs are an ignored shape. Tie: "
                "Sample(gene, profile, vcf).coverage on generated bgzip+tabix VCFs (all variant kinds, genotypes, phasing, several samples, odd "
                "records) == the model. Oracle: support 10 x copies and reference 20 - 10 x copies per catalogued variant, default 20 elsewhere, "
                "no failed run, heterozygous allele => reference/allele through genotype(). One genuine defect (crash on ignored shapes) was "
                "repaired by a fix: commit; insertions, multi-nucleotide substitutions and deletion-insertions not becoming support are known findings.",
        "text_more": "Half-missing genotypes (./1, 1/., .|1, ./0) are incomplete calls. Multi-sample files with the carrier at any column are genotyped through genotype() with vcf_sample_idx. ",
        "design_ref": "DESIGN.md section 10.2-10.3 (as built), section 4 (C16), 5 (plan)",
        "note": "Seven known-finding signatures (insertion / MNP one-record / MNP adjacent / delins and their genotype-level consequences). "
                "Pharmacoscan input not modelled.",
        "technique": "Lean 4 proof over the record-conversion model + differential correspondence on generated tabix-indexed VCFs",
    },
    "C17": {
        "text": "Lean model of the dump writer/reader (per-site counter compression, expansion, phase-table restriction). Machine-checked for every "
                "observation list: loading what was written gives a permutation of the original observations (every (mapq, baseq) pair with its "
                "multiplicity), hence the same count and the same number of qualifying observations for every filter; dropping single-site "
                "fragments from the phase table does not change the read-phase patterns the minor stage uses. Tie: the pickled counters / loaded "
                "lists / phase table of real dumps vs the model; and the property itself on the real code: `aldy genotype --debug` through the real "
                "command line in a fresh interpreter, archive replayed with `aldy genotype <archive>`, output files compared byte for byte and "
                "solution objects (names, structures, scores, alleles) compared through the API, for one- and two-gene archives.",
        "text_more": "Every fifth run uses a profile file whose options section sets a parameter the caller sets too: the caller's value governs run, archive and replay. Props/C17Stages.lean: every Coverage query the stages use is invariant under the reordering a dump introduces, the filters preserve that equivalence, the candidate filter selects the same alleles and the major / minor stage models built from the replayed evidence are EQUAL to those built from the original (replay_major_stage_equal, replay_minor_stage_equal, replay_depths_equal); the equivalence is decided on the real original and replayed Sample objects on every run (with and without indel realignment, under BAM and named profiles). ",
        "design_ref": "DESIGN.md section 10.2-10.3 (as built), section 4 (C17) (plan)",
        "note": "PARTIAL by nature: pickle/gzip/tar and process start are runtime behaviour covered only by the replay runs; invariance of the "
                "stages under per-site permutation is proved for counts/filters (C15, C17) and carried to results by the replay tie.",
        "technique": "Lean 4 proof (multiset round trip by counting) + real-CLI replay correspondence",
    },
    "C13": {
        "text": "Machine-checked for every linear model: feasibility and objective are invariant under renaming of variables; with an injective "
                "renaming feasible points correspond one to one with equal objective (same optimal value, corresponding optima); feasibility "
                "depends only on the set of constraints (order, multiplicity irrelevant); objectives and rows are invariant under permuting or "
                "splitting terms. Per instance the check then establishes the premise on the implementation: the models solve_major_model and "
                "solve_minor_model hand to CBC for the two builds are equal after renaming variables by the RefSeq identity of their variants "
                "(reference rows by the set of variants at the site; minor objective up to the construction-order tie-breaker <= 1e-3), for "
                "shipped hg19/hg38 databases and generated opposite-strand databases with RefSeq-level evidence transported to both builds. "
                "Oracle: the property itself - equal major/minor solutions, scores and added/lost variants in RefSeq terms at stage level, and "
                "equal full-pipeline results for alignments expressed against each build (reads mirrored through the coordinate maps).",
        "text_more": "Databases with one build aligned with a balanced pair of gaps around catalogued variants; simulated reads take reference bases from the RefSeq record and the coordinate map; read-phase evidence is off for independently tiled alignments (not the same fragments), on for mirrored ones. Spec level (Props/C13Spec), no ILP involved: if the two builds' inputs of the major stage correspond (MajorCorr: same candidate alleles up to a relabelling of their core variants - in any order -, observed variants and sites relabelled in any order, 'carries' / 'sits at this site' / 'is an insertion' preserved, observed copy numbers and gene copies at a site equal) then EVERY multiset of alleles has the same admissibility and the same documented score in both builds (spec_major_build_independent), so by C02's major_optimal_score_is_least_documented both builds have the same optimal multisets with the same scores (major_optimum_build_independent); the correspondence is decided by Lean on the two real stage inputs (majorCorrB_sound; tie family major_spec_correspondence: where it holds the reported major solutions must be equal). Oracle additions: region of every RefSeq base equal in both builds (generated databases), VCF pairs with REF/ALT exchanged in one build, homozygous insertion alleles through the alignment pipeline. ",
        "design_ref": "DESIGN.md section 10.2-10.3 (as built), section 4 (C13) (plan)",
        "note": "PARTIAL: the equivariance premise (models are renamings) is validated per instance (translation validation), not proved for the "
                "builders in general; exact score equality of the minor stage holds up to the order-dependent tie-breaker. Evidence transport "
                "assumes uniform reference depth around insertion anchors (anchors differ by one base between strands).",
        "technique": "Lean 4 proof (invariance of ILP semantics under renaming/permutation) + per-instance model-isomorphism validation across builds",
    },
}

NOT_YET = "check not built yet (work in progress; see DESIGN.md section 9 build order)"


def main():
    props = [json.loads(l) for l in open(os.path.join(VERIF, "properties.jsonl"))]
    checks = []
    na = []
    for p in props:
        pid = p["id"]
        if pid in CHECKS:
            c = CHECKS[pid]
            checks.append({
                "property_id": pid,
                "quick_cmd": f"./check {pid} --tier quick",
                "thorough_cmd": f"./check {pid} --tier thorough",
                "evidence_file": f"evidence/{pid}.json",
                "replay_cmd_template": f"./check {pid} --replay {{path}}",
                "engine": "lean4-proof+correspondence",
                "level_claimed": {"category": "proof", "text": c["text"] + (" " + c["text_more"].strip() if c.get("text_more") else ""), "design_ref": c["design_ref"]},
                "level_note": BASE_NOTE + c["note"],
                "technique": c["technique"],
            })
        else:
            na.append({"property_id": pid, "reason": NOT_YET})
    m = {
        "version": 1,
        "setup_cmd": "cd lean && lake build Aldy driver",
        "hooks": {
            "guard": "ALDY_VERIF (unused: no source hooks are needed)",
            "enable": "none; the harness captures models and stage returns by attribute replacement inside its own process",
            "baseline_off_cmd": "cd /repo && /venv/bin/python -m pytest -ra -q -p no:cacheprovider --timeout=900 --continue-on-collection-errors",
            "source_commits": [],
            "add_only": True,
        },
        "engines": [{"name": "lean4-proof+correspondence", "path": "lean/ + harness/", "serves_properties": sorted(CHECKS),
                     "kind_free_text": "Lean 4 models and theorems (lake project, no Mathlib require); Python harness drives the real aldy code and the compiled Lean driver over a JSON line protocol"}],
        "checks": checks,
        "not_applicable": na,
        "notes": "Exit codes: 0 held, 1 VIOLATION line, 2 tool trouble. VERIF_SEED seeds every generator; VERIF_TIER overrides --tier. "
                 "Every check regenerates lean/Aldy/Generated/Constants.lean from /repo's working tree (per section, with a last-good fallback: only "
                 "checks that use a stale constant treat an extractor mismatch as a broken obligation), builds its own property modules and the "
                 "driver, audits the axioms of every property theorem (propext, Classical.choice, Quot.sound only; no sorry / native_decide / "
                 "bv_decide / own axioms), runs the correspondence against the real code imported from /repo (ALDY_REPO overrides the path) and "
                 "only then, if something is red, the failing-input search. Open findings and the 'fixed:' lines of the unguarded fix: commits made "
                 "in /repo are in known_findings.json; the seeded changes used to test the checks are under seeded/ (DESIGN.md section 10.6). "
                 "No source hooks: hooks.guard is unused.",
    }
    with open(os.path.join(VERIF, "MANIFEST.json"), "w") as f:
        json.dump(m, f, indent=1)
    print(f"MANIFEST.json: {len(checks)} checks, {len(na)} not yet claimed")


if __name__ == "__main__":
    main()
