"""C09 - the star-allele catalogue is a consistent, build-independent partition.

Tie:
  catalogue : Lean `buildCatalogue` (regions, mutation intake with first-wins metadata, structural
              configurations with freezekey merging and min-name renaming, grouping by
              (structure, core set), unique naming with label fallback and ':n' suffix, fusion
              partials, duplicate-minor removal with alias table) == the real `Gene`
              (alleles / minors / cn_configs / removed / regions / mutations) for every database x build
Oracle (always on; the search): the property's clauses on the real Gene object - reachability by
name, one major per database allele, distinct (structure, core) keys, core = functional, minors of a
major pairwise different, configurations exist, partials = retained-region restriction, and
equality of the catalogue between builds in RefSeq terms.
"""
import collections
import os
import re

import yaml

import c08
import gen_gene
import lib
import views

PID = "C09"
PROPS = ["Aldy.Props.C09", "Aldy.Props.C09Names"]
TRUSTED_EXTRA = ["PyYAML", "natsort (order of minors inside a major; compared as sets)"]
ASSUMPTIONS = ["database allele names and labels contain no ':' (checked per database; shipped ones satisfy it)"]


def entry(e, gene_names):
    pos, op = e[0], e[1]
    info = e[2:]
    if isinstance(pos, str):
        if pos == "ignored":
            return {"t": "i"}
        return {"t": "g", "target": pos, "op": str(op)}
    if info == []:
        info = ["-"]
    return {"t": "v", "pos": pos, "op": op, "rsid": str(info[0]), "fn": (None if len(info) < 2 or info[1] is None else str(info[1]))}


def raw_db(doc, genome):
    chrom, start, end, strand, cigar = doc["reference"]["mappings"][genome]
    seq = doc["reference"]["seq"].replace("\n", "")
    if "patches" in doc["reference"]:
        s = list(seq)
        for pos, nuc in doc["reference"]["patches"]:
            s[pos - 1] = nuc
        seq = "".join(s)
    genes = list(doc["structure"]["genes"])
    alleles = []
    for name, a in doc["alleles"].items():
        if name in ("random", "groups"):
            continue
        alleles.append({"name": name, "label": a.get("label"), "ignored": bool(a.get("ignored", False)),
                        "entries": [entry(e, genes) for e in a["mutations"]]})
    return {"name": doc["name"], "seq": seq, "start": start, "end": end, "strand": 1 if strand == "+" else -1,
            "cigar": [[m.group(1), int(m.group(2))] for m in c08.CIG.finditer(cigar)], "genes": genes,
            "regions": [[n, list(co)] for n, co in doc["structure"]["regions"][genome].items()],
            "cn_regions": list(doc["structure"]["cn_regions"]),
            "tandems": [[str(a), str(b)] for a, b in doc["structure"].get("tandems", [])],
            "random": [entry(e, genes) for e in doc["alleles"].get("random", [])],
            "groups": [[g, [entry(e, genes) for e in ms]] for g, ms in doc["alleles"].get("groups", {}).items()],
            "alleles": alleles}


KIND = views.KIND


def real_view(gene):
    return {
        "alleles": {an: {"cn_config": a.cn_config, "func": sorted((m.pos, m.op) for m in a.func_muts),
                         "minors": {mn: {"alt": mi.alt_name, "neutral": sorted((m.pos, m.op) for m in mi.neutral_muts)} for mn, mi in a.minors.items()}}
                    for an, a in gene.alleles.items()},
        "cn_configs": {n: {"kind": KIND[c.kind.name], "cn": [dict(g) for g in c.cn], "alleles": sorted(c.alleles)} for n, c in gene.cn_configs.items()},
        "removed": dict(gene.removed),
        "regions": [[(r, rng.start, rng.end) for r, rng in g.items()] for g in gene.regions],
        "mutations": {(p, o): (v[0], str(v[1]), v[2], v[3], v[4]) for (p, o), v in gene.mutations.items()},
    }


def model_view(o):
    return {
        "alleles": {a["name"]: {"cn_config": a["cn_config"], "func": sorted((m[0], m[1]) for m in a["func"]),
                                "minors": {m["name"]: {"alt": m["alt"], "neutral": sorted((x[0], x[1]) for x in m["neutral"])} for m in a["minors"]}}
                    for a in o["alleles"]},
        "cn_configs": {c["name"]: {"kind": c["kind"], "cn": [{r: v for r, v in g} for g in c["cn"]], "alleles": sorted(c["alleles"])} for c in o["cn_configs"]},
        "removed": {a: b for a, b in o["removed"]},
        "regions": [[(r[0], r[1], r[2]) for r in g] for g in o["regions"]],
        "mutations": {(m["pos"], m["op"]): (m["fn"], m["rsid"], m["pos0"], m["orig_pos0"], m["orig_op"]) for m in o["mutations"]},
    }


def first_diff(a, b, path=""):
    if type(a) != type(b):
        return f"{path}: {a!r} vs {b!r}"
    if isinstance(a, dict):
        for k in sorted(set(a) | set(b), key=str):
            if k not in a:
                return f"{path}/{k}: missing in implementation"
            if k not in b:
                return f"{path}/{k}: missing in model"
            d = first_diff(a[k], b[k], f"{path}/{k}")
            if d:
                return d
        return None
    if isinstance(a, list):
        if len(a) != len(b):
            return f"{path}: lengths {len(a)} vs {len(b)}: {a!r} vs {b!r}"[:300]
        for i, (x, y) in enumerate(zip(a, b)):
            d = first_diff(x, y, f"{path}[{i}]")
            if d:
                return d
        return None
    return None if a == b else f"{path}: {a!r} vs {b!r}"


def refseq_catalogue(gene, drop=frozenset()):
    """catalogue in RefSeq terms (build independent form); `drop`: RefSeq-level variants to leave out"""
    def rs(m):
        v = gene.mutations[(m.pos, m.op)]
        return (v[3], v[4])
    return {an: {"cn_config": a.cn_config, "func": sorted(rs(m) for m in a.func_muts if rs(m) not in drop),
                 "minors": {mn: sorted(rs(m) for m in mi.neutral_muts if rs(m) not in drop) for mn, mi in a.minors.items()}} for an, a in gene.alleles.items()}


def boundary_insertions(gene):
    """insertions written between two RefSeq bases that lie in different regions (or one unmapped)"""
    out = set()
    for (g, op), v in gene.mutations.items():
        if v[4].startswith("ins"):
            p0 = v[3]
            a = gene.ref_to_chr.get(p0)
            b = gene.ref_to_chr.get(p0 + 1)
            ra = gene.region_at(a) if a is not None else None
            rb = gene.region_at(b) if b is not None else None
            if ra != rb:
                out.add((v[3], v[4]))
        else:
            # a multi-base substitution / deletion whose first and last replaced bases lie in different regions: it is
            # keyed by its first base on the + strand and by its last base on the - strand
            ref = v[4].split(">")[0] if ">" in v[4] else (v[4][3:].split("ins")[0] if v[4].startswith("del") else "")
            if len(ref) > 1:
                a = gene.ref_to_chr.get(v[3])
                b = gene.ref_to_chr.get(v[3] + len(ref) - 1)
                ra = gene.region_at(a) if a is not None else None
                rb = gene.region_at(b) if b is not None else None
                if ra != rb:
                    out.add((v[3], v[4]))
    return out


why_skip = []


def oracle(doc, genes):
    """genes: {genome: Gene}; property clauses on the real objects"""
    why = []
    for genome, gene in genes.items():
        tag = f"{gene.name} {genome}"
        keys = collections.defaultdict(list)
        for an, a in gene.alleles.items():
            keys[(a.cn_config, tuple(sorted(a.func_muts)))].append(an)
            if a.cn_config not in gene.cn_configs:
                why.append(f"{tag}: allele {an} has configuration {a.cn_config} which does not exist")
            for m in a.func_muts:
                if not gene.is_functional(m):
                    why.append(f"{tag}: core variant {m} of {an} is not function-altering")
            seen = {}
            for mn, mi in a.minors.items():
                for m in mi.neutral_muts:
                    if gene.is_functional(m) and "#" not in an:
                        why.append(f"{tag}: minor-only variant {m} of {mn} is function-altering")
                k = tuple(sorted(mi.neutral_muts))
                if k in seen:
                    why.append(f"{tag}: minors {seen[k]} and {mn} of {an} have the same variant set")
                seen[k] = mn
        for k, v in keys.items():
            if len(v) > 1:
                if any("#" in x for x in v) and any("#" not in x for x in v):
                    why.append(f"{tag}: PARTIAL-DUPLICATE major alleles {v} share structure {k[0]} and core-variant set (a partial allele derived for a fusion repeats a database allele of the same fusion)")
                else:
                    why.append(f"{tag}: major alleles {v} share structure {k[0]} and core-variant set")
        # reachability of every database allele that is not a bare left fusion
        for raw, a in doc["alleles"].items():
            if raw in ("random", "groups") or a.get("ignored", False):
                continue
            from aldy.common import allele_name
            nm = allele_name(raw)
            is_left = any(isinstance(e[0], str) and e[0] in gene.pseudogenes and str(e[1]).endswith("-") for e in a["mutations"])
            got = gene.get_allele(nm)
            owners = [an for an, al in gene.alleles.items() if nm in al.minors or gene.removed.get(nm) in al.minors]
            # a left fusion that carries a function-altering variant of its own is a database allele like any other
            # (counted in THIS build: a variant the alignment of the build cannot place - inside an alignment gap, outside
            # the named regions - is dropped by the loader with a warning, and the fusion is then bare in this build)
            placed = {(v[3], v[4]) for v in gene.mutations.values()}
            if is_left and not any(len(e) > 3 and e[3] == "functional" and isinstance(e[0], int) and (e[0] - 1, e[1]) in placed
                                   for e in a["mutations"]):
                continue
            if got is None:
                why.append(f"{tag}: database allele {nm} is not reachable by name")
            elif len(owners) != 1:
                why.append(f"{tag}: database allele {nm} belongs to {len(owners)} major alleles {owners}")
        # partials carry exactly the retained-region variants of the parent
        for an, a in gene.alleles.items():
            if "#" in an:
                f, parent = an.split("#", 1)
                if parent in gene.alleles and f in gene.cn_configs:
                    exp = {m for m in gene.alleles[parent].func_muts if gene.region_at(m.pos) and gene.cn_configs[f].cn[gene.region_at(m.pos)[0]][gene.region_at(m.pos)[1]] > 0}
                    if set(a.func_muts) != exp:
                        why.append(f"{tag}: partial allele {an} core variants {sorted(a.func_muts)} differ from the retained-region variants of {parent}")
    # hypothesis of build independence: every written variant is mapped (and in a named region) in both builds
    total_maps = True
    for genome, gene in genes.items():
        loaded = {(v[3], v[4]) for v in gene.mutations.values()}
        for pos, op in c08.raw_entries(doc):
            if (pos - 1, op) not in loaded:
                total_maps = False
    if len(genes) == 2 and not total_maps:
        why_skip.append(1)
    if len(genes) == 2 and total_maps:
        a, b = (refseq_catalogue(g) for g in genes.values())
        d = first_diff(a, b)
        if d:
            drop = frozenset().union(*(boundary_insertions(g) for g in genes.values()))
            a2, b2 = (refseq_catalogue(g, drop) for g in genes.values())
            # partial alleles may be grouped differently once a boundary insertion differs: compare variant content per database minor
            def flat(c):
                # content only: (structure, core set) -> set of minor variant sets; names of non-partial minors kept
                out = {}
                for an, al in c.items():
                    key = (al["cn_config"], tuple(al["func"]))
                    for mn, v in al["minors"].items():
                        out.setdefault(str(key), set()).add((mn if "#" not in mn else "#", tuple(v)))
                return {k_: sorted(v_) for k_, v_ in out.items()}
            if drop and (first_diff(a2, b2) is None or first_diff(flat(a2), flat(b2)) is None):
                if all(o.startswith("ins") for _, o in drop):
                    why.append(f"{list(genes.values())[0].name}: BOUNDARY-INSERTION catalogue differs between builds at {d} (insertion(s) {sorted(drop)[:3]} sit on a region boundary and are anchored to different regions on the two strands)")
                else:
                    why.append(f"{list(genes.values())[0].name}: BOUNDARY-SPAN catalogue differs between builds at {d} (variant(s) {sorted(drop)[:3]} replace bases of two regions and are assigned to the first one on the + strand, to the last one on the - strand)")
            else:
                why.append(f"{list(genes.values())[0].name}: catalogue differs between builds at {d}")
    return why


def collision_db(r, force_triple=False):
    """generated database with duplicate variant sets, name collisions, labels, fusions with own
    core variants, custom deletions"""
    y = gen_gene.gen_gene(r, ascending38=r.random() < 0.3, pseudogene=r.random() < 0.8, fusions=r.randint(0, 3), custom=r.random() < 0.4, deletion=r.random() < 0.7,
                          cigar_indels=r.random() < 0.3, offsets=(10000, 20000))
    doc = yaml.safe_load(y)
    name = doc["name"]
    als = doc["alleles"]
    plain = [k for k, v in als.items() if v["mutations"] and all(isinstance(e[0], int) for e in v["mutations"])]
    # one left-fusion structure shared by the bare fusion allele and by alleles with a function-altering variant of their
    # own (in the retained part or in the part the pseudogene replaces): they stay database alleles of their own
    seq_f = doc["reference"]["seq"]
    lefts = [k for k, v in als.items() if len(v["mutations"]) == 1 and isinstance(v["mutations"][0][0], str) and str(v["mutations"][0][1]).endswith("-")]
    if lefts and r.random() < 0.7:
        src = r.choice(lefts)
        base = src.split("*")[1].split(".")[0]
        L_f = len(seq_f)
        lo_f = L_f // 2 + 2 if len(doc["structure"]["genes"]) > 1 else 3
        used_f = {e[0] + d_ for a_ in als.values() for e in a_["mutations"] if isinstance(e[0], int) for d_ in range(-3, 5)}
        cand_f = [q for q in range(lo_f, L_f - 4) if q not in used_f]
        if cand_f and r.random() < 0.5:
            # ... or the allele that names the structure carries the variant itself (anywhere in the gene: in the part the
            # fusion keeps or in the part the pseudogene replaces) and there is no bare allele of that structure
            q = r.choice(cand_f)
            als[src]["mutations"].append([q, f"{seq_f[q - 1]}>{r.choice([c for c in 'ACGT' if c != seq_f[q - 1]])}", "-", "functional"])
            cand_f = []
        for j_ in range(r.randint(1, 2)):
            if not cand_f:
                break
            q = r.choice(cand_f)
            cand_f = [x for x in cand_f if abs(x - q) > 4]
            als[f"{name}*{base}.{70 + j_}"] = {"mutations": [list(als[src]["mutations"][0]),
                                                            [q, f"{seq_f[q - 1]}>{r.choice([c for c in 'ACGT' if c != seq_f[q - 1]])}", "-", "functional"]]}
    # duplicate variant sets under names that sort differently naturally / lexicographically
    for _ in range(r.randint(0, 3)):
        if not plain:
            break
        src = r.choice(plain)
        base = src.split("*")[1].split(".")[0]
        new = f"{name}*{base}.{r.choice(['9', '10', '002', '11', '1', '100'])}"
        if new not in als:
            als[new] = {"mutations": [list(e) for e in als[src]["mutations"]]}
            if r.random() < 0.3:
                als[new]["label"] = f"{name}*{base}{r.choice('ABXYZ')}"
    # same major number, different core set -> prefix collision
    for _ in range(r.randint(0, 2)):
        if len(plain) < 2:
            break
        a, b = r.sample(plain, 2)
        base = a.split("*")[1].split(".")[0]
        new = f"{name}*{base}.{r.randint(20, 40):03d}"
        if new not in als:
            als[new] = {"mutations": [list(e) for e in als[b]["mutations"]]}
            if r.random() < 0.5:
                als[new]["label"] = f"{name}*{base}{r.choice('KLMN')}"
    # several sub-alleles of one star allele with pairwise different core sets, all carrying the star allele's label
    # (as CYP2D6*68.001/.002 do): the prefix and the label are taken, the ':n' suffix is needed more than once
    if len(plain) >= 1 and (force_triple or r.random() < 0.35):
        srcs = r.sample(plain, min(len(plain), r.randint(3, 4)))
        while len(srcs) < 3:
            srcs.append(r.choice(plain))
        base = srcs[0].split("*")[1].split(".")[0]
        lab = f"{name}*{base}" if (force_triple or r.random() < 0.6) else f"{name}*{base}Q"
        als[srcs[0]].setdefault("label", lab)
        seq_ = doc["reference"]["seq"]
        occupied_ = {e[0] + d_ for a_ in als.values() for e in a_["mutations"] if isinstance(e[0], int) for d_ in range(-3, 5)}
        free_ = [q for q in range((len(seq_) // 2 + 3) if len(doc["structure"]["genes"]) > 1 else 3, len(seq_) - 6) if q not in occupied_]
        for k, src in enumerate(srcs[1:]):
            new = f"{name}*{base}.{50 + k:03d}"
            if new not in als:
                ms_ = [list(e) for e in als[src]["mutations"]]
                if free_:
                    # a core variant of its own: the groups have pairwise different core sets for sure
                    q = free_.pop(r.randrange(len(free_)))
                    free_ = [x for x in free_ if abs(x - q) > 3]
                    ms_.append([q, f"{seq_[q - 1]}>{r.choice([c for c in 'ACGT' if c != seq_[q - 1]])}", "-", "functional"])
                als[new] = {"mutations": ms_, "label": lab}
    # variants located in the pseudogene part of the record (the RefSeq covers pseudogene + gene): a fused allele keeps
    # them exactly when it retains that pseudogene region
    if len(doc["structure"]["genes"]) > 1 and r.random() < 0.5:
        seq = doc["reference"]["seq"]
        half = len(seq) // 2
        used = {e[0] for a in als.values() for e in a["mutations"] if isinstance(e[0], int)}
        k = 0
        for _ in range(r.randint(1, 3)):
            p_ = r.randint(3, half - 3)
            if any(p_ + d_ in used for d_ in (-1, 0, 1)):
                continue
            used.add(p_)
            alt = r.choice([c for c in "ACGT" if c != seq[p_ - 1]])
            ent = [p_, f"{seq[p_ - 1]}>{alt}", "-"] + (["functional"] if r.random() < 0.6 else [])
            k += 1
            als[f"{name}*{60 + k}.001"] = {"mutations": [list(ent)]}
            if plain and r.random() < 0.6:
                als[r.choice(plain)]["mutations"].append(list(ent))
    # a zero-length region (as CYP2D6's `pce` in the pseudogene-free builds) and two partial deletions that differ only
    # in that region: two different structures as declared - they stay two configurations
    regs19, regs38 = doc["structure"]["regions"]["hg19"], doc["structure"]["regions"]["hg38"]
    exs = [n for n in regs19 if n[0] == "e"]
    if len(exs) >= 3 and r.random() < 0.3:
        ek = r.choice(exs[1:-1])
        other = r.choice([n for n in exs if n != ek])
        for bname, regs in (("hg19", regs19), ("hg38", regs38)):
            v = regs[ek]
            # the empty region sits at the RefSeq start of the former exon in both builds (the genome end on the - strand)
            k0 = 0 if doc["reference"]["mappings"][bname][3] == "+" else 1
            regs[ek] = [v[k0], v[k0]] + ([v[2 + k0], v[2 + k0]] if len(v) > 2 else [])
        top = max([int(re.match(r"\d+", k.split("*")[1]).group()) for k in als if re.match(r"\d+", k.split("*")[1])] + [70])
        als[f"{name}*{top + 1}.001"] = {"mutations": [[name, f"deletion:{other}"]]}
        als[f"{name}*{top + 2}.001"] = {"mutations": [[name, f"deletion:{other},{ek}"]]}
    # a renumbered copy: *10 vs *9 duplicates across majors
    if plain and r.random() < 0.4:
        src = r.choice(plain)
        for new in (f"{name}*9.001", f"{name}*10.001"):
            if new not in als:
                als[new] = {"mutations": [list(e) for e in als[src]["mutations"]]}
    # move the dict so that structural alleles stay at the end as generated
    return yaml.safe_dump(doc, sort_keys=False, default_flow_style=None)


def pool(r, quick):
    names = [n for n in views.shipped_gene_names() if os.path.isfile(os.path.join(lib.REPO, f"aldy/resources/genes/{n}.yml"))]
    chosen = (r.sample(names, 5) + ["cyp2d6", "cyp2c19"]) if quick else names
    out = [{"kind": "toy"}]
    for n in dict.fromkeys(chosen):
        out.append({"kind": "shipped", "name": n})
    for i_ in range(40 if quick else 500):
        out.append({"kind": "generated", "yaml": collision_db(r, force_triple=i_ % 5 == 0)})
    return out


def tie(ctx):
    r = lib.rng("c09")
    quick = ctx["tier"] == "quick"
    dbs = pool(r, quick)
    if ctx.get("replay") and "violation" in ctx["replay"] and "db" in (ctx["replay"]["violation"].get("input") or {}):
        dbs.insert(0, ctx["replay"]["violation"]["input"]["db"])
    for fn, cj in lib.load_corpus(PID):
        dbs.insert(0, cj["db"])
    reqs, metas = [], []
    violations = []
    stats = collections.Counter()
    for gd in dbs:
        genes = {}
        docs = None
        for genome in ("hg19", "hg38"):
            try:
                doc, gene = c08.load_db({**gd, "genome": genome})
            except Exception as e:
                stats["load_errors"] += 1
                continue
            genes[genome] = gene
            docs = doc
            reqs.append({"op": "catalogue", "db": raw_db(doc, genome)})
            metas.append((gd, genome, gene))
        if docs is not None and genes:
            why = oracle(docs, genes)
            if why:
                for w in why[:6]:
                    sig = "c09:build_dependence_boundary_insertion" if "BOUNDARY-INSERTION" in w else "c09:build_dependence_boundary_span" if "BOUNDARY-SPAN" in w else "c09:partial_allele_duplicates_fusion_allele" if "PARTIAL-DUPLICATE" in w else "c09:" + re.sub(r"[0-9'\[\]]", "", w.split(":", 1)[1].strip())[:40]
                    violations.append({"why": w, "input": {"db": gd}, "signature": sig})
    outs = lib.driver_batch(reqs)
    fam = {"catalogue": {"cases": 0, "disagreements": []}}
    distinct = set()
    samples = []
    for (gd, genome, gene), o in zip(metas, outs):
        fam["catalogue"]["cases"] += 1
        d = first_diff(real_view(gene), model_view(o))
        if d:
            fam["catalogue"]["disagreements"].append({"why": f"{gene.name} {genome}: implementation vs model differ at {d}", "input": {"db": gd, "genome": genome}})
        stats["majors"] += len(gene.alleles)
        stats["minors"] += sum(len(a.minors) for a in gene.alleles.values())
        stats["removed"] += len(gene.removed)
        stats["renamed_with_colon"] += sum(1 for a in gene.alleles if ":" in a)
        stats["partials"] += sum(1 for a in gene.alleles if "#" in a)
        stats["configs"] += len(gene.cn_configs)
        stats["build_comparison_skipped_unmapped_variant"] = len(why_skip)
        distinct.add(lib.canon_hash([gd, genome]))
        if len(samples) < 3 and gene.removed:
            samples.append({"db": gd.get("name", gd["kind"]), "genome": genome, "majors": list(gene.alleles)[:8], "removed": dict(list(gene.removed.items())[:3]), "configs": list(gene.cn_configs)})
    firstv = {}
    for v in violations:
        firstv.setdefault(v["signature"], v)
    violations = list(firstv.values())
    return {"families": fam, "violations": violations[:8], "evaluations": len(metas), "distinct_nontrivial": len(distinct),
            "rule": "toy + shipped databases (quick: 7, thorough: all) x 2 builds + generated databases with duplicate variant sets under naturally/lexicographically different names, prefix collisions (incl. three and more groups competing for one prefix and label), labels, variants in the pseudogene part of the record, fusions with and without own core variants, custom deletions, alignment indels; distinct by (database, build)",
            "samples": samples, "stats": dict(stats)}


def search(ctx, hints):
    r = lib.rng("c09-search")
    dbs = [h["input"]["db"] for h in hints if "db" in (h.get("input") or {})][:10] + pool(r, True)
    violations = {}
    for gd in dbs:
        genes, docs = {}, None
        for genome in ("hg19", "hg38"):
            try:
                doc, gene = c08.load_db({**gd, "genome": genome})
                genes[genome] = gene
                docs = doc
            except Exception as e:
                violations.setdefault("crash", {"why": f"loading raised {type(e).__name__}: {e}", "input": {"db": gd}, "signature": "c09:crash"})
        if docs is not None and genes:
            why = oracle(docs, genes)
            if why:
                for w in why[:6]:
                    sig = "c09:build_dependence_boundary_insertion" if "BOUNDARY-INSERTION" in w else "c09:build_dependence_boundary_span" if "BOUNDARY-SPAN" in w else "c09:partial_allele_duplicates_fusion_allele" if "PARTIAL-DUPLICATE" in w else "c09:" + re.sub(r"[0-9'\[\]]", "", w.split(":", 1)[1].strip())[:40]
                    violations.setdefault(sig, {"why": w, "input": {"db": gd}, "signature": sig})
    return {"violations": list(violations.values())[:5], "databases_searched": len(dbs)}
