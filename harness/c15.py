"""C15 - calls are backed by high-quality reads; low-quality reads are ignored.

Ties:
  major_filter : `_filter_alleles` on tables mixing qualifying and sub-threshold observations
                 (mapping quality and base quality independently, thresholds varied and asymmetric)
                 == Lean `filterAlleles`
  minor_filter : the filtered evidence `estimate_minor` hands to `solve_minor_model` (intercepted)
                 == Lean `minorFilteredCov` (quality filter + `default_filter_fn` as written)
Oracle (always on; the search): metamorphic pairs (table, table + / - / changed sub-threshold
observations) give identical major and minor solutions and scores; every called core variant,
novel variant and carried variant has >= max(min_coverage, total * threshold / cn) qualifying
observations; alleles with an unsupported core variant are never called.
"""
import collections
import copy
from fractions import Fraction

import c04
import instances
import lib
import views

PID = "C15"
PROPS = ["Aldy.Props.C15", "Aldy.Props.C15Table"]
TRUSTED_EXTRA = ["GeneView serialiser"]
ASSUMPTIONS = ["evidence tables avoid exact float boundaries of the threshold filter"]


def gen_instance(r, gdesc):
    """table with explicit qualities; thresholds possibly asymmetric"""
    gene, gid = instances.load_gene(gdesc)
    from aldy.solutions import CNSolution
    structure = instances.random_structure(r, gene, max_copies=3)
    cn_sol = CNSolution(gene, 0, structure)
    planted = instances.plant_alleles(r, gene, structure)
    base = instances.plant_table(r, gene, cn_sol, planted, with_minors=True, noise=r.random() < 0.6)
    prof = {}
    if r.random() < 0.6:
        prof["min_quality"] = r.choice(["10", "20", "30", "15"])
    if r.random() < 0.6:
        prof["min_mapq"] = r.choice(["10", "30", "20", "1"])
    if r.random() < 0.3:
        prof["threshold"] = r.choice(["0.3", "0.7"])
    if r.random() < 0.3:
        prof["min_coverage"] = r.choice(["1", "5"])
    minq = int(prof.get("min_quality", 10))
    minm = int(prof.get("min_mapq", 10))
    good = [(r.choice([minm, minm + 5, 60]), r.choice([minq, minq + 7, 40]))]

    def low():
        if r.random() < 0.5:
            return (r.choice([0, max(0, minm - 1), max(0, minm - 5)]), r.choice([minq, 40, 60]))
        return (r.choice([minm, 60]), r.choice([0, max(0, minq - 1), max(0, minq - 4)]))

    table = []
    for pos, op, quals in base:
        n = sum(q[2] for q in quals)
        mq, q = r.choice(good)
        table.append([pos, op, [[60, 60, n]] if r.random() < 0.5 else [[mq, q, n]]])
    # low-quality extras: on existing entries, and as low-only variants
    extras = []
    allm = list(gene.mutations)
    for pos, op, quals in table:
        if r.random() < 0.5:
            l = low()
            if l[0] < minm or l[1] < minq:
                extras.append([pos, op, [[l[0], l[1], r.randint(1, 12)]]])
    for m in r.sample(allm, min(len(allm), r.randint(0, 3))):
        l = low()
        if (l[0] < minm or l[1] < minq) and not any(t[0] == m[0] and t[1] == m[1] for t in table):
            extras.append([m[0], m[1], [[l[0], l[1], r.randint(2, 15)]]])
    # thin variants: fewer qualifying observations than min_coverage although they are a large fraction of the (shallow)
    # qualifying depth of their site - the count threshold alone must keep them out
    if r.random() < 0.35:
        prof["min_coverage"] = "5"
        taken = {t[0] for t in table if t[1] != "_"}
        cands = [m for m in allm if m[0] not in taken]
        for m in r.sample(cands, min(len(cands), r.randint(1, 2))):
            c = r.randint(1, 4)
            t = r.randint(0, c)
            table = [e for e in table if not (e[0] == m[0] and e[1] == "_")]
            table.append([m[0], m[1], [[60, 60, c]]])
            if t:
                table.append([m[0], "_", [[60, 60, t]]])
            l = low()
            if l[0] < minm or l[1] < minq:
                extras.append([m[0], m[1], [[l[0], l[1], r.randint(3, 12)]]])
    # a structure with fewer copies at some sites than it has configurations (deletion / fused copies): a variant there
    # whose support lies between the threshold for the structure's copy count and the (higher) one for the copies the
    # site really has must not survive the evidence filter
    ncfg = len(structure)
    sites_lo = [m for m in allm if 0 < cn_sol.position_cn(m[0]) < ncfg and m[1][:3] != "ins" and not any(t[0] == m[0] and t[1] == m[1] for t in table)]
    if sites_lo and r.random() < 0.6:
        mp, mo = r.choice(sites_lo)
        c_here = cn_sol.position_cn(mp)
        f_lo, f_hi = 0.5 / (ncfg + 0.5), 0.5 / (c_here + 0.5)
        f = (f_lo + f_hi) / 2
        table = [e for e in table if not (e[0] == mp and e[1] == "_")]
        R = 40
        kk = round(f * R / (1 - f))
        if kk >= 2 and f_lo + 0.01 < kk / (R + kk) < f_hi - 0.01 and int(prof.get("min_coverage", "1")) <= kk:
            table.append([mp, "_", [[60, 60, R]]])
            table.append([mp, mo, [[60, 60, kk]]])
    # refinement asked to look for variants outside the database too (`novel=True`): a substitution at an exonic position
    # that no catalogued variant occupies, seen only in reads below the thresholds, must not become one
    novel = False
    if r.random() < 0.35:
        novel = True
        occupied = {m[0] for m in allm}
        exonic = [p_ for p_ in gene.chr_to_ref if p_ not in occupied and (gene.region_at(p_) or (0, "x"))[1][0] == "e" and gene[p_] in "ACGT"]
        for p_ in r.sample(exonic, min(len(exonic), r.randint(1, 2))):
            alt_ = r.choice([c for c in "ACGT" if c != gene[p_]])
            l = low()
            if l[0] < minm or l[1] < minq:
                table.append([p_, "_", [[60, 60, r.randint(20, 40)]]])
                extras.append([p_, f"{gene[p_]}>{alt_}", [[l[0], l[1], r.randint(8, 20)]]])
    return {"novel": novel, "gene": instances.gene_short(gdesc), "structure": structure, "planted": planted, "table": table, "extras": extras,
            "profile": prof, "max_solutions": 1, "fragments": None}


def with_extras(desc, mode):
    d = copy.deepcopy(desc)
    if mode == "plus":
        tab = {(p, o): q for p, o, q in d["table"]}
        for p, o, q in d["extras"]:
            tab[(p, o)] = tab.get((p, o), []) + q
        d["table"] = [[p, o, q] for (p, o), q in tab.items()]
    return d


def sol_key(real):
    maj = sorted((tuple(sorted(a.major for a in s.solution.elements())), tuple(sorted((m.pos, m.op) for m in s.added)), round(s.score, 6)) for s in real["major_sols"])
    mino = sorted((tuple(sorted((a.major, a.minor, tuple(sorted((m.pos, m.op) for m in a.added)), tuple(sorted((m.pos, m.op) for m in a.missing))) for a in s.solution)), round(s.score, 6)) for s in real["result"])
    return maj, mino


def qualifying(cov, prof, pos, op):
    return sum(1 for mq, q in cov._coverage.get(pos, {}).get(op, []) if q >= prof.min_quality and mq >= prof.min_mapq)


def qualifying_total(cov, prof, pos):
    return sum(sum(1 for mq, q in l if q >= prof.min_quality and mq >= prof.min_mapq) for o, l in cov._coverage.get(pos, {}).items() if o[:3] != "ins")


def support_oracle(real):
    """every called core / novel / carried variant passes count and fraction thresholds on qualifying reads"""
    why = []
    gene, cov, prof = real["gene"], real["cov"], real["prof"]
    cn = real["cn_sol"]
    thr = float(prof.threshold)

    def check(m, what):
        c = qualifying(cov, prof, m.pos, m.op)
        tot = qualifying_total(cov, prof, m.pos)
        need = max(float(prof.min_coverage), tot * thr / float(prof.cn_max))
        need2 = max(float(prof.min_coverage), tot * thr / (cn.position_cn(m.pos) + 0.5))
        if c < need - 1e-9 or c < need2 - 1e-9:
            why.append(f"{what} {m}: {c} qualifying observations, needs {max(need, need2):.3f} (min_coverage {prof.min_coverage}, threshold {thr})")

    for s in real["major_sols"]:
        for a, k in s.solution.items():
            for m in gene.alleles[a.major].func_muts:
                check(m, f"core variant of called allele {a.major}")
        for m in s.added:
            check(m, "novel variant")
    for s in real["result"]:
        for a in s.solution:
            d = set(gene.alleles[a.major].func_muts) | set(gene.alleles[a.major].minors[a.minor].neutral_muts)
            for m in (d - set(a.missing)) | set(a.added):
                if s.major_solution.cn_solution.position_cn(m.pos) > 0:
                    check(m, f"variant carried by {a.minor}")
    return why


def sweep(desc):
    """the same Coverage object genotyped twice: first with thresholds that let every observation through, then - after the
    thresholds were set to the instance's own on the same profile - again. The second result must be that of a fresh object"""
    from aldy import major, minor
    d = with_extras(desc, "plus")
    gene, gid, prof, cn_sol, cov = c04.build(d)
    want = {k: getattr(prof, k) for k in ("min_quality", "min_mapq")}
    out = None
    for step, th in (("open", {"min_quality": 0, "min_mapq": 0}), ("own", want)):
        prof.update(th)
        ms = major.estimate_major(gene, cov, cn_sol, "cbc")
        res = minor.estimate_minor(gene, cov, ms, "cbc", max_solutions=d.get("max_solutions", 1), **({"novel": True} if d.get("novel") else {})) if ms else []
        out = {"major_sols": ms, "result": res}
    return out


def run_multi(desc):
    """refinement of candidates that span TWO gene structures in one call (as genotype() hands them over when several
    structures survive): every structure's evidence goes through the quality filter"""
    from aldy import major, minor
    from aldy.solutions import CNSolution
    gene, gid, prof, cn_sol, cov = c04.build(desc)
    cn2 = CNSolution(gene, 0, sorted(list(desc["structure"]) + ["1"]))
    ms = major.estimate_major(gene, cov, cn_sol, "cbc")[:2] + major.estimate_major(gene, cov, cn2, "cbc")[:2]
    res = minor.estimate_minor(gene, cov, ms, "cbc") if ms else []
    return sorted((tuple(sorted(s.major_solution.cn_solution.solution.items())),
                   tuple(sorted((a.major, a.minor, tuple(sorted((m.pos, m.op) for m in a.added)), tuple(sorted((m.pos, m.op) for m in a.missing))) for a in s.solution)),
                   round(s.score, 6)) for s in res)


def tie(ctx):
    r = lib.rng("c15")
    quick = ctx["tier"] == "quick"
    pool = c04.gene_pool(r, quick)
    descs = []
    if ctx.get("replay") and "violation" in ctx["replay"] and "extras" in (ctx["replay"]["violation"].get("input") or {}):
        descs.append(ctx["replay"]["violation"]["input"])
    for fn, cj in lib.load_corpus(PID):
        descs.append(cj)
    while len(descs) < (120 if quick else 2000):
        descs.append(gen_instance(r, pool[len(descs) % len(pool)]))
    reqs, metas = [], []
    violations = []
    stats = collections.Counter()
    from aldy import major
    for d in descs:
        base = c04.run_real(with_extras(d, "base"))
        plus = c04.run_real(with_extras(d, "plus"))
        kb, kp = sol_key(base), sol_key(plus)
        stats["pairs"] += 1
        if kb != kp:
            violations.append({"why": f"adding sub-threshold observations changes the result: major {kb[0][:2]} -> {kp[0][:2]}, minor {kb[1][:1]} -> {kp[1][:1]}", "input": d, "signature": "c15:low_quality_changes_result"})
        if stats["pairs"] % 3 == 2 and "1" in base["gene"].cn_configs:
            stats["multi_structure_pairs"] += 1
            try:
                mb, mp = run_multi(with_extras(d, "base")), run_multi(with_extras(d, "plus"))
            except Exception as e:
                mb, mp = None, "raised " + type(e).__name__
            if mb != mp:
                violations.append({"why": f"candidates of two gene structures refined in one call: adding sub-threshold observations changes the result {str(mb)[:200]} -> {str(mp)[:200]}", "input": d, "signature": "c15:low_quality_changes_multi_structure_refinement"})
        # thresholds are read when a stage runs, not when the evidence was first used
        if stats["pairs"] % 3 == 1:
            stats["threshold_sweeps"] += 1
            ks = sol_key(sweep(d))
            if ks != kp:
                violations.append({"why": f"genotyping one Coverage object again after min_quality / min_mapq were raised gives major {ks[0][:2]} minor {ks[1][:1]}, a fresh object gives major {kp[0][:2]} minor {kp[1][:1]}", "input": d, "signature": "c15:stale_thresholds"})
        why = support_oracle(plus)
        if why:
            violations.append({"why": why[0], "all": why[:5], "input": d, "signature": "c15:unsupported_" + why[0].split(" ")[0]})
        gv = views.gene_view(plus["gene"], [p for p, _, _ in with_extras(d, "plus")["table"]])
        # major filter tie on the table with extras
        alleles, fcov = major._filter_alleles(plus["gene"], plus["cov"], plus["cn_sol"])
        reqs.append({"op": "major_filter", "gene": gv, "profile": views.profile_view(plus["prof"]), "cn": views.cn_view(plus["cn_sol"]), "cov": views.cov_view(plus["cov"])})
        metas.append(("major", d, sorted(alleles), fcov))
        # minor filter tie
        if plus["calls"] and not d.get("novel"):   # (the model of the evidence filter covers the default, novel=False)
            ms = plus["major_sols"]
            reqs.append({"op": "minor_filter", "gene": gv, "profile": views.profile_view(plus["prof"]), "last_cn": views.cn_view(plus["calls"][0]["major_sol"].cn_solution),
                         "cov": views.cov_view(plus["cov"]),
                         "major_sols": [[[a.major for a in s.solution], [[m.pos, m.op] for m in s.added]] for s in ms]})
            metas.append(("minor", d, plus["calls"][0]["cov"], set(plus["calls"][0]["mutations"])))
        stats["with_low_only_variant"] += any(not any(t[0] == e[0] and t[1] == e[1] for t in d["table"]) for e in d["extras"])
        stats["asymmetric_thresholds"] += d["profile"].get("min_quality", "10") != d["profile"].get("min_mapq", "10")
        stats["called"] += bool(plus["result"])
    outs = lib.driver_batch(reqs)
    fam = {k: {"cases": 0, "disagreements": []} for k in ("major_filter", "minor_filter")}
    distinct = set()
    samples = []
    for meta, o in zip(metas, outs):
        if meta[0] == "major":
            _, d, alleles, fcov = meta
            fam["major_filter"]["cases"] += 1
            if sorted(o["alleles"]) != alleles or views.cov_canon(o["cov"]) != views.cov_canon(views.cov_view(fcov)):
                fam["major_filter"]["disagreements"].append({"why": f"_filter_alleles keeps {alleles}, model keeps {sorted(o['alleles'])} (or filtered tables differ)", "input": d})
            distinct.add(lib.canon_hash(d))
        else:
            _, d, fcov, muts = meta
            fam["minor_filter"]["cases"] += 1
            if views.cov_canon(o["cov"]) != views.cov_canon(views.cov_view(fcov)):
                a, b = views.cov_canon(o["cov"])[0], views.cov_canon(views.cov_view(fcov))[0]
                k = [x for x in sorted(set(a) | set(b)) if a.get(x) != b.get(x)][:3]
                fam["minor_filter"]["disagreements"].append({"why": f"evidence handed to the minor model differs from the model's filter at {k}", "input": d})
            if {(m[0], m[1]) for m in o["considered"]} != {(m.pos, m.op) for m in muts}:
                fam["minor_filter"]["disagreements"].append({"why": "considered-variant set differs from the model", "input": d})
            if len(samples) < 2:
                samples.append({"table": d["table"][:3], "extras": d["extras"][:3], "profile": d["profile"]})
    firstv = {}
    for v in violations:
        firstv.setdefault(v["signature"], v)
    return {"families": fam, "violations": list(firstv.values()), "evaluations": 2 * len(descs), "distinct_nontrivial": len(distinct),
            "rule": "metamorphic pairs: planted evidence table with qualities at/above the thresholds vs the same table plus observations failing the mapping- or base-quality threshold (on existing variants and as low-only variants), thin variants (fewer qualifying observations than min_coverage at a shallow site); thresholds 1-30, often asymmetric; both through the real estimate_major and estimate_minor; distinct by hash",
            "samples": samples, "stats": dict(stats)}


def search(ctx, hints):
    res = tie({**ctx, "tier": "quick"})
    return {"violations": res["violations"], "cases_searched": res["evaluations"]}
