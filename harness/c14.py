"""C14 - genotyping is deterministic, isolated and leaves the database untouched.

Ties:
  world_unchanged : deep snapshots of the real Gene and Coverage objects before and after every
                    operation of random histories (stages, accessors, writers, query printing) equal
                    the initial snapshot and a fresh load - the Lean world model predicts identity
                    (`run_preserves_world`)
  accessor_shape / filter_shape : regenerated constants (copying accessor, per-structure filter)
Oracle (always on; the search):
  determinism - repeated / interleaved / multi-gene (incl. a failing gene) genotype() calls give
  identical results and files; fresh interpreters with PYTHONHASHSEED 0..k give identical files;
  sibling independence - refining a candidate alone, with others, in any order gives the same
  refinement and raw objective.
"""
import collections
import dataclasses
import enum
import io
import itertools
import json
import os
import shutil
import subprocess
import sys

import c04
import gen_gene
import instances
import lib
import sim

PID = "C14"
PROPS = ["Aldy.Props.C14"]
TRUSTED_EXTRA = ["the deep-snapshot canonicaliser of this check", "pysam and the read simulator"]
ASSUMPTIONS = ["process-level behaviour (hash seed, fresh interpreter) is runtime and covered only by the subprocess runs"]


def canon(x, depth=0):
    """canonical JSON-able form of aldy objects (sets sorted, dataclasses expanded)"""
    if depth > 12:
        return "..."
    if isinstance(x, enum.Enum):
        return x.name
    if isinstance(x, (str, int, float, bool)) or x is None:
        return x
    if isinstance(x, tuple) and hasattr(x, "_fields"):
        return [canon(v, depth + 1) for v in x]
    if isinstance(x, (list, tuple)):
        return [canon(v, depth + 1) for v in x]
    if isinstance(x, (set, frozenset)):
        return sorted((canon(v, depth + 1) for v in x), key=repr)
    if isinstance(x, dict):
        return sorted(([canon(k, depth + 1), canon(v, depth + 1)] for k, v in x.items()), key=lambda z: repr(z[0]))
    if dataclasses.is_dataclass(x) and type(x).__name__ != "Gene":
        return {f.name: canon(getattr(x, f.name), depth + 1) for f in dataclasses.fields(x) if f.name != "gene"}
    return str(type(x).__name__)


def _gene_state(g):
    return {k: v for k, v in g.__dict__.items() if k not in ("_yml", "yml_mutations")}


def _cov_state(c):
    # the sample's read-phase table is evidence too (the minor stage reads it through `coverage.sam.phases`)
    return {"_coverage": c._coverage, "_indels": c._indels, "_cnv": dict(c._cnv_coverage), "_region": c._region_coverage,
            "phases": dict(getattr(getattr(c, "sam", None), "phases", None) or {})}


def _digest(state):
    """cheap fingerprint: equal pickles imply equal state (the converse is decided by `canon`)"""
    import hashlib
    import pickle
    try:
        return hashlib.sha1(pickle.dumps(state, protocol=4)).hexdigest()
    except Exception:
        return None


class Snap:
    """snapshot of a mutable aldy object: a pickle digest for the fast path, the canonical form
    (sets sorted, dataclasses expanded) of the initial state for the slow, deciding path"""

    def __init__(self, state_fn, obj):
        self.state_fn, self.obj = state_fn, obj
        st = state_fn(obj)
        self.digest = _digest(st)
        self.parts = {k: lib.canon_hash(canon(v)) for k, v in st.items()}

    def changed(self):
        st = self.state_fn(self.obj)
        d = _digest(st)
        if d is not None and d == self.digest:
            return []
        parts = {k: lib.canon_hash(canon(v)) for k, v in st.items()}
        ch = [k for k in set(parts) | set(self.parts) if parts.get(k) != self.parts.get(k)]
        if ch:
            self.parts = parts
        self.digest = d
        return ch


def snap_gene(g):
    d = _gene_state(g)
    return lib.canon_hash(canon(d)), {k: lib.canon_hash(canon(v)) for k, v in d.items()}


def snap_cov(c):
    return lib.canon_hash(canon(_cov_state(c)))


def make_world(r, gd):
    from aldy.coverage import Coverage
    from aldy.solutions import CNSolution
    gene, gid = instances.load_gene(gd)
    import copy
    gene = copy.deepcopy(gene)  # histories act on a private copy; the cached one serves as the fresh load
    structure = instances.random_structure(r, gene, max_copies=3)
    cn_sol = CNSolution(gene, 0, structure)
    planted = instances.plant_alleles(r, gene, structure)
    table = instances.plant_table(r, gene, cn_sol, planted, with_minors=True, noise=True)
    prof = instances.make_profile({"gap": r.choice(["0", "0.1"])})
    t = collections.defaultdict(dict)
    for pos, op, quals in table:
        t[pos][op] = [(q[0], q[1]) for q in quals for _ in range(q[2])]
    sam = None
    if r.random() < 0.5 and planted:
        # read fragments over one to four neighbouring sites (single-site ones included), as the pileup records them
        sites = sorted({p for p, _ in gene.mutations})
        frs = {}
        for fi in range(r.randint(4, 14)):
            maj, mino = r.choice(planted)
            ms = sorted(set(gene.alleles[maj].func_muts) | set(gene.alleles[maj].minors[mino].neutral_muts))
            if not sites:
                break
            lo = r.randrange(len(sites))
            span = sites[lo:lo + r.randint(1, 4)]
            frs[f"f{fi}"] = {p: next((m.op for m in ms if m.pos == p), "_") for p in span}
        sam = c04.FakeSam(frs)
    cov = Coverage(gene, prof, sam, t, None, {})
    cov._region_coverage = {(gi, reg): float(cn_sol.region_cn[gi][reg]) for gi, g in enumerate(gene.regions) for reg in g}
    return gene, cov, cn_sol, prof


def ops_catalog():
    return ["estimate_major", "estimate_minor", "mutations_accessor", "reprs", "names", "write_decomposition", "write_vcf", "query",
            "cov_accessors", "gene_accessors", "mutation_coverages", "filter_configs"]


def apply_op(op, st, r):
    from aldy import major, minor, cn
    from aldy.coverage import Coverage
    from aldy.diplotype import write_decomposition, write_vcf
    from aldy.gene import Mutation
    gene, cov, cn_sol = st["gene"], st["cov"], st["cn_sol"]
    if op == "estimate_major":
        st["majors"] = major.estimate_major(gene, cov, cn_sol, "cbc")
    elif op == "estimate_minor":
        if st.get("majors"):
            st["minors"] = minor.estimate_minor(gene, cov, st["majors"], "cbc")
    elif op == "mutations_accessor":
        for s in st.get("minors", [])[:2]:
            for a in s.solution:
                a.mutations()
                a.mutations()
        for s in st.get("majors", [])[:2]:
            for a in s.solution:
                a.mutations()
    elif op == "reprs":
        for s in st.get("minors", []) + st.get("majors", []):
            str(s)
            s._solution_nice()
        for s in st.get("majors", []):
            hash(s)
        for s in st.get("minors", []):
            for a in s.solution:
                str(a)
                a.major_repr()
                hash(a)
    elif op == "names":
        for s in st.get("minors", []):
            s.get_major_diplotype()
            s.get_minor_diplotype()
            s.get_minor_diplotype(legacy=True)
            for i in range(len(s.solution)):
                s.get_major_name(i)
                s.get_minor_name(i)
    elif op == "write_decomposition":
        for i, s in enumerate(st.get("minors", [])):
            write_decomposition("S", gene, cov, i + 1, s, io.StringIO())
    elif op == "write_vcf":
        if st.get("minors"):
            write_vcf("S", gene, cov, st["minors"], io.StringIO())
    elif op == "query":
        from aldy.query import query
        import logbook
        with logbook.NullHandler().applicationbound():
            for q in ["", next(iter(gene.alleles)), "zz"]:
                try:
                    query(gene, q)
                except (Exception, SystemExit):
                    pass
    elif op == "cov_accessors":
        c2 = cov.filtered(Coverage.quality_filter)
        cov.dump(lambda *a: None)
        cov.average_coverage()
        for (p, o) in list(gene.mutations)[:6]:
            m = Mutation(p, o)
            cov.percentage(m), cov.total(m), cov[m], cov.single_copy(m, cn_sol), cov.basic_filter(m), cov.quality_filter(m)
            c2[m]
    elif op == "gene_accessors":
        for (p, o) in list(gene.mutations)[:8]:
            gene.get_functional((p, o)), gene.get_functional((p, "A>N")), gene.get_rsid((p, o)), gene.get_refseq((p, o)), gene.get_refseq(p, o, from_atg=True)
            gene.region_at(p), gene.has_coverage(next(iter(gene.alleles)), p), gene[p], gene[p - 2:p + 3], (p in gene)
            gene.is_functional((p, o), False)
            if not (o.startswith("del") and "ins" in o[3:]):   # the helper is documented not to support deletion-insertions
                gene._reverse_op(o)
        gene.deletion_allele(), gene.get_wide_region(), str(gene)
        for a in list(gene.alleles.values())[:5]:
            for mn in list(a.minors)[:3]:
                gene.get_allele(mn)
                list(a.get_minor_mutations(mn))
        for cfg in gene.cn_configs.values():
            str(cfg), cfg.vector
    elif op == "mutation_coverages":
        for s in st.get("minors", []):
            s.get_mutation_coverages(cov)
    elif op == "filter_configs":
        cn._filter_configs(gene, cov)


_FIRST_LOAD = {}


def history_check(r, gd):
    st = {}
    key = lib.canon_hash(gd)
    if key not in _FIRST_LOAD:
        _FIRST_LOAD[key] = snap_gene(instances.load_gene(gd)[0])[0]   # canonical form of the first load, before any history
    st["gene"], st["cov"], st["cn_sol"], st["prof"] = make_world(r, gd)
    gs = Snap(_gene_state, st["gene"])
    cs = Snap(_cov_state, st["cov"])
    ops = ["estimate_major", "estimate_minor"] + [r.choice(ops_catalog()) for _ in range(r.randint(2, 6))]
    r.shuffle(ops)
    bad = []
    for i, op in enumerate(ops):
        try:
            apply_op(op, st, r)
        except Exception as e:
            bad.append((op, f"raised {type(e).__name__}: {e}"))
            continue
        ch = gs.changed()
        if ch:
            bad.append((op, f"gene database changed in {sorted(ch)}"))
        if cs.changed():
            bad.append((op, "sample evidence changed"))
    return ops, bad


def fresh_load_check():
    """after all histories: loading each catalogue again gives the first load's content"""
    bad = []
    for key, first in _FIRST_LOAD.items():
        gd = next(g for k, (g) in _GD_BY_KEY.items() if k == key)
        instances._GENE_CACHE.pop(key, None)
        again = snap_gene(instances.load_gene(gd)[0])[0]
        if again != first:
            bad.append(gd)
    return bad


_GD_BY_KEY = {}


# ---------------------------------------------------------------------------------------------------
def sim_sample(r, d, k, name="GEN", offsets=(10000, 20000)):
    from aldy.common import GRange
    y = gen_gene.gen_gene(r, name=name, pseudogene=r.random() < 0.5, deletion=True, fusions=r.choice([0, 1]), offsets=offsets, allow_mnp=False)
    g = gen_gene.load(y, "hg19", name=name)
    yp = os.path.join(d, f"{name.lower()}{k}.yml")
    with open(yp, "w") as f:
        f.write(y)
    majors = [a for a, al in g.alleles.items() if al.cn_config == "1"]
    copies = []
    for _ in range(r.choice([2, 3])):
        a = r.choice(majors)
        copies.append((a, r.choice(list(g.alleles[a].minors))))
    return y, g, yp, copies


def canon_result(res):
    out = {}
    for gname, sols in res.items():
        out[os.path.basename(gname)] = [[round(s.score, 9), s.get_major_diplotype(), s.get_minor_diplotype(), sorted(s.major_solution.cn_solution.solution.items()),
                                          [[a.major, a.minor, sorted((m.pos, m.op) for m in a.added), sorted((m.pos, m.op) for m in a.missing)] for a in s.solution]] for s in sols]
    return out


RUNNER = r'''
import sys, json, os
sys.path.insert(0, sys.argv[1])
from aldy.genotype import genotype
from aldy.common import GRange, AldyException
args = json.loads(sys.argv[2])
out = open(args["out"], "w")
try:
    res = genotype(args["genes"], args["bam"], args["prof"], output_file=out, cn_region=GRange(*args["cnr"]), genome="hg19", gap=args["gap"])
    can = {os.path.basename(k): [[round(s.score, 9), s.get_major_diplotype(), s.get_minor_diplotype()] for s in v] for k, v in res.items()}
except AldyException as e:
    can = {"error": str(e)[:80]}
out.close()
print(json.dumps(can, sort_keys=True))
'''

RUNNER_SEQ = r'''
import sys, json, os, io
sys.path.insert(0, sys.argv[1])
from aldy.genotype import genotype
from aldy.common import GRange, AldyException
calls = json.loads(sys.argv[2])
outs = []
for a in calls:
    f = io.StringIO()
    f.name = a.get("out_name", "x.aldy")
    kw = dict(a.get("params", {}))
    try:
        res = genotype(a["genes"], a["bam"], a["prof"], output_file=f, cn_region=GRange(*a["cnr"]) if a.get("cnr") else None, genome=a.get("genome", "hg19"),
                       cn_solution=a.get("cn"), multiple_warn_level=a.get("warn", 1), **kw)
        can = {os.path.basename(k): [[round(s.score, 9), s.get_major_diplotype(), s.get_minor_diplotype(), sorted(s.major_solution.cn_solution.solution.items())] for s in v] for k, v in res.items()}
    except AldyException as e:
        can = {"error": str(e)[:80]}
    except Exception as e:
        can = {"crash": type(e).__name__ + ": " + str(e)[:80]}
    outs.append([can, f.getvalue()])
print(json.dumps(outs, sort_keys=True))
'''


def run_seq(calls):
    env = dict(os.environ, PYTHONWARNINGS="ignore")
    p = subprocess.run([sys.executable, "-c", RUNNER_SEQ, lib.REPO, json.dumps(calls)], stdout=subprocess.PIPE, stderr=subprocess.PIPE, text=True, env=env, timeout=3000)
    lines = p.stdout.strip().split("\n")
    try:
        return json.loads(lines[-1])
    except Exception:
        raise lib.ToolTrouble(f"isolation runner produced no result: {p.stderr[-300:]}")


def isolation_configs(r, d, k):
    """one sample, many ways of asking: every way is a separate `genotype()` call"""
    from aldy.common import GRange
    ya, ga, ypa, copa = sim_sample(r, d, k, "GEN", (10000, 20000))
    # make the sample structurally interesting: three copies, so that 'no copy-number calling' is visibly different
    while len(copa) < 3:
        copa.append(copa[0])
    cnr = GRange("20", 60000, 60400)
    pb = os.path.join(d, f"iprof{k}.bam")
    sb = os.path.join(d, f"ismp{k}.bam")
    sim.write_bam(pb, sim.simulate_reads(ga, [("1", "1.001")] * 2, depth=12, name_prefix="pa") + sim.neutral_reads(cnr, 24), length=200000)
    sim.write_bam(sb, sim.simulate_reads(ga, copa, depth=12, name_prefix="sa") + sim.neutral_reads(cnr, 24), length=200000)
    base = {"genes": ypa, "bam": sb, "prof": pb, "cnr": ["20", 60000, 60400]}
    cfgs = [
        dict(base),
        dict(base, prof="exome"),
        dict(base, prof="wxs"),
        dict(base, prof="wgs"),
        dict(base, cn=["1", "1"]),
        dict(base, params={"gap": "0.3", "max_minor_solutions": "3"}),
        dict(base, params={"threshold": "0.7", "min_coverage": "3"}),
        dict(base, out_name="x.simple"),
        dict(base, out_name="x.vcf"),
        dict(base, genome="hg38"),
        dict(base, prof="pgx2"),
        dict(base, params={"male": "True"}),
    ]
    return cfgs


def isolation_check(r, d, k, n_seq):
    """a call's result depends on its own arguments only: every configuration alone in a fresh
    interpreter vs the same configuration inside random call sequences in one interpreter"""
    cfgs = isolation_configs(r, d, k)
    alone = [run_seq([c])[0] for c in cfgs[:1]] + [None] * (len(cfgs) - 1)
    # the remaining baselines in one go each (fresh interpreter per configuration)
    for i in range(1, len(cfgs)):
        alone[i] = run_seq([cfgs[i]])[0]
    why = []
    nontrivial = sum(1 for a in alone if "error" not in a[0] and "crash" not in a[0])
    for _ in range(n_seq):
        idx = [r.randrange(len(cfgs)) for _ in range(r.randint(4, 7))]
        if 0 not in idx:
            idx.append(0)
        outs = run_seq([cfgs[i] for i in idx])
        for pos, (i, o) in enumerate(zip(idx, outs)):
            if o != alone[i]:
                c = {kk: v for kk, v in cfgs[i].items() if kk not in ("genes", "bam", "cnr")}
                prev = [{kk: v for kk, v in cfgs[j].items() if kk not in ("genes", "bam", "cnr")} for j in idx[:pos]]
                why.append(f"call {c} gives {str(o[0])[:160]} after calls {prev}, but {str(alone[i][0])[:160]} on its own")
                break
    return why, nontrivial


def stage_repeat_check(r):
    """a stage solved again on the same inputs - after other models were built in the process - gives the same
    solutions with the same scores (the copy-number model of CYP2D6 weights one of its rows by variable name)"""
    import c03
    from aldy import cn
    why = []
    gds = [{"kind": "shipped", "name": "cyp2d6", "genome": "hg19"}, {"kind": "toy", "genome": "hg19"}]
    descs = [c03.gen_cn_instance(r, gd) for gd in gds for _ in range(2)]
    from fractions import Fraction
    for d_ in descs:
        # the row weighted by variable name (CYP2D7's `pce` region) gets a residual that no structure explains
        if "pce" in d_["depth"]:
            d_["depth"]["pce"] = [d_["depth"]["pce"][0], str(Fraction(d_["depth"]["pce"][1]) + Fraction(7, 5))]

    def solve(desc):
        gene, gid, prof, configs, region_cov, fs = c03.build_inst(desc)
        res = cn.solve_cn_model(gene, prof, configs, desc["max_cn"], region_cov, "cbc", None, fs)
        return sorted((sorted(s.solution.items()), round(s.score, 9)) for s in res)

    first = [solve(d_) for d_ in descs]
    # ... and the same as in an interpreter that has built no other model before
    import pickle
    import subprocess
    code = ("import sys, pickle, json; sys.path.insert(0, sys.argv[1]); sys.path.insert(0, sys.argv[2]); import c03; from aldy import cn\n"
            "desc = pickle.load(sys.stdin.buffer)\n"
            "gene, gid, prof, configs, region_cov, fs = c03.build_inst(desc)\n"
            "res = cn.solve_cn_model(gene, prof, configs, desc['max_cn'], region_cov, 'cbc', None, fs)\n"
            "print('RESULT ' + json.dumps(sorted((sorted(s.solution.items()), round(s.score, 9)) for s in res)))\n")
    for i_, d_ in enumerate(descs[:2]):
        p_ = subprocess.run([sys.executable, "-c", code, lib.REPO, os.path.dirname(os.path.abspath(__file__))], input=pickle.dumps(d_), stdout=subprocess.PIPE, stderr=subprocess.PIPE,
                            env=dict(os.environ, PYTHONWARNINGS="ignore"), timeout=600)
        line = [l for l in p_.stdout.decode().splitlines() if l.startswith("RESULT ")]
        if not line:
            raise lib.ToolTrouble("fresh-interpreter copy-number run failed: " + p_.stderr.decode()[-300:])
        fresh = json.loads(line[0][7:])
        mine = json.loads(json.dumps(first[i_]))
        if fresh != mine:
            why.append(f"the copy-number model of {d_['gene'].get('name', 'toy')} solved in this process (after other models were built) gives {str(mine)[:160]}, "
                       f"a fresh interpreter gives {str(fresh)[:160]}")
            return why
    order = list(range(len(descs))) * 2
    r.shuffle(order)
    for i in order:
        again = solve(descs[i])
        if again != first[i]:
            why.append(f"the copy-number model of {descs[i]['gene'].get('name', 'toy')} solved again in the same process gives {str(again)[:160]}, the first time {str(first[i])[:160]}")
            break
    return why


def profile_history_check(r):
    """loading a shipped profile answers the same whatever was loaded before (custom neutral region, other gene,
    parameters): the shipped YAML is data, not state"""
    from aldy.common import GRange
    from aldy.profile import Profile
    why = []
    gname = r.choice(["cyp2d6", "cyp2c19", "tpmt"])
    gene, _ = instances.load_gene({"kind": "shipped", "name": gname, "genome": "hg19"})

    def view(p):
        return canon({"neutral_value": p.neutral_value, "cn_region": [p.cn_region.chr, p.cn_region.start, p.cn_region.end] if p.cn_region else None,
                      "params": {k_: v for k_, v in p.__dict__.items() if k_ not in ("data", "cn_region")},
                      "data": lib.canon_hash(canon(p.data.get(gene.name)))})

    first = view(Profile.load(gene, "illumina"))
    L = r.choice([300, 500, 1234])
    ops = [("custom", L), ("default", None), ("params", None), ("custom", L + 7), ("default", None)]
    r.shuffle(ops)
    ops.append(("default", None))
    hist = []
    for kind, val in ops:
        if kind == "custom":
            p = Profile.load(gene, "illumina", GRange("22", 42547463, 42547463 + val))
            if p.neutral_value != val:
                why.append(f"profile loaded with a custom neutral region of length {val} after {hist} has neutral value {p.neutral_value}")
        elif kind == "params":
            Profile.load(gene, "illumina", None, gap=0.2, min_coverage=7)
        else:
            v = view(Profile.load(gene, "illumina"))
            if v != first:
                diff = [k_ for k_ in first if first[k_] != v.get(k_)] if isinstance(first, dict) else ["?"]
                why.append(f"the shipped illumina profile loaded after {hist} differs from its first load in {diff}")
        hist.append(kind if val is None else f"{kind}:{val}")
    return why


def determinism_check(r, d, k, n_seeds):
    from aldy.common import GRange, AldyException
    from aldy.genotype import genotype
    why = []
    ya, ga, ypa, copa = sim_sample(r, d, k, "GEN", (10000, 20000))
    yb, gb, ypb, copb = sim_sample(r, d, k, "GENB", (30000, 40000))
    yc, gc, ypc, _ = sim_sample(r, d, k, "GENC", (45000, 52000))   # no reads for this one: fails
    cnr = GRange("20", 60000, 60400)
    L = 200000
    pb = os.path.join(d, f"prof{k}.bam")
    sb = os.path.join(d, f"smp{k}.bam")
    sim.write_bam(pb, sim.simulate_reads(ga, [("1", "1.001")] * 2, depth=12, name_prefix="pa") + sim.simulate_reads(gb, [("1", "1.001")] * 2, depth=12, name_prefix="pb")
                  + sim.simulate_reads(gc, [("1", "1.001")] * 2, depth=12, name_prefix="pc") + sim.neutral_reads(cnr, 24), length=L)
    sim.write_bam(sb, sim.simulate_reads(ga, copa, depth=[12, 12, 7][:len(copa)], name_prefix="sa") + sim.simulate_reads(gb, copb, depth=12, name_prefix="sb") + sim.neutral_reads(cnr, 24), length=L)
    gap = r.choice(["0", "0.1", "0.3"])

    def run(genes, tag):
        o = os.path.join(d, f"out{k}_{tag}.aldy")
        with open(o, "w") as f:
            try:
                res = genotype(genes, sb, pb, output_file=f, cn_region=cnr, genome="hg19", gap=gap)
            except AldyException as e:
                res = {"error": str(e)[:60]}
        return canon_result(res) if "error" not in res else res, open(o).read()

    a1, fa1 = run(ypa, "a1")
    b1, fb1 = run(ypb, "b1")
    a2, fa2 = run(ypa, "a2")                      # repeated, after another gene
    if (a1, fa1) != (a2, fa2):
        why.append(f"repeating genotype() for the same input gives different results: {str(a1)[:120]} vs {str(a2)[:120]}")
    multi, fm = run(",".join([ypa, ypc, ypb]), "multi")   # multi-gene run with a failing gene in the middle
    if not isinstance(multi, dict) or "error" in multi:
        why.append(f"multi-gene run failed as a whole: {multi}")
    else:
        for key, single in list(a1.items()) + list(b1.items()):
            if multi.get(key) != single:
                why.append(f"gene {key}: result in a multi-gene run (with a failing gene) differs from the single-gene run")
        if fm != fa1 + fb1:
            why.append("output file of the multi-gene run is not the concatenation of the single-gene outputs")
    # fresh interpreters with different hash seeds
    outs = []
    for seed in range(n_seeds):
        o = os.path.join(d, f"out{k}_hs{seed}.aldy")
        env = dict(os.environ, PYTHONHASHSEED=str(seed), PYTHONWARNINGS="ignore")
        p = subprocess.run([sys.executable, "-c", RUNNER, lib.REPO, json.dumps({"genes": ypa, "bam": sb, "prof": pb, "cnr": ["20", 60000, 60400], "gap": gap, "out": o})],
                           stdout=subprocess.PIPE, stderr=subprocess.PIPE, text=True, env=env, timeout=600)
        outs.append((p.stdout.strip().split("\n")[-1] if p.stdout.strip() else p.stderr[-200:], open(o).read() if os.path.exists(o) else None))
    if len(set(outs)) > 1:
        why.append(f"results differ between interpreters with different hash seeds: {sorted(set(x[0] for x in outs))[:2]}")
    elif outs and outs[0][1] != fa1:
        why.append("output file of a fresh interpreter differs from the in-process run")
    return why


def argument_check(r):
    """stage functions must not change the containers they are handed (the considered-variant set of one minor-stage call is
    shared by every candidate of the call). Directed instance on the toy database: candidate A = two complete copies with a
    novel function-altering variant upstream of intron 2; candidate B = the left fusion next to the deletion, whose structure
    has no gene copy of that region at all"""
    import copy as _copy
    from aldy import minor
    from aldy.gene import Gene, Mutation
    from aldy.profile import Profile
    from aldy.coverage import Coverage
    from aldy.solutions import CNSolution, SolvedAllele, MajorSolution
    gene = Gene(os.path.join(lib.REPO, "aldy/tests/resources/toy.yml"), genome=r.choice(["hg19", "hg38"]))
    why = []
    fus = [c for c, cf in gene.cn_configs.items() if str(cf.kind).split(".")[-1] == "LEFT_FUSION"]
    if not fus or "1" not in gene.alleles:
        return why, 0
    cnB = CNSolution(gene, 0, [fus[0]])
    partial = [a for a, al in gene.alleles.items() if al.cn_config == fus[0]]
    carried1 = set(gene.alleles["1"].func_muts) | {m for mi in gene.alleles["1"].minors.values() for m in mi.neutral_muts}
    cand = [Mutation(*m) for m in gene.mutations if gene.is_functional(m) and cnB.position_cn(m[0]) == 0 and Mutation(*m) not in carried1 and ">" in m[1]]
    if not cand or not partial:
        return why, 0
    novel = r.choice(cand)
    table = {novel.pos: {"_": [(60, 60)] * 10, novel.op: [(60, 60)] * 10}}
    for m in gene.mutations:
        table.setdefault(m[0], {"_": [(60, 60)] * 20})
    cov = Coverage(gene, Profile("demo"), None, table, None, {})
    A = MajorSolution(0, collections.Counter({SolvedAllele(gene, "1"): 2}), CNSolution(gene, 0, ["1", "1"]), [novel])
    B = MajorSolution(0, collections.Counter({SolvedAllele(gene, partial[0]): 1}), cnB, [])
    orig = minor.solve_minor_model
    n_calls = [0]

    def guarded(gene_, coverage_, major_sol, alleles_list, mutations, solver, max_solutions=1):
        before = (_copy.copy(alleles_list), _copy.copy(mutations))
        out = orig(gene_, coverage_, major_sol, alleles_list, mutations, solver, max_solutions)
        n_calls[0] += 1
        if list(before[0]) != list(alleles_list):
            why.append(f"ARGS solve_minor_model changed its argument alleles_list in place while refining {major_sol._solution_nice()}")
        if set(before[1]) != set(mutations):
            why.append(f"ARGS solve_minor_model changed the considered-variant set it was handed in place while refining {major_sol._solution_nice()} "
                       f"[{major_sol.cn_solution._solution_nice()}]: {sorted(str(m) for m in set(before[1]) ^ set(mutations))} - the set is shared by every candidate of the call")
        return out

    # a structure list given by the caller belongs to the caller (one list serves every gene of a multi-gene run)
    from aldy import cn as cnmod
    from aldy.common import AldyException
    not_cfg = [a for a in gene.alleles if a not in gene.cn_configs][:1] + [mi for a in gene.alleles.values() for mi in a.minors if mi not in gene.cn_configs][:1]
    for user in [["1", "1"]] + [["1", x] for x in not_cfg]:
        lst = list(user)
        try:
            cnmod.estimate_cn(gene, Profile("user", cn_solution=lst), cov, "cbc")
        except AldyException:
            pass
        n_calls[0] += 1
        if lst != user:
            why.append(f"ARGS estimate_cn rewrote the structure list it was handed in place: {user} -> {lst} (the same list object is handed to every gene of a multi-gene run)")
    minor.solve_minor_model = guarded
    try:
        for lst in ([A, B], [B, A]):
            minor.estimate_minor(gene, cov, lst, "cbc")
    except Exception as e:
        why.append(f"estimate_minor raised {type(e).__name__}: {e}")
    finally:
        minor.solve_minor_model = orig
    return why, n_calls[0]


def sibling_check(r, gd):
    """refine candidates alone / together / permuted"""
    from aldy import major, minor
    why = []
    gene, cov, cn_sol, prof = make_world(r, gd)
    prof.gap = 0.5
    from aldy.solutions import CNSolution
    # a structure with the same number of copies but another layout, and a variant whose support lies between the two
    # structures' thresholds of the evidence filter (fraction between 0.5/(cn+0.5) for the two copy numbers of its region)
    others0 = [c for c, cf in gene.cn_configs.items() if c != "1" and c != gene.deletion_allele() and str(cf.kind).split(".")[-1] != "DELETION"]
    base0 = list(cn_sol.solution.elements())
    st3 = None
    if others0 and "1" in base0 and r.random() < 0.7:
        st3 = list(base0)
        st3[st3.index("1")] = r.choice(others0)
        cn3_ = CNSolution(gene, 0, st3)
        cand_m = [m for m in gene.mutations if cn_sol.position_cn(m[0]) != cn3_.position_cn(m[0]) and min(cn_sol.position_cn(m[0]), cn3_.position_cn(m[0])) > 0
                  and m[1][:3] != "ins"]
        if cand_m:
            mp, mo = r.choice(cand_m)
            if len(cov._coverage.setdefault(mp, {}).get("_", [])) < 10:
                cov._coverage[mp]["_"] = [(60, 60)] * 30
            lo_cn, hi_cn = sorted([cn_sol.position_cn(mp), cn3_.position_cn(mp)])
            f_lo, f_hi = 0.5 / (hi_cn + 0.5), 0.5 / (lo_cn + 0.5)
            f = (f_lo + f_hi) / 2
            others_n = sum(len(v) for o, v in cov._coverage[mp].items() if o != mo and o[:3] != "ins")
            k = round(f * others_n / (1 - f))
            if k >= 1 and f_lo + 0.01 < k / (others_n + k) < f_hi - 0.01:
                cov._coverage[mp][mo] = [(60, 60)] * k
    cands = major.estimate_major(gene, cov, cn_sol, "cbc")
    # a second structure with one more / one fewer default copy
    alt_struct = list(cn_sol.solution.elements()) + ["1"]
    cn2 = CNSolution(gene, 0, alt_struct)
    cands2 = major.estimate_major(gene, cov, cn2, "cbc")
    pool = (cands[:2] + cands2[:2]) if r.random() < 0.7 else cands[:3]
    # a structure with the same number of copies but another layout (one default copy replaced by a fused / partial
    # configuration): same total copy number, different copy number per region
    if st3:
        try:
            cands3 = major.estimate_major(gene, cov, CNSolution(gene, 0, st3), "cbc")
        except Exception:
            cands3 = []
        if cands3:
            pool = cands[:2] + cands3[:2]
    if len(pool) < 2:
        return why, 0

    def refine(lst):
        res = minor.estimate_minor(gene, cov, lst, "cbc")
        mn = min(m.score for m in lst)
        out = {}
        for s in res:
            key = id(s.major_solution)
            raw = s.score - (s.major_solution.score - mn)
            out.setdefault(key, []).append((round(raw, 6), tuple(sorted((a.major, a.minor, tuple(sorted((m.pos, m.op) for m in a.added)), tuple(sorted((m.pos, m.op) for m in a.missing))) for a in s.solution))))
        return out

    alone = {}
    for c in pool:
        alone.update(refine([c]))
    first = None
    togethers = []
    for perm in itertools.permutations(pool):
        together = refine(list(perm))
        togethers.append((perm, together))
        # the same candidates in another order: the pooled variant set is the same, so must be every refinement
        if first is None:
            first = (perm, together)
        else:
            for c in pool:
                if together.get(id(c)) != first[1].get(id(c)):
                    why.append(f"ORDER refinement of candidate {c._solution_nice()} [{c.cn_solution._solution_nice()}] is {first[1].get(id(c))} when the candidates are given as "
                               f"{[x._solution_nice() + ' [' + x.cn_solution._solution_nice() + ']' for x in first[0]]} but {together.get(id(c))} for the order {[x._solution_nice() + ' [' + x.cn_solution._solution_nice() + ']' for x in perm]}")
                    return why, len(pool)
    for perm, together in togethers:
        for c in pool:
            if together.get(id(c)) != alone.get(id(c)):
                why.append(f"refinement of candidate {c._solution_nice()} [{c.cn_solution._solution_nice()}] alone is {alone.get(id(c))} but {together.get(id(c))} when refined with {[x._solution_nice() + ' [' + x.cn_solution._solution_nice() + ']' for x in perm if x is not c]}")
                return why, len(pool)
    return why, len(pool)


def tie(ctx):
    r = lib.rng("c14")
    quick = ctx["tier"] == "quick"
    pool = c04.gene_pool(r, True)
    fam = {"world_unchanged": {"cases": 0, "disagreements": []}}
    violations = []
    stats = collections.Counter()
    samples = []
    distinct = set()
    for i in range(100 if quick else 1500):
        gd = pool[i % len(pool)]
        _GD_BY_KEY[lib.canon_hash(gd)] = gd
        ops, bad = history_check(r, gd)
        fam["world_unchanged"]["cases"] += 1
        stats["ops"] += len(ops)
        for o in ops:
            stats["op_" + o] += 1
        distinct.add(lib.canon_hash([gd, ops, i]))
        if bad:
            fam["world_unchanged"]["disagreements"].append({"why": f"after operation {bad[0][0]}: {bad[0][1]}", "input": {"gene": gd, "ops": ops}})
            violations.append({"why": f"operation {bad[0][0]}: {bad[0][1]} (history {ops})", "input": {"gene": gd, "ops": ops}, "signature": "c14:world_changed:" + bad[0][0]})
        if len(samples) < 2:
            samples.append({"gene": gd.get("name", gd["kind"]), "history": ops})
    for gd in fresh_load_check():
        violations.append({"why": "loading the catalogue again after the histories gives a different catalogue than the first load", "input": {"gene": gd}, "signature": "c14:reload_differs"})
    stats["catalogues_reloaded"] = len(_FIRST_LOAD)
    for i in range(40 if quick else 500):
        gd = pool[i % len(pool)]
        try:
            why, n = sibling_check(r, gd)
        except Exception as e:
            why, n = [f"estimate_minor raised {type(e).__name__}: {e}"], 0
        stats["sibling_cases"] += n > 0
        if why:
            violations.append({"why": why[0], "input": {"gene": gd, "index": i},
                               "signature": "c14:candidate_order_dependence" if why[0].startswith("ORDER") else "c14:sibling_dependence"})
    for k in range(2 if quick else 6):
        try:
            why, n = argument_check(r)
        except Exception as e:
            why, n = [f"argument check raised {type(e).__name__}: {e}"], 0
        stats["argument_checks"] += 1
        stats["argument_check_stage_calls"] += n
        if why:
            violations.append({"why": why[0], "input": {"index": k, "kind": "stage_arguments"}, "signature": "c14:stage_changes_its_arguments"})
    d = sim.scratch_dir()
    try:
        for k in range(3 if quick else 25):
            why = determinism_check(r, d, k, 4 if quick else 8)
            stats["determinism_cases"] += 1
            for w in why:
                violations.append({"why": w, "input": {"index": k}, "signature": "c14:" + " ".join(w.split(" ")[:4])})
        for k in range(1 if quick else 6):
            stats["stage_repeats"] += 1
            for w in stage_repeat_check(r):
                violations.append({"why": w, "input": {"index": k, "kind": "stage_repeat"}, "signature": "c14:stage_repeat_differs"})
        for k in range(2 if quick else 10):
            stats["profile_histories"] += 1
            for w in profile_history_check(r):
                violations.append({"why": w, "input": {"index": k, "kind": "profile_history"}, "signature": "c14:profile_load_history"})
        for k in range(2 if quick else 12):
            why, nt = isolation_check(r, d, k, 2 if quick else 4)
            stats["isolation_cases"] += 1
            stats["isolation_successful_configs"] += nt
            for w in why:
                violations.append({"why": w, "input": {"index": k, "kind": "isolation"}, "signature": "c14:call_isolation"})
    finally:
        shutil.rmtree(d, ignore_errors=True)
    firstv = {}
    for v in violations:
        firstv.setdefault(v["signature"], v)
    return {"families": fam, "violations": list(firstv.values()), "evaluations": fam["world_unchanged"]["cases"] + stats["sibling_cases"] + stats["determinism_cases"] + stats["isolation_cases"],
            "distinct_nontrivial": len(distinct),
            "rule": "random histories of 4-8 operations (stages, accessors, writers, query printing, coverage and gene accessors) with deep snapshots after every step; candidate sets incl. structures of equal copy number but different layout with a variant between their filter thresholds, compared alone / together / in every order; candidate sets of 2-4 major solutions over one or two structures refined alone / together / in every order; simulated two-gene samples genotyped repeatedly, interleaved, in a multi-gene run with a failing gene, and in fresh interpreters with PYTHONHASHSEED 0..3 (thorough 0..7); one three-copy sample asked for in 12 ways (profile BAM / exome / wxs / wgs / shipped profile name / user structure / parameters / output kinds / other build), each alone in a fresh interpreter vs inside random call sequences in one interpreter; distinct by hash of (gene, history)",
            "samples": samples, "stats": dict(stats)}


def search(ctx, hints):
    res = tie({**ctx, "tier": "quick"})
    return {"violations": res["violations"], "cases_searched": res["evaluations"]}
