"""C04 - minor-allele refinement preserves the major call and is optimal.

Ties (every `solve_minor_model` call made by the real `estimate_minor` is intercepted from outside):
  minor_structure : model captured at the first solve (MPSolver API) == Lean `MinorInst.build`
                    (selectors, products, coverage rows, rules 1-6, phase block, objective incl. the
                    construction-order tie-breaker and the novel-core penalty)
  minor_readout   : returned alleles (added / lost lists incl. the homozygous post-processing)
                    == Lean `readOut` of the binaries the solver set
Oracle (always on; the search): the property's clauses on every returned solution, the score
recomputed from the documented objective, and optimality by exhaustive enumeration on small instances.
"""
import collections
import itertools
from fractions import Fraction

import instances
import lib
import lp
import views
from c03 import Recorder

PID = "C04"
PROPS = ["Aldy.Props.C04", "Aldy.Props.C04Score", "Aldy.Props.C04Tight", "Aldy.Props.C04Spec", "Aldy.Props.C04Decision"]
TRUSTED_EXTRA = ["GeneView serialiser", "iteration order of the considered-variant set is transmitted from the implementation (tie-breaker coefficients depend on it)"]
ASSUMPTIONS = ["evidence tables avoid exact float boundaries of the threshold filter"]
TOL = 1e-6


class FakeSam:
    def __init__(self, phases):
        self.phases = phases
        self._fusion_counter = {}
        self.name = "sim"


def minor_instance(r, gdesc, with_phase=None):
    gene, gid = instances.load_gene(gdesc)
    from aldy.solutions import CNSolution
    structure = instances.random_structure(r, gene, max_copies=3)
    cn_sol = CNSolution(gene, 0, structure)
    planted = instances.plant_alleles(r, gene, structure)
    table = instances.plant_table(r, gene, cn_sol, planted, with_minors=True, noise=r.random() < 0.7)
    # a function-altering variant that no planted allele carries, on (nearly) all copies: the major stage hands it over
    # as a novel core variant and the refinement has to put it on two or more copies
    if r.random() < 0.25 and len(structure) >= 2:
        have = {m.pos for mj, mi in planted for m in list(gene.alleles[mj].func_muts) + list(gene.alleles[mj].minors[mi].neutral_muts)}
        cand = [m for m in gene.mutations if gene.is_functional(m) and m[0] not in have and m[1][:3] not in ("ins", "del") and len(m[1]) == 3
                and cn_sol.position_cn(m[0]) >= 2]
        refs = {t[0]: t for t in table if t[1] == "_"}
        cand = [m for m in cand if m[0] in refs and not any(t[0] == m[0] and t[1] != "_" for t in table)]
        if cand:
            m = r.choice(cand)
            t = refs[m[0]]
            n = sum(q[2] for q in t[2])
            keep = 0 if r.random() < 0.6 else max(1, n // 10)
            table.remove(t)
            table.append([m[0], m[1], [[60, 40, n - keep]]])
            if keep:
                table.append([m[0], "_", [[60, 40, keep]]])
    pdesc = {}
    if r.random() < 0.3:
        pdesc["minor_add"] = r.choice(["1", "0.5", "2"])
    if r.random() < 0.3:
        pdesc["minor_miss"] = r.choice(["1.5", "1", "3"])
    if r.random() < 0.2:
        pdesc["threshold"] = r.choice(["0.3", "0.5"])
    phase = r.random() < 0.35 if with_phase is None else with_phase
    frags = None
    if phase:
        frags = []
        for k in range(r.randint(3, 12)):
            maj, mino = r.choice(planted) if planted else (None, None)
            if maj is None:
                break
            ms = sorted(set(gene.alleles[maj].func_muts) | set(gene.alleles[maj].minors[mino].neutral_muts))
            sites = sorted({p for p, _ in gene.mutations})
            if len(sites) < 2:
                break
            lo = r.randrange(len(sites))
            span = sites[lo:lo + r.randint(2, 4)]
            frag = {}
            for p in span:
                carried = [m for m in ms if m.pos == p]
                frag[p] = carried[0].op if carried and r.random() < 0.9 else "_"
            frags.append(frag)
    # realignment read counts for the catalogued indels, as a BAM sample brings them: [reads without, reads with] per indel,
    # whose total is not the pile-up depth of the site (the per-copy depth of such a variant is taken from these counts)
    indel_table = None
    indels = [(p, o) for (p, o) in gene.mutations if o[:3] in ("ins", "del")]
    if indels and r.random() < 0.35:
        tab = {(p, o): sum(x[2] for x in q) for p, o, q in table}
        indel_table = [[p, o, r.choice([5, 10, 20, 30]), tab.get((p, o), 0) if r.random() < 0.85 else 0] for (p, o) in indels]
    desc = {"gene": instances.gene_short(gdesc), "structure": structure, "planted": planted, "table": table, "profile": pdesc,
            "fragments": [[[p, o] for p, o in f.items()] for f in frags] if frags is not None else None,
            "max_solutions": r.choice([1, 1, 1, 2]), "indel_table": indel_table}
    return desc


def crosswise_instance(r, gdesc):
    """two copies of ONE catalogued minor allele that differ crosswise: copy one gained a silent variant v1, copy two a
    different silent variant v2 - at one multi-allelic site (the two alternatives cannot sit on one copy), or at two sites
    with read-phase evidence that shows them in trans. The planted assignment is admissible: fit error 0, two additions"""
    gene, gid = instances.load_gene(gdesc)
    from aldy.gene import CNConfigType, Mutation
    if "1" not in gene.cn_configs or gene.cn_configs["1"].kind != CNConfigType.DEFAULT:
        return None
    majors = [a for a, al in gene.alleles.items() if al.cn_config == "1" and al.minors]
    r.shuffle(majors)
    silent = [m for m in gene.mutations if not gene.is_functional(m) and ">" in m[1] and len(m[1]) == 3]
    for maj in majors:
        for mino in sorted(gene.alleles[maj].minors, key=lambda mi: (-len(gene.alleles[maj].minors[mi].neutral_muts), mi)):
            d_ = set(gene.alleles[maj].func_muts) | set(gene.alleles[maj].minors[mino].neutral_muts)
            taken = {m.pos for m in d_}
            # candidates must be considered variants: silent variants of the other minor alleles of this major allele
            sib = {m for mi2, mo in gene.alleles[maj].minors.items() if mi2 != mino for m in mo.neutral_muts}
            free = [m for m in silent if m[0] not in taken and gene.has_coverage(maj, m[0]) and Mutation(*m[:2]) in sib]
            bypos = collections.defaultdict(list)
            for m in free:
                bypos[m[0]].append(m)
            multi = [v for v in bypos.values() if len(v) >= 2]
            same_site = bool(multi) and r.random() < 0.6
            if same_site:
                v1, v2 = r.sample(r.choice(multi), 2)
            elif len(bypos) >= 2:
                p1, p2 = r.sample(sorted(bypos), 2)
                v1, v2 = r.choice(bypos[p1]), r.choice(bypos[p2])
            else:
                continue
            depth = r.choice([10, 20, 30])
            table = {}
            for m in d_:
                table[(m.pos, m.op)] = 2 * depth
            for v in (v1, v2):
                table[(v[0], v[1])] = depth
            sites = {p for p, _ in table} | {m[0] for m in r.sample(list(gene.mutations), min(3, len(gene.mutations)))}
            sites |= {m.pos for mo in gene.alleles[maj].minors.values() for m in mo.neutral_muts} | {m.pos for m in gene.alleles[maj].func_muts}
            for pos in sites:
                used = sum(c for (p_, o), c in table.items() if p_ == pos and o[:3] != "ins")
                if 2 * depth - used > 0:
                    table[(pos, "_")] = 2 * depth - used
            frags = None
            if not same_site or r.random() < 0.3:
                frags = []
                if not same_site:
                    for _ in range(r.randint(3, 6)):
                        frags.append({v1[0]: v1[1], v2[0]: "_"})
                        frags.append({v1[0]: "_", v2[0]: v2[1]})
                else:
                    other = sorted(m.pos for m in d_)
                    for _ in range(r.randint(2, 4)):
                        if other:
                            o = [m for m in d_ if m.pos == other[0]][0]
                            frags.append({v1[0]: v1[1], o.pos: o.op})
                            frags.append({v2[0]: v2[1], o.pos: o.op})
            return {"gene": instances.gene_short(gdesc), "structure": ["1", "1"], "planted": [[maj, mino], [maj, mino]],
                    "table": [[p_, o, [[60, 40, c]]] for (p_, o), c in sorted(table.items())], "profile": {},
                    "fragments": [[[p_, o] for p_, o in f.items()] for f in frags] if frags is not None else None,
                    "max_solutions": 1, "crosswise": [list(v1[:2]), list(v2[:2])]}
    return None


def build(desc):
    from aldy.coverage import Coverage
    from aldy.solutions import CNSolution
    gene, gid = instances.load_gene(desc["gene"])
    prof = instances.make_profile(desc["profile"])
    cn_sol = CNSolution(gene, 0, list(desc["structure"]))
    table = collections.defaultdict(dict)
    for pos, op, quals in desc["table"]:
        table[pos][op] = [(q[0], q[1]) for q in quals for _ in range(q[2] if len(q) > 2 else 1)]
    sam = None
    if desc.get("fragments") is not None:
        sam = FakeSam({f"f{i}": {p: o for p, o in fr} for i, fr in enumerate(desc["fragments"])})
    indel = {(p, o): (n, y) for p, o, n, y in desc["indel_table"]} if desc.get("indel_table") else None
    cov = Coverage(gene, prof, sam, table, indel, {})
    return gene, gid, prof, cn_sol, cov


def run_real(desc):
    from aldy import major, minor
    gene, gid, prof, cn_sol, cov = build(desc)
    major_sols = major.estimate_major(gene, cov, cn_sol, "cbc")
    calls = []
    orig = minor.solve_minor_model
    # the documented set of considered variants: every variant (core or silent) of every minor allele of every major allele
    # called by ANY of the major solutions, every novel variant ANY of them proposes, the catalogued variants that belong
    # to no allele - pooled, the same for every refinement of the call (not recomputed when novel variants are asked for:
    # those come out of the evidence)
    pool = None
    if not desc.get("novel"):
        pool = set(gene.random_mutations)
        for ms_ in major_sols:
            for sa in ms_.solution:
                pool |= set(gene.alleles[sa.major].func_muts)
                for mi_ in gene.alleles[sa.major].minors.values():
                    pool |= set(mi_.neutral_muts)
            pool |= set(ms_.added)

    def wrapped(gene_, coverage_, major_sol, alleles_list, mutations, solver, max_solutions=1):
        with Recorder() as rec:
            res = orig(gene_, coverage_, major_sol, alleles_list, mutations, solver, max_solutions)
        calls.append({"cov": coverage_, "major_sol": major_sol, "alleles_list": list(alleles_list),
                      "mutations": sorted(pool) if pool is not None else list(mutations), "mutations_real": set(mutations),
                      "snap": rec.snaps[0][1] if rec.snaps else None, "yields": list(rec.yields), "result": list(res)})
        return res

    minor.solve_minor_model = wrapped
    try:
        res = minor.estimate_minor(gene, cov, major_sols, "cbc", max_solutions=desc.get("max_solutions", 1), **({"novel": True} if desc.get("novel") else {})) if major_sols else []
    finally:
        minor.solve_minor_model = orig
    return {"gene": gene, "gid": gid, "prof": prof, "cn_sol": cn_sol, "cov": cov, "major_sols": major_sols, "calls": calls, "result": res}


def wire_call(real, call, desc):
    gene = real["gene"]
    seen = []
    cands = []
    for a in call["alleles_list"]:
        key = (a.major, a.minor)
        if key in seen:
            continue
        seen.append(key)
        d = sorted(set(gene.alleles[a.major].func_muts) | set(gene.alleles[a.major].minors[a.minor].neutral_muts))
        cands.append({"major": a.major, "minor": a.minor, "def": [[m.pos, m.op] for m in d]})
    ms = call["major_sol"]
    sam = call["cov"].sam
    use_phase = bool(call["cov"].profile.phase and sam)
    return {"gene": {"ref": real["gid"]}, "cov": views.cov_view(call["cov"]), "cn": views.cn_view(ms.cn_solution),
            "major_sol": [[sa.major, int(k)] for sa, k in ms.solution.items()], "cands": cands,
            "mutations": [[m.pos, m.op] for m in call["mutations"]], "profile": views.profile_view(call["cov"].profile),
            "use_phase": use_phase,
            "phase_fragments": [[[p, o] for p, o in rv.items()] for rv in sam.phases.values()] if use_phase else []}


def cand_defs(gene, call):
    """definition (core + silent variants) of every candidate (major, minor) of the call"""
    out = {}
    for a in call["alleles_list"]:
        out.setdefault((a.major, a.minor), frozenset(set(gene.alleles[a.major].func_muts) | set(gene.alleles[a.major].minors[a.minor].neutral_muts)))
    return out


def phase_patterns(call):
    """the read-phase patterns the refinement is asked to respect: fragments restricted to considered sites, at least two
    sites, with multiplicity. Returns [] without phase evidence and None when the implementation down-samples them
    (more patterns x allele copies than minor_phase_vars: which patterns survive is not part of the property)"""
    cov, ms = call["cov"], call["major_sol"]
    if not (cov.profile.phase and cov.sam):
        return []
    mut_pos = {m.pos for m in call["mutations"]}
    modes = collections.OrderedDict()
    for rv in cov.sam.phases.values():
        c = tuple(sorted((k, v) for k, v in rv.items() if k in mut_pos))
        if len(c) > 1:
            modes[c] = modes.get(c, 0) + 1
    counts = collections.Counter()
    for sa, k in ms.solution.items():
        counts[sa.major] += k
    n_slots = sum(max(1, counts[maj]) for (maj, _mi) in {(a.major, a.minor) for a in call["alleles_list"]})
    if len(modes) * n_slots > cov.profile.minor_phase_vars:
        return None
    return [(dict(c), n) for c, n in modes.items()]


def slot_phase(gene, muts, maj, d, kept, add, r):
    """(eligible, disagreements) of one allele copy with a read pattern: the copy is eligible when at least two considered
    variants at sites of the pattern can be kept or added on it; a variant the pattern shows must be on the copy, a variant
    at a site where the pattern shows something else must not"""
    n, cost = 0, 0
    for m in muts:
        if m.pos not in r or not gene.has_coverage(maj, m.pos):
            continue
        on = (m in kept) if m in d else (m in add)
        n += 1
        cost += (0 if on else 1) if m.op == r[m.pos] else (1 if on else 0)
    return n > 1, cost


def phase_term(gene, call, patterns, active, cands):
    """read-phase disagreement of an assignment: every pattern that some candidate copy could explain is attributed to the
    selected copy that contradicts it least. `active`: [(major, definition, kept, added)]; None = inadmissible"""
    muts = call["mutations"]
    w = float(call["cov"].profile.minor_phase)
    tot = 0.0
    for r, cnt in patterns:
        costs = [c for ok, c in (slot_phase(gene, muts, maj, d, kept, add, r) for maj, d, kept, add in active) if ok]
        if costs:
            tot += w * cnt * min(costs)
        elif any(slot_phase(gene, muts, maj, d, d, frozenset(), r)[0] for (maj, _mi), d in cands.items()):
            return None
    return tot


def spec_objective(gene, call, sol):
    """documented objective of a reported assignment: fit error + penalties for dropped / added / novel core variants +
    read-phase disagreement (tie-breaker left out). None when it cannot be decided from the report: the homozygous
    post-processing may have added a variant after the model was solved, or the phase patterns were down-sampled"""
    cov, ms = call["cov"], call["major_sol"]
    prof = cov.profile
    muts = call["mutations"]
    from aldy.gene import Mutation
    patterns = phase_patterns(call)
    if patterns is None:
        return None
    max_cn = ms.cn_solution.max_cn()
    obs = {}
    positions = sorted({m.pos for m in muts})
    for m in list(muts) + [Mutation(p, "_") for p in positions]:
        sc = cov.single_copy(m, ms.cn_solution)
        obs[m] = cov[m] / sc if sc > 0 else 0
    if any(abs(obs[m] - max_cn) <= 1e-4 for a in sol.solution for m in a.added):
        return None
    cands = cand_defs(gene, call)
    carriers = collections.Counter()
    refc = collections.Counter()
    pen = 0.0
    novel_core = set()
    active = []
    for a in sol.solution:
        d = cands.get((a.major, a.minor))
        if d is None:
            return None
        kept = d - set(a.missing)
        added = frozenset(a.added)
        active.append((a.major, d, kept, added))
        for m in kept | added:
            carriers[m] += 1
        pen += float(prof.minor_miss) * len(set(a.missing)) + float(prof.minor_add) * len(added)
        for m in added:
            if gene.is_functional(m) and m not in gene.alleles[a.major].func_muts:
                novel_core.add(m)
        for p in positions:
            if gene.has_coverage(a.major, p):
                refc[p] += 1 - sum(1 for m in kept | added if m.pos == p and m.op[:3] != "ins")
    err = sum(abs(obs[m] - carriers[m]) for m in muts) + sum(abs(obs[Mutation(p, "_")] - refc[p]) for p in positions)
    ph = phase_term(gene, call, patterns, active, cands)
    if ph is None:
        return None
    return err + pen + float(prof.minor_add) / 2 * len(novel_core) + ph


def oracle(real, desc):
    why = []
    gene = real["gene"]
    for call in real["calls"]:
        ms = call["major_sol"]
        cov = call["cov"]
        muts = set(call["mutations"])
        for sol in call["result"]:
            # one catalogued minor of the same major per called copy
            want = collections.Counter()
            for sa, k in ms.solution.items():
                want[sa.major] += k
            got = collections.Counter(a.major for a in sol.solution)
            if want != got:
                why.append(f"refinement calls {dict(got)} but the major solution is {dict(want)}")
            for a in sol.solution:
                if a.minor not in gene.alleles[a.major].minors:
                    why.append(f"{a.minor} is not a minor allele of {a.major}")
                    continue
                d = set(gene.alleles[a.major].func_muts) | set(gene.alleles[a.major].minors[a.minor].neutral_muts)
                for m in a.missing:
                    if m in gene.alleles[a.major].func_muts:
                        why.append(f"core variant {m} of called allele {a.major} is dropped")
                    if m not in d:
                        why.append(f"lost variant {m} is not part of the definition of {a.minor}")
                for m in a.added:
                    if not gene.has_coverage(a.major, m.pos):
                        why.append(f"variant {m} added to {a.minor} which has no gene copy at that position")
                    if cov[m] <= 0:
                        why.append(f"variant {m} added to {a.minor} without supporting filtered reads")
                carried = (d - set(a.missing)) | set(a.added)
                for m in carried:
                    if cov[m] <= 0 and m in muts and ms.cn_solution.position_cn(m.pos) > 0:
                        why.append(f"{a.minor} is reported to carry {m} which has no supporting reads")
                bypos = collections.Counter(m.pos for m in carried)
                if any(v > 1 for v in bypos.values()):
                    p = [p_ for p_, v in bypos.items() if v > 1][0]
                    why.append(f"{a.minor} carries two variants at position {p}: {sorted(m for m in carried if m.pos == p)}")
            allcar = set()
            for a in sol.solution:
                d = set(gene.alleles[a.major].func_muts) | set(gene.alleles[a.major].minors[a.minor].neutral_muts)
                allcar |= (d - set(a.missing)) | set(a.added)
            for m in muts:
                if cov[m] > 0 and ms.cn_solution.position_cn(m.pos) > 0 and m not in allcar and any(gene.has_coverage(a.major, m.pos) for a in sol.solution):
                    why.append(f"considered variant {m} has supporting reads but no allele carries it")
    return why


def slots_value(gene, call, cdefs, patterns, obs, positions, slots):
    """objective of an assignment `slots` = [(major, (minor, kept, added, n_dropped))] whose copies each respect the per-copy rules;
    None when it breaks a rule that couples the copies (rules 5, 6, read-phase attribution)"""
    from aldy.gene import Mutation
    cov, ms = call["cov"], call["major_sol"]
    prof = cov.profile
    muts = list(call["mutations"])
    carriers = collections.Counter()
    refc = collections.Counter()
    pen = 0.0
    novel = set()
    for maj, (mino, kept, add, nmiss) in slots:
        for m in kept | add:
            carriers[m] += 1
        pen += float(prof.minor_miss) * nmiss + float(prof.minor_add) * len(add)
        for m in add:
            if gene.is_functional(m) and m not in gene.alleles[maj].func_muts:
                novel.add(m)
        for p in positions:
            if gene.has_coverage(maj, p):
                refc[p] += 1 - sum(1 for m in kept | add if m.pos == p and m.op[:3] != "ins")
    ok = True
    for m in muts:
        if (ms.cn_solution.position_cn(m.pos) == 0 or cov[m] == 0):
            if carriers[m] > 0:
                ok = False
                break
        elif not (1 <= carriers[m] <= cov[m]):
            ok = False
            break
    if not ok:
        return None
    # rule 6: per site, (selectors an active copy has there) - (selectors it sets) summed over the active copies is
    # bounded by max(copies at the site, reference reads, most selectors of any candidate copy); 0 where there are no copies
    for p in positions:
        tot = 0
        for maj, (mino, kept, add, nmiss) in slots:
            dd = cdefs[(maj, mino)]
            n_sel = sum(1 for m in dd if m.pos == p) + sum(1 for m in muts if m.pos == p and m not in dd and gene.has_coverage(maj, m.pos))
            tot += n_sel - sum(1 for m in kept | add if m.pos == p)
        mx = max((sum(1 for m in dd if m.pos == p) + sum(1 for m in muts if m.pos == p and m not in dd and gene.has_coverage(maj2, m.pos))
                  for (maj2, _mi), dd in cdefs.items()), default=0)
        pc = ms.cn_solution.position_cn(p)
        bound = 0 if pc == 0 else max(pc, cov[Mutation(p, "_")], mx)
        if tot > bound:
            ok = False
            break
    if not ok:
        return None
    err = sum(abs(obs[m] - carriers[m]) for m in muts) + sum(abs(obs[Mutation(p, "_")] - refc[p]) for p in positions)
    val = err + pen + float(prof.minor_add) / 2 * len(novel)
    if patterns:
        ph = phase_term(gene, call, patterns, [(maj, cdefs[(maj, mino)], kept, add) for maj, (mino, kept, add, nmiss) in slots], cdefs)
        if ph is None:
            return None
        val += ph
    return val


def planted_value(real, call, planted):
    """objective of a given assignment [(major, minor, added variants)] with every definition variant kept, None if inadmissible"""
    from aldy.gene import Mutation
    gene = real["gene"]
    cov, ms = call["cov"], call["major_sol"]
    patterns = phase_patterns(call)
    if patterns is None:
        return None
    cdefs = cand_defs(gene, call)
    muts = list(call["mutations"])
    positions = sorted({m.pos for m in muts})
    obs = {}
    for m in muts + [Mutation(p, "_") for p in positions]:
        sc = cov.single_copy(m, ms.cn_solution)
        obs[m] = cov[m] / sc if sc > 0 else 0
    slots = []
    for maj, mino, add in planted:
        d = cdefs.get((maj, mino))
        if d is None or any(not gene.has_coverage(maj, m.pos) for m in list(d) + list(add)) or any(m not in muts or m in d for m in add):
            return None
        allv = list(d) + list(add)
        if max(collections.Counter(m.pos for m in allv).values(), default=0) > 1:
            return None
        slots.append((maj, (mino, frozenset(d), frozenset(add), 0)))
    want = collections.Counter()
    for sa, k in ms.solution.items():
        want[sa.major] += k
    if collections.Counter(maj for maj, _ in slots) != want:
        return None
    return slots_value(gene, call, cdefs, patterns, obs, positions, slots)


def brute_force(real, call, limit=40000):
    """optimal objective by enumeration (read-phase disagreement included); None if too large or the patterns are down-sampled"""
    gene = real["gene"]
    cov, ms = call["cov"], call["major_sol"]
    patterns = phase_patterns(call)
    if patterns is None:
        return None
    cdefs = cand_defs(gene, call)
    prof = cov.profile
    muts = list(call["mutations"])
    from aldy.gene import Mutation
    cands = {}
    for a in call["alleles_list"]:
        cands.setdefault((a.major, a.minor), sorted(set(gene.alleles[a.major].func_muts) | set(gene.alleles[a.major].minors[a.minor].neutral_muts)))
    positions = sorted({m.pos for m in muts})
    obs = {}
    for m in muts + [Mutation(p, "_") for p in positions]:
        sc = cov.single_copy(m, ms.cn_solution)
        obs[m] = cov[m] / sc if sc > 0 else 0
    # per-slot options: (minor, kept set, added set) respecting rules 1-4 and the zero-coverage rules
    opts_by_major = {}
    for (maj, mino), d in cands.items():
        free = [m for m in d if not gene.is_functional(m)]
        forced = [m for m in d if gene.is_functional(m)]
        if any(not gene.has_coverage(maj, m.pos) for m in forced):
            continue
        news = [m for m in muts if gene.has_coverage(maj, m.pos) and m not in d]
        o = []
        for k in range(len(free) + 1):
            for keep in itertools.combinations(free, k):
                if any(not gene.has_coverage(maj, m.pos) for m in keep):
                    continue
                kept = set(forced) | set(keep)
                for j in range(len(news) + 1):
                    for add in itertools.combinations(news, j):
                        allv = list(kept) + list(add)
                        if max(collections.Counter(m.pos for m in allv).values(), default=0) > 1:
                            continue
                        o.append((mino, frozenset(kept), frozenset(add), len(d) - len(kept)))
                        if len(o) > limit:
                            return None
        opts_by_major.setdefault(maj, []).extend(o)
    total = 1
    need = [(sa.major, k) for sa, k in ms.solution.items()]
    for maj, k in need:
        n = len(opts_by_major.get(maj, []))
        for i in range(k):
            total *= max(1, (n + i)) // 1
        if total > limit * 50:
            return None
    best = None
    choices = [list(itertools.combinations_with_replacement(opts_by_major.get(maj, []), k)) for maj, k in need]
    n_eval = 0
    for combo in itertools.product(*choices):
        slots = [(maj, o) for (maj, k), part in zip(need, combo) for o in part]
        n_eval += 1
        if n_eval > limit * 5:
            return None
        val = slots_value(gene, call, cdefs, patterns, obs, positions, slots)
        if val is None:
            continue
        if best is None or val < best:
            best = val
            brute_force.last = [(maj, mino, sorted(map(str, kept)), sorted(map(str, add))) for maj, (mino, kept, add, nmiss) in slots]
    return best


def gene_pool(r, quick):
    import gen_gene
    pool = [{"kind": "toy", "genome": "hg19"}, {"kind": "toy", "genome": "hg38"}]
    for i_ in range(20 if quick else 150):
        pool.append({"kind": "generated", "genome": r.choice(["hg19", "hg38"]), "yaml": gen_gene.with_delins(r, gen_gene.gen_gene(r)) if i_ % 2 else gen_gene.gen_gene(r)})
    for nme in (["cyp2c19", "tpmt"] if quick else ["cyp2c19", "tpmt", "cyp2c9", "nat1", "cyp3a5", "nudt15", "cyp2d6"]):
        pool.append({"kind": "shipped", "name": nme, "genome": r.choice(["hg19", "hg38"])})
    return pool


def tie(ctx):
    r = lib.rng("c04")
    quick = ctx["tier"] == "quick"
    pool = gene_pool(r, quick)
    descs = []
    if ctx.get("replay") and "violation" in ctx["replay"] and "table" in (ctx["replay"]["violation"].get("input") or {}):
        descs.append(ctx["replay"]["violation"]["input"])
    for fn, cj in lib.load_corpus(PID):
        descs.append(cj)
    # directed class: two copies of one minor allele that differ crosswise (multi-allelic site / variants in trans)
    n_cross = 0
    import gen_gene
    cross_pool = [{"kind": "generated", "genome": r.choice(["hg19", "hg38"]), "yaml": gen_gene.with_siblings(r, gen_gene.gen_gene(r))} for _ in range(8 if quick else 60)]
    for j in range(3 * len(cross_pool)):
        if n_cross >= (16 if quick else 160):
            break
        cw = crosswise_instance(r, cross_pool[j % len(cross_pool)])
        if cw is not None:
            descs.append(cw)
            n_cross += 1
    while len(descs) < (200 if quick else 3000):
        descs.append(minor_instance(r, pool[len(descs) % len(pool)]))
    reqs, metas = [], []
    put = set()
    violations = []
    stats = collections.Counter()
    # "a variant is only added if filtered reads support it, every carried variant has supporting reads": instances with
    # a variant between the filter thresholds of the structure's copy count and of the copies its site really has
    # (generator and clause shared with C15)
    import c15
    for j in range(200 if quick else 800):
        dd = c15.gen_instance(r, pool[(7 * j + 3) % len(pool)])
        try:
            rr = run_real(c15.with_extras(dd, "base"))
        except Exception as e:
            violations.append({"why": f"estimate_minor raised {type(e).__name__}: {e}", "input": dd, "signature": "c04:crash"})
            continue
        stats["support_instances"] += 1
        sw = c15.support_oracle(rr)
        if sw:
            violations.append({"why": sw[0], "input": dd, "signature": "c04:carried_without_support"})
    for d in descs:
        real = run_real(d)
        if real["gid"] not in put:
            put.add(real["gid"])
            reqs.append({"op": "put", "id": real["gid"], "value": views.gene_view(real["gene"], [p for p, _, _ in d["table"]])})
            metas.append(None)
        else:
            # positions of this table may be new for the cached view: send the view again when needed
            pass
        for call in real["calls"]:
            w = wire_call(real, call, d)
            w["gene"] = views.gene_view(real["gene"], [p for p, _, _ in d["table"]] + [m.pos for m in call["mutations"]])
            reqs.append({"op": "minor_build", **w})
            metas.append(("build", d, real, call))
            if call["yields"] and call["result"]:
                reqs.append({"op": "minor_readout", **w, "active": list(call["yields"][0][2])})
                metas.append(("readout", d, real, call))
                # spec level (Props/C04Spec): documented objective of the assignment the first yield reports, decided by Lean
                reqs.append({"op": "minor_spec", **w, "active": list(call["yields"][0][2])})
                metas.append(("spec", d, real, call))
        why = oracle(real, d)
        if why:
            violations.append({"why": why[0], "all": why[:6], "input": d, "signature": "c04:" + " ".join(why[0].split(" ")[:3])})
        stats["major_solutions"] += len(real["major_sols"])
        stats["minor_calls"] += len(real["calls"])
        stats["no_major_solution"] += not real["major_sols"]
        stats["with_phase"] += d.get("fragments") is not None
        stats["crosswise"] += "crosswise" in d
        stats["with_indel_table"] += bool(d.get("indel_table"))
        for call in real["calls"]:
            stats["no_minor_solution"] += not call["result"]
            for s in call["result"]:
                stats["with_added"] += any(a.added for a in s.solution)
                stats["with_missing"] += any(a.missing for a in s.solution)
    outs = lib.driver_batch(reqs)
    fam = {k: {"cases": 0, "disagreements": []} for k in ("minor_structure", "minor_readout", "minor_score", "minor_spec_score", "considered_set")}
    famhit = collections.Counter()
    for meta in metas:
        if meta is not None and meta[0] == "build":
            _k, d, real, call = meta
            fam["considered_set"]["cases"] += 1
            if call["mutations_real"] != set(call["mutations"]):
                miss = sorted(set(call["mutations"]) - call["mutations_real"])[:4]
                more = sorted(call["mutations_real"] - set(call["mutations"]))[:4]
                fam["considered_set"]["disagreements"].append({"why": f"the refinement of {dict((sa.major, k) for sa, k in call['major_sol'].solution.items())} considers a different set of variants than the documented pool over all major solutions: missing {miss}, extra {more}", "input": d})
    distinct = set()
    samples = []
    for meta, o in zip(metas, outs):
        if meta is None:
            continue
        kind, d, real, call = meta
        if kind == "spec":
            # minor_optimum_score_is_spec: the objective reported for the optimum is specMinor of the assignment it reports
            # (the tie-breaker is part of specMinor; solver tolerance 1e-6)
            fam["minor_spec_score"]["cases"] += 1
            if not o["defs_considered"]:
                stats["spec_hypothesis_fails"] += 1
            elif abs(float(Fraction(o["spec"])) - call["yields"][0][1]) > 1e-6:
                fam["minor_spec_score"]["disagreements"].append({"why": f"objective {call['yields'][0][1]} reported for the optimum differs from the documented objective specMinor = {float(Fraction(o['spec']))} of the assignment it reports", "input": d})
            continue
        if kind == "build":
            fam["minor_structure"]["cases"] += 1
            if call["snap"] is None:
                fam["minor_structure"]["disagreements"].append({"why": "solve_minor_model solved no model", "input": d})
                continue
            diffs = lp.compare(call["snap"], lp.from_lean(o))
            for c in call["snap"]["cons"]:
                famhit[c[3].split("_")[0]] += 1
            if diffs:
                fam["minor_structure"]["disagreements"].append({"why": "model built by solve_minor_model differs from MinorInst.build: " + diffs[0], "diffs": diffs[:8], "input": d})
            distinct.add(lib.canon_hash(d))
        else:
            fam["minor_readout"]["cases"] += 1
            sol = call["result"][0] if len(call["result"]) == 1 else None
            # with max_solutions == 1 the single result is the read-out of the first yield
            if sol is not None and len(call["yields"]) >= 1 and d.get("max_solutions", 1) == 1:
                real_ro = sorted((a.major, a.minor, tuple(sorted((m.pos, m.op) for m in a.added)), tuple(sorted((m.pos, m.op) for m in a.missing))) for a in sol.solution)
                model_ro = sorted((c["major"], c["minor"], tuple(sorted((m[0], m[1]) for m in c["added"])), tuple(sorted((m[0], m[1]) for m in c["missing"]))) for c in o)
                if real_ro != model_ro:
                    fam["minor_readout"]["disagreements"].append({"why": f"read-out {real_ro} differs from the model {model_ro}", "input": d})
                # score of the returned solution = objective the solver reported for that point
                fam["minor_score"]["cases"] += 1
                if abs(sol.score - call["yields"][0][1]) > TOL:
                    fam["minor_score"]["disagreements"].append({"why": f"returned score {sol.score} differs from the reported objective {call['yields'][0][1]}", "input": d})
                # "the reported score equals the model objective of the reported assignment": fit error + penalties +
                # read-phase disagreement, recomputed from the report alone (the tie-breaker adds at most minor_add * #selectors / 1e6)
                so = spec_objective(real["gene"], call, sol)
                if so is None:
                    stats["score_clause_undecided"] += 1
                else:
                    stats["score_clause_checked"] += 1
                    stats["score_clause_with_phase"] += bool(phase_patterns(call))
                    if abs(sol.score - so) > 2e-3 + TOL:
                        violations.append({"why": f"reported score {sol.score} but the objective of the reported assignment (fit error + dropped/added/novel-core penalties + read-phase disagreement) is {so}", "input": d, "signature": "c04:score_not_objective"})
                if "crosswise" in d:
                    # the planted crosswise assignment is admissible: nothing reported may score above it
                    from aldy.gene import Mutation as _M
                    (mj, mi_), _ = d["planted"]
                    pv = planted_value(real, call, [(mj, mi_, [_M(*d["crosswise"][0])]), (mj, mi_, [_M(*d["crosswise"][1])])])
                    if pv is not None:
                        stats["crosswise_planted_admissible"] += 1
                        if sol.score > pv + 2e-3 + TOL:
                            violations.append({"why": f"reported objective {sol.score} but the admissible assignment 2 x {mi_} with {d['crosswise'][0]} on one copy and {d['crosswise'][1]} on the other has objective {pv}", "input": d, "signature": "c04:not_optimal"})
                bf = brute_force(real, call) if len(call["mutations"]) <= 7 else None
                if bf is not None:
                    stats["optimality_checked"] += 1
                    stats["optimality_checked_with_phase"] += bool(phase_patterns(call))
                    # the tie-breaker adds at most minor_add * #selectors / 1e6
                    if sol.score > bf + 1e-3 + TOL:
                        violations.append({"why": f"reported objective {sol.score} but an admissible assignment with objective {bf} exists", "input": d, "signature": "c04:not_optimal"})
                if len(samples) < 3 and (any(a.added for a in sol.solution) or any(a.missing for a in sol.solution)):
                    samples.append({"structure": d["structure"], "planted": d["planted"], "major": sorted(sa.major for sa in call["major_sol"].solution.elements()),
                                    "result": [(a.minor, [str(m) for m in a.added], [str(m) for m in a.missing]) for a in sol.solution], "score": sol.score})
    return {"families": fam, "violations": violations[:6], "evaluations": len(descs), "distinct_nontrivial": len(distinct),
            "rule": "evidence tables planted from 1-3 catalogued (major, minor) alleles of toy / generated (half of them with a deletion-insertion variant) / shipped genes with multiplicative noise, spurious and dropped variants, optional per-fragment phase evidence, penalties varied; every solve_minor_model call of the real estimate_minor is one case; distinct by hash of the instance",
            "samples": samples, "stats": dict(stats) | {"constraint_families_hit": dict(famhit)}}


def search(ctx, hints):
    r = lib.rng("c04-search")
    pool = gene_pool(r, True)
    descs = [h["input"] for h in hints if "table" in (h.get("input") or {})]
    violations = {}
    n = 400 if ctx["tier"] == "quick" else 4000
    tried = 0
    while tried < n and len(violations) < 3:
        d = descs[tried] if tried < len(descs) else minor_instance(r, pool[tried % len(pool)])
        tried += 1
        try:
            real = run_real(d)
        except Exception as e:
            violations.setdefault("crash", {"why": f"estimate_minor raised {type(e).__name__}: {e}", "input": d, "signature": "c04:crash"})
            continue
        why = oracle(real, d)
        if why:
            sig = "c04:" + " ".join(why[0].split(" ")[:3])
            violations.setdefault(sig, {"why": why[0], "all": why[:6], "input": d, "signature": sig})
        for call in real["calls"]:
            if len(call["result"]) == 1 and len(call["mutations"]) <= 7:
                so = spec_objective(real["gene"], call, call["result"][0])
                if so is not None and abs(call["result"][0].score - so) > 2e-3 + TOL:
                    violations.setdefault("c04:score_not_objective", {"why": f"reported score {call['result'][0].score} but the objective of the reported assignment is {so}", "input": d, "signature": "c04:score_not_objective"})
                bf = brute_force(real, call)
                if bf is not None and call["result"][0].score > bf + 1e-3 + TOL:
                    violations.setdefault("c04:not_optimal", {"why": f"reported objective {call['result'][0].score} but an admissible assignment with objective {bf} exists", "input": d, "signature": "c04:not_optimal"})
    return {"violations": list(violations.values()), "instances_searched": tried}
