"""Shared machinery of the checks: paths, Lean build + audit, driver, evidence, findings."""
import hashlib
import json
import os
import random
import re
import subprocess
import sys
import time
from fractions import Fraction

HERE = os.path.dirname(os.path.abspath(__file__))
VERIF = os.path.dirname(HERE)
LEAN = os.path.join(VERIF, "lean")
REPO = os.environ.get("ALDY_REPO", "/repo")
DRIVER = os.path.join(LEAN, ".lake", "build", "bin", "driver")
EVIDENCE_DIR = os.path.join(VERIF, "evidence")
REPLAY_DIR = os.path.join(VERIF, "replays")
CORPUS_DIR = os.path.join(VERIF, "corpus")
ALLOWED_AXIOMS = {"propext", "Classical.choice", "Quot.sound"}

TRUSTED_BASE = [
    "Lean 4.33 kernel; axioms propext, Classical.choice, Quot.sound only (audited by #print axioms on every run)",
    "harness/extract_constants.py (AST extractor of literals) and the hand-written Lean models, tied to /repo only by the correspondence runs of this check",
    "the Lean driver (core Lean.Data.Json) and the Python canonicalisers",
    "CBC/OR-Tools as optimisation oracle; pysam/htslib, PyYAML, natsort, pickle/gzip/tar as libraries",
    "IEEE-754 arithmetic of the implementation is compared with exact rationals of the model up to 1e-6; rounding itself is not modelled",
]


class ToolTrouble(Exception):
    """Anything that is not a verdict about the property (exit code 2)."""


def seed() -> int:
    try:
        return int(os.environ.get("VERIF_SEED", "0"))
    except ValueError:
        return 0


def frac(x) -> str:
    """exact rational string for the driver"""
    if isinstance(x, str):
        q = Fraction(x)
    elif isinstance(x, float):
        q = Fraction(x)
    else:
        q = Fraction(x)
    return f"{q.numerator}/{q.denominator}" if q.denominator != 1 else str(q.numerator)


def dec(x: str) -> str:
    """decimal literal -> exact rational string"""
    return frac(Fraction(x))


def unfrac(s) -> Fraction:
    return Fraction(s)


# ------------------------------------------------------------------------------------------
# Lean build and audit
# ------------------------------------------------------------------------------------------

def run_cmd(cmd, cwd=None, timeout=3600, env=None):
    t = time.time()
    p = subprocess.run(cmd, cwd=cwd, stdout=subprocess.PIPE, stderr=subprocess.STDOUT, text=True, timeout=timeout, env=env)
    return p.returncode, p.stdout, time.time() - t


def regenerate_constants():
    """returns (ok, message, stale constants).  When a section of the source no longer has the shape the
    extractor reads, its constants keep the values of the last good extraction (the project still builds) and
    are listed as stale: a broken obligation for exactly the checks that use one of them"""
    rc, out, _ = run_cmd([sys.executable, os.path.join(HERE, "extract_constants.py")])
    if rc == 3:
        try:
            with open(os.path.join(LEAN, ".lake", "extract_status.json")) as f:
                st = json.load(f)
        except Exception:
            st = {"stale_constants": None}
        return False, out.strip(), st.get("stale_constants")
    if rc != 0:
        raise ToolTrouble(f"extract_constants failed: {out}")
    return True, out.strip(), []


def module_closure(mods):
    """the Aldy modules the given modules import, transitively (from the import lines)"""
    seen, todo = [], list(mods)
    while todo:
        m = todo.pop()
        if m in seen:
            continue
        path = os.path.join(LEAN, m.replace(".", "/") + ".lean")
        if not os.path.exists(path):
            continue
        seen.append(m)
        with open(path) as f:
            for line in f:
                mm = re.match(r"^import\s+(Aldy\.[\w.]+)", line)
                if mm:
                    todo.append(mm.group(1))
    return seen


def constants_used(mods):
    """names of regenerated constants that occur in the given modules or anything they import"""
    names = set()
    with open(os.path.join(LEAN, "Aldy", "Generated", "Constants.lean")) as f:
        for line in f:
            mm = re.match(r"^def\s+([A-Z][A-Z0-9_]*)\b", line)
            if mm:
                names.add(mm.group(1))
    used = set()
    for m in module_closure(mods):
        if m == "Aldy.Generated.Constants":
            continue
        with open(os.path.join(LEAN, m.replace(".", "/") + ".lean")) as f:
            text = f.read()
        for n in names:
            if re.search(r"\b" + n + r"\b", text):
                used.add(n)
    return used


def theorem_names(module_rel):
    """names of `theorem`s declared in a Props file"""
    path = os.path.join(LEAN, module_rel)
    names = []
    ns = []
    with open(path) as f:
        for line in f:
            m = re.match(r"^namespace\s+(\S+)", line)
            if m:
                ns.append(m.group(1))
            m = re.match(r"^end\s+(\S+)", line)
            if m and ns and ns[-1] == m.group(1):
                ns.pop()
            m = re.match(r"^(?:private\s+|protected\s+)?theorem\s+([A-Za-z_][\w'.]*)", line)
            if m:
                names.append(".".join(ns + [m.group(1)]))
    return names


def lean_sources_hash():
    h = hashlib.sha256()
    for root, _, files in sorted(os.walk(os.path.join(LEAN, "Aldy"))):
        for fn in sorted(files):
            if fn.endswith(".lean"):
                p = os.path.join(root, fn)
                h.update(p.encode())
                with open(p, "rb") as f:
                    h.update(f.read())
    with open(os.path.join(LEAN, "Driver.lean"), "rb") as f:
        h.update(f.read())
    return h.hexdigest()


FORBIDDEN = re.compile(r"\bsorry\b|\badmit\b|^\s*axiom\s|native_decide|bv_decide|implemented_by|\bunsafe\s|maxHeartbeats\s+0")


def grep_forbidden():
    """forbidden tokens outside comments in the Lean sources"""
    hits = []
    for root, _, files in os.walk(os.path.join(LEAN, "Aldy")):
        for fn in files:
            if not fn.endswith(".lean"):
                continue
            p = os.path.join(root, fn)
            text = open(p).read()
            # strip block comments (nested not expected) and line comments
            text = re.sub(r"/-.*?-/", lambda m: "\n" * m.group(0).count("\n"), text, flags=re.S)
            for i, line in enumerate(text.split("\n"), 1):
                line = line.split("--")[0]
                if FORBIDDEN.search(line):
                    hits.append(f"{os.path.relpath(p, LEAN)}:{i}: {line.strip()}")
    return hits


def lake_build(targets=("Aldy", "driver")):
    """build the given targets (a check builds its own property modules and the driver: a theorem of another
    property that no longer holds is that property's obligation, not this one's)"""
    rc, out, dt = run_cmd(["lake", "build", *targets], cwd=LEAN, timeout=3000)
    return rc == 0, out, dt


def audit(props_modules):
    """#print axioms for every theorem of the given Props modules.
    Returns (ok, {theorem: [axioms]}, message)."""
    thms = []
    for mod in props_modules:
        thms += theorem_names(mod.replace(".", "/") + ".lean")
    cache_dir = os.path.join(LEAN, ".lake", "audit")
    os.makedirs(cache_dir, exist_ok=True)
    key = hashlib.sha256((lean_sources_hash() + "|" + ",".join(props_modules)).encode()).hexdigest()[:24]
    cache = os.path.join(cache_dir, key + ".json")
    if os.path.exists(cache):
        with open(cache) as f:
            axioms = json.load(f)
    else:
        src = "".join(f"import {m}\n" for m in props_modules) + "".join(f"#print axioms {t}\n" for t in thms)
        path = os.path.join(cache_dir, key + ".lean")
        with open(path, "w") as f:
            f.write(src)
        rc, out, _ = run_cmd(["lake", "env", "lean", path], cwd=LEAN, timeout=1200)
        if rc != 0:
            return False, {}, "audit file failed to elaborate:\n" + out[-2000:]
        axioms = {}
        # output: "'Aldy.run_T1' depends on axioms: [propext, Classical.choice, Quot.sound]" (possibly wrapped)
        flat = re.sub(r"\s+", " ", out)
        for m in re.finditer(r"'([^']+)' depends on axioms: \[([^\]]*)\]", flat):
            axioms[m.group(1)] = [a.strip() for a in m.group(2).split(",") if a.strip()]
        for m in re.finditer(r"'([^']+)' does not depend on any axioms", flat):
            axioms[m.group(1)] = []
        with open(cache, "w") as f:
            json.dump(axioms, f)
    missing = [t for t in thms if t not in axioms]
    if missing:
        return False, axioms, f"no axiom report for {missing[:5]}"
    bad = {t: a for t, a in axioms.items() if not set(a) <= ALLOWED_AXIOMS}
    if bad:
        return False, axioms, f"theorems depend on disallowed axioms: {bad}"
    hits = grep_forbidden()
    if hits:
        return False, axioms, "forbidden tokens in Lean sources: " + "; ".join(hits[:5])
    return True, {t: axioms[t] for t in thms}, f"{len(thms)} theorems audited"


# ------------------------------------------------------------------------------------------
# Driver
# ------------------------------------------------------------------------------------------

class Driver:
    """One compiled model-driver process; JSON line in, JSON line out."""

    def __init__(self):
        if not os.path.exists(DRIVER):
            raise ToolTrouble(f"driver binary missing: {DRIVER}")
        self.p = subprocess.Popen([DRIVER], stdin=subprocess.PIPE, stdout=subprocess.PIPE, text=True, bufsize=1)

    def call(self, obj):
        self.p.stdin.write(json.dumps(obj) + "\n")
        self.p.stdin.flush()
        line = self.p.stdout.readline()
        if not line:
            raise ToolTrouble("driver died")
        r = json.loads(line)
        if isinstance(r, dict) and "error" in r:
            raise ToolTrouble(f"driver error: {r['error']} on op {obj.get('op')}")
        return r

    def close(self):
        try:
            self.p.stdin.close()
            self.p.wait(timeout=10)
        except Exception:
            self.p.kill()


def driver_batch(objs, timeout=3600):
    """run many requests through one fresh driver process"""
    if not os.path.exists(DRIVER):
        raise ToolTrouble(f"driver binary missing: {DRIVER}")
    inp = "".join(json.dumps(o) + "\n" for o in objs)
    p = subprocess.run([DRIVER], input=inp, stdout=subprocess.PIPE, text=True, timeout=timeout)
    outs = [json.loads(l) for l in p.stdout.splitlines() if l.strip()]
    if len(outs) != len(objs):
        raise ToolTrouble(f"driver produced {len(outs)} answers for {len(objs)} requests")
    for o, r in zip(objs, outs):
        if isinstance(r, dict) and "error" in r:
            raise ToolTrouble(f"driver error: {r['error']} on op {o.get('op')}")
    return outs


# ------------------------------------------------------------------------------------------
# Known findings, evidence, replay
# ------------------------------------------------------------------------------------------

def known_findings(pid):
    path = os.path.join(VERIF, "known_findings.json")
    if not os.path.exists(path):
        return []
    with open(path) as f:
        data = json.load(f)
    return [k for k in data.get("findings", []) if k.get("property") == pid and k.get("status", "open") == "open"]


def write_replay(pid, payload):
    os.makedirs(REPLAY_DIR, exist_ok=True)
    n = 0
    while True:
        path = os.path.join(REPLAY_DIR, f"{pid}-seed{seed()}-{n}.json")
        if not os.path.exists(path):
            break
        n += 1
    with open(path, "w") as f:
        json.dump(payload, f, indent=1, default=str)
    return path


def write_evidence(pid, tier, coverage, wall_s, violations, assumptions=None):
    os.makedirs(EVIDENCE_DIR, exist_ok=True)
    ev = {
        "property_id": pid,
        "tier": tier,
        "seed": seed(),
        "level": "proof",
        "coverage": coverage,
        "assumptions": assumptions or [],
        "wall_s": round(wall_s, 2),
        "violations": violations,
    }
    # runs against a scratch copy of the repository (seeded-change testing) must never overwrite the evidence of /repo
    d = EVIDENCE_DIR if os.path.realpath(REPO) == os.path.realpath("/repo") else os.path.join(VERIF, "replays", "evidence_scratch")
    os.makedirs(d, exist_ok=True)
    with open(os.path.join(d, f"{pid}.json"), "w") as f:
        json.dump(ev, f, indent=1, default=str)


def canon_hash(obj) -> str:
    return hashlib.sha256(json.dumps(obj, sort_keys=True, default=str).encode()).hexdigest()[:16]


def rng(*salt):
    return random.Random(f"{seed()}|" + "|".join(str(s) for s in salt))


def load_corpus(pid):
    d = os.path.join(CORPUS_DIR, pid)
    out = []
    if os.path.isdir(d):
        for fn in sorted(os.listdir(d)):
            if fn.endswith(".json"):
                with open(os.path.join(d, fn)) as f:
                    out.append((fn, json.load(f)))
    return out
