"""C12 - result files state exactly the reported solutions.

Ties:
  decomposition : text written by the real `write_decomposition` == Lean `decompRows` rendered
  vcf_records   : records written by the real `write_vcf` (POS, ID, REF, ALT, EFFECT, GT:DP:MA:MI
                  per solution column) == Lean `vcfRecords` (model of the writer *as written*)
Oracle (always on; the search): the property's clauses on the real text - rows per copy are
exactly definition + added - missing, parse-back recovers the solution; every VCF column
describes its own solution (GT/MA/MI), positions one-based, REF/ALT spell the variant.
Known findings (VCF writer) are matched by signature; anything else is a violation.
"""
import collections
import io
import re

import c11
import instances
import lib

PID = "C12"
PROPS = ["Aldy.Props.C12"]
TRUSTED_EXTRA = []
ASSUMPTIONS = ["sample / gene / allele names contain no tab or newline"]


def build(gene, sol_descs):
    """sol_descs: list of solutions; a solution = list of (major, minor, added, missing)"""
    from aldy.diplotype import estimate_diplotype
    from aldy.gene import Mutation
    from aldy.solutions import CNSolution, MajorSolution, MinorSolution, SolvedAllele
    sols = []
    for copies in sol_descs:
        sa = [SolvedAllele(gene, ma, mi, [Mutation(*m) for m in ad], [Mutation(*m) for m in ms]) for ma, mi, ad, ms in copies]
        cn_sol = CNSolution(gene, 0, [gene.alleles[ma].cn_config for ma, _, _, _ in copies])
        major_sol = MajorSolution(0, collections.Counter(SolvedAllele(gene, ma) for ma, _, _, _ in copies), cn_sol, [])
        s = MinorSolution(0, sa, major_sol)
        estimate_diplotype(gene, s)
        sols.append(s)
    return sols


def make_cov(r, gene, sol_descs, with_indel_table):
    from aldy.coverage import Coverage
    from aldy.profile import Profile
    table = collections.defaultdict(dict)
    muts = set()
    for copies in sol_descs:
        for ma, mi, ad, ms in copies:
            muts |= set(gene.alleles[ma].func_muts) | set(gene.alleles[ma].minors[mi].neutral_muts) | {tuple(m) for m in ad}
    covd = {}
    for m in sorted(muts):
        c = r.randint(0, 40)
        covd[(m[0], m[1])] = c
        if c:
            table[m[0]][m[1]] = [(60, 60)] * c
        table[m[0]].setdefault("_", [(60, 60)] * r.randint(1, 30))
    indel = None
    if with_indel_table:
        indel = {(p, o): (r.randint(0, 30), float(c) if r.random() < 0.5 else c) for (p, o), c in covd.items() if o[:3] in ("ins", "del")}
    return Coverage(gene, Profile("test"), None, table, indel, {})


def gen_solutions(r, gene):
    nsol = r.choice([1, 1, 2, 2, 3, 4])
    sols = []
    base_n = r.choice([0, 1, 2, 2, 3, 4])
    allm = list(gene.mutations)
    for si in range(nsol):
        n = base_n if r.random() < 0.7 else r.choice([1, 2, 3])
        if si > 0 and r.random() < 0.3:
            sols.append([tuple(c) for c in sols[-1]])
            continue
        copies = c11.gen_copies(r, gene, n)
        out = []
        for ma, mi, added in copies:
            have = sorted(set(gene.alleles[ma].func_muts) | set(gene.alleles[ma].minors[mi].neutral_muts))
            missing = []
            if have and r.random() < 0.25:
                missing = [list(m) for m in r.sample(have, 1)]
            if r.random() < 0.1 and sols and sols[-1]:
                ma, mi = sols[-1][0][0], sols[-1][0][1]  # repeat a minor of the previous solution
                added, missing = [], []
            out.append((ma, mi, [list(a) for a in added], missing))
        sols.append(out)
    return sols


def run_real(gene, sols, cov, sample="S1"):
    from aldy.diplotype import write_decomposition, write_vcf
    decomp = []
    for i, s in enumerate(sols):
        buf = io.StringIO()
        try:
            write_decomposition(sample, gene, cov, i + 1, s, buf)
        except Exception as e:  # a writer that cannot write a solution the stages can report
            decomp.append([f"RAISED {type(e).__name__}: {e}"])
            continue
        decomp.append(buf.getvalue().split("\n")[:-1])
    buf = io.StringIO()
    vcf_error = None
    try:
        write_vcf(sample, gene, cov, sols, buf)
    except Exception as e:
        vcf_error = f"{type(e).__name__}: {e}"
    recs = []
    header = None
    for line in buf.getvalue().split("\n"):
        if not line or line.startswith("##"):
            continue
        f = line.split("\t")
        if line.startswith("#CHROM"):
            header = f
            continue
        info = dict(x.split("=", 1) for x in f[7].split(";"))
        recs.append({"chrom": f[0], "pos": int(f[1]), "id": f[2], "ref": f[3], "alt": f[4], "effect": info.get("EFFECT"),
                     "gene": info.get("GENE"), "format": f[8], "cells": [c.split(":") for c in f[9:]]})
    return {"decomp": decomp, "vcf": recs, "header": header, "vcf_error": vcf_error}


def wire(gene, sol_descs, sols, cov, sample="S1"):
    from aldy.gene import Mutation
    tab = []
    muts = set()
    ws = []
    for copies, s in zip(sol_descs, sols):
        wc = []
        for ma, mi, ad, ms in copies:
            d = sorted(set(gene.alleles[ma].func_muts) | set(gene.alleles[ma].minors[mi].neutral_muts))
            muts |= set((m[0], m[1]) for m in d) | {tuple(m) for m in ad}
            wc.append({"major": ma, "minor": mi, "def": [[m[0], m[1]] for m in d], "added": [list(m) for m in ad], "missing": [list(m) for m in ms]})
        ws.append({"copies": wc, "diplotype": s.get_major_diplotype().replace(" ", "")})
    for p, o in sorted(muts):
        m = Mutation(p, o)
        fn = gene.get_functional(m, False)
        fv = gene.get_functional(m)
        fv = fv.replace(" ", "_").replace("\t", "_").replace(";", "_") if fv else "none"
        tab.append({"m": [p, o], "cov": str(cov[m]), "effect": fn if fn else "none", "effect_vcf": fv, "rsid": gene.get_rsid(m, default=False)})
    return {"op": "writers", "sols": ws, "tab": tab, "sample": sample, "gene": gene.name}


def spelled(gene, pos0, op, ref, alt):
    """does REF/ALT at one-based POS spell the variant?"""
    if not re.fullmatch(r"[ACGTN]+", ref or "") or not re.fullmatch(r"[ACGTN]+", alt or ""):
        return False
    if ">" in op and len(op) == 3:
        return ref == op[0] and alt == op[2]
    if op.startswith("ins"):
        return alt.startswith(ref) and alt[len(ref):] == op[3:] or alt.endswith(ref) and alt[:-len(ref)] == op[3:]
    if op.startswith("del") and "ins" not in op:
        return (ref.startswith(alt) and ref[len(alt):] == op[3:]) or (ref.endswith(alt) and ref[:len(ref) - len(alt)] == op[3:])
    return ref != alt


def oracle(gene, sol_descs, sols, cov, real):
    viol = []
    from aldy.gene import Mutation
    # decomposition
    for si, (copies, lines) in enumerate(zip(sol_descs, real["decomp"])):
        rows = [l.split("\t") for l in lines]
        for ci, (ma, mi, ad, ms) in enumerate(copies):
            exp = sorted((set(gene.alleles[ma].func_muts) | set(gene.alleles[ma].minors[mi].neutral_muts) | {Mutation(*m) for m in ad}) - {Mutation(*m) for m in ms})
            mine = [r_ for r_ in rows if len(r_) > 6 and r_[5] == str(ci)]
            got = [(int(r_[7]), r_[8]) for r_ in mine if r_[7] != ""]
            if got != [(m.pos, m.op) for m in exp] or (not exp and len(mine) != 1):
                viol.append(("c12:decomposition_rows", f"solution {si + 1} copy {ci}: decomposition lists {got}, the copy carries {[(m.pos, m.op) for m in exp]}"))
                continue
            for r_, m in zip([x for x in mine if x[7] != ""], exp):
                fn = gene.get_functional(m, False)
                if r_[6] != mi or r_[9] != str(cov[m]) or r_[10] != (fn if fn else "none") or r_[11] != gene.get_rsid(m, default=False) or r_[3] != sols[si].get_major_diplotype().replace(" ", ""):
                    viol.append(("c12:decomposition_fields", f"solution {si + 1} copy {ci}: row {r_[6:12]} does not describe {m}"))
    # vcf
    recs = {(r_["pos"] - 1, None): r_ for r_ in real["vcf"]}
    allm = sorted({Mutation(*m2) for copies in sol_descs for ma, mi, ad, ms in copies
                   for m2 in (list(gene.alleles[ma].func_muts) + list(gene.alleles[ma].minors[mi].neutral_muts) + [tuple(x) for x in ad])})
    if len(real["vcf"]) != len(allm):
        viol.append(("c12:vcf_record_set", f"{len(real['vcf'])} VCF records for {len(allm)} variants"))
        return viol
    for m, rec in zip(allm, real["vcf"]):
        if rec["pos"] != m.pos + 1:
            viol.append(("c12:vcf_position", f"record for {m} has POS {rec['pos']}"))
        if not spelled(gene, m.pos, m.op, rec["ref"], rec["alt"]):
            kind = ("snp" if len(m.op) == 3 else "mnp") if ">" in m.op else "indel"
            viol.append((f"c12:vcf_ref_alt_{kind}", f"record for {m}: REF={rec['ref']!r} ALT={rec['alt']!r} does not spell the variant"))
        for si, (copies, cell) in enumerate(zip(sol_descs, rec["cells"])):
            if len(cell) != 4:
                if any(":" in c_[0] or ":" in c_[1] for c_ in copies):
                    viol.append(("c12:vcf_name_with_colon", f"VCF column of solution {si + 1}, variant {m}: an allele name containing ':' breaks the GT:DP:MA:MI field ({':'.join(cell)!r})"))
                else:
                    viol.append(("c12:vcf_cell_shape", f"VCF column of solution {si + 1}, variant {m}: malformed sample field {':'.join(cell)!r}"))
                continue
            gt = cell[0].split("|") if cell[0] != "" else []
            own_marked, spec = [], []
            for ma, mi, ad, ms in copies:
                d = set(gene.alleles[ma].func_muts) | set(gene.alleles[ma].minors[mi].neutral_muts) | {Mutation(*x) for x in ad}
                own_marked.append("1" if m in d else "0")
                spec.append("1" if m in d - {Mutation(*x) for x in ms} else "0")
            if gt != spec:
                sig = "c12:vcf_gt_missing_not_subtracted" if gt == own_marked else "c12:vcf_gt_shared_table"
                viol.append((sig, f"VCF column of solution {si + 1}, variant {m}: GT {'|'.join(gt)} but the solution's copies carry {'|'.join(spec)}"))
            else:
                ma_exp = ",".join(f"*{c[0]}" if b == "1" else "-" for c, b in zip(copies, spec))
                mi_exp = ",".join(f"*{c[1]}" if b == "1" else "-" for c, b in zip(copies, spec))
                if cell[2] != ma_exp or cell[3] != mi_exp:
                    viol.append(("c12:vcf_ma_mi", f"VCF column of solution {si + 1}, variant {m}: MA/MI {cell[2:]} expected {[ma_exp, mi_exp]}"))
    return viol


def gene_pool(r, quick):
    pool = [{"kind": "toy", "genome": "hg19"}, {"kind": "shipped", "name": "cyp2d6", "genome": "hg19"}]
    import gen_gene
    for _ in range(6 if quick else 50):
        pool.append({"kind": "generated", "genome": r.choice(["hg19", "hg38"]), "yaml": gen_gene.gen_gene(r)})
    return pool


def one_case(r, gd):
    gene, _ = instances.load_gene(gd)
    sd = gen_solutions(r, gene)
    return {"gene": gd, "sols": [[list(c) for c in s] for s in sd], "indel_table": r.random() < 0.3, "cov_seed": r.randint(0, 10**6)}


def run_case(case):
    import random
    gene, _ = instances.load_gene(case["gene"])
    sd = [[(c[0], c[1], [list(x) for x in c[2]], [list(x) for x in c[3]]) for c in s] for s in case["sols"]]
    sols = build(gene, sd)
    cov = make_cov(random.Random(case["cov_seed"]), gene, sd, case["indel_table"])
    real = run_real(gene, sols, cov)
    return gene, sd, sols, cov, real


def tie(ctx):
    r = lib.rng("c12")
    quick = ctx["tier"] == "quick"
    pool = gene_pool(r, quick)
    cases = []
    if ctx.get("replay") and "violation" in ctx["replay"] and "sols" in (ctx["replay"]["violation"].get("input") or {}):
        cases.append(ctx["replay"]["violation"]["input"])
    for fn, cj in lib.load_corpus(PID):
        cases.append(cj)
    while len(cases) < (250 if quick else 4000):
        cases.append(one_case(r, pool[len(cases) % len(pool)]))
    reqs, runs = [], []
    for c in cases:
        gene, sd, sols, cov, real = run_case(c)
        reqs.append(wire(gene, sd, sols, cov))
        runs.append((c, gene, sd, sols, cov, real))
    outs = lib.driver_batch(reqs)
    fam = {k: {"cases": 0, "disagreements": []} for k in ("decomposition", "vcf_records")}
    violations = []
    stats = collections.Counter()
    distinct = set()
    samples = []
    for (c, gene, sd, sols, cov, real), o in zip(runs, outs):
        fam["decomposition"]["cases"] += 1
        raised = [x[0] for x in real["decomp"] if x and x[0].startswith("RAISED ")]
        if raised:
            fam["decomposition"]["disagreements"].append({"why": f"write_decomposition raises {raised[0][7:]}", "input": c})
            violations.append({"why": f"write_decomposition raises {raised[0][7:]} for solutions with {[len(x) for x in sd]} copies", "input": c, "signature": "c12:writer_raises"})
            continue
        if o["decomp"] != real["decomp"]:
            fam["decomposition"]["disagreements"].append({"why": f"write_decomposition text differs from the model: {real['decomp'][0][:2]} vs {o['decomp'][0][:2]}", "input": c})
        fam["vcf_records"]["cases"] += 1
        if real.get("vcf_error"):
            fam["vcf_records"]["disagreements"].append({"why": f"write_vcf raises {real['vcf_error']}", "input": c})
            violations.append({"why": f"write_vcf raises {real['vcf_error']} for {len(sd)} solution(s) with {[len(x) for x in sd]} copies", "input": c, "signature": "c12:writer_raises"})
            continue
        mv = [{"pos": v["pos"], "id": v["id"], "ref": v["ref"], "alt": v["alt"], "effect": v["effect"], "cells": [":".join(x) for x in v["cells"]]} for v in o["vcf"]]
        rv = [{"pos": v["pos"], "id": v["id"], "ref": v["ref"], "alt": v["alt"], "effect": v["effect"], "cells": [":".join(x) for x in v["cells"]]} for v in real["vcf"]]
        if mv != rv:
            k = next((i for i, (a, b) in enumerate(zip(mv, rv)) if a != b), None)
            fam["vcf_records"]["disagreements"].append({"why": f"write_vcf records differ from the model: {rv[k] if k is not None else len(rv)} vs {mv[k] if k is not None else len(mv)}", "input": c})
        # parse-back in the model
        for s_desc, parsed in zip(sd, o["parsed"]):
            from aldy.gene import Mutation
            exp = [[mi, [[str(m.pos), m.op] for m in sorted((set(gene.alleles[ma].func_muts) | set(gene.alleles[ma].minors[mi].neutral_muts) | {Mutation(*x) for x in ad}) - {Mutation(*x) for x in ms})]] for ma, mi, ad, ms in s_desc]
            if parsed != exp:
                fam["decomposition"]["disagreements"].append({"why": "model parse-back of the decomposition does not recover the solution", "input": c})
        seen = set()
        for sig, why in oracle(gene, sd, sols, cov, real):
            if sig in seen:
                continue
            seen.add(sig)
            violations.append({"why": why, "input": c, "signature": sig})
            stats["oracle_" + sig] += 1
        stats["solutions_%d" % len(sd)] += 1
        stats["with_missing"] += any(c_[3] for s in sd for c_ in s)
        stats["with_added"] += any(c_[2] for s in sd for c_ in s)
        stats["with_indel_table"] += c["indel_table"]
        stats["records"] += len(real["vcf"])
        if sum(len(s) for s in sd) > 0:
            distinct.add(lib.canon_hash(c))
        if len(samples) < 3 and len(sd) > 1 and real["vcf"]:
            samples.append({"solutions": [[c_[:2] for c_ in s] for s in sd], "first_decomp_row": real["decomp"][0][:1], "first_vcf_record": real["vcf"][0]})
    # keep one violation per signature (all inputs of a class share the signature)
    first = {}
    for v in violations:
        first.setdefault(v["signature"], v)
    return {"families": fam, "violations": list(first.values()), "evaluations": len(cases), "distinct_nontrivial": len(distinct),
            "rule": "lists of 1-4 solutions x 0-4 copies (repeated majors/minors, novel added variants, lost variants, indels, solutions repeated verbatim) over toy, CYP2D6 and generated genes, random read support with/without an indel table; non-trivial = at least one copy; distinct by hash",
            "samples": samples, "stats": dict(stats)}


def search(ctx, hints):
    r = lib.rng("c12-search")
    pool = gene_pool(r, True)
    cases = [h["input"] for h in hints if "sols" in (h.get("input") or {})]
    while len(cases) < 400:
        cases.append(one_case(r, pool[len(cases) % len(pool)]))
    first = {}
    for c in cases:
        try:
            gene, sd, sols, cov, real = run_case(c)
        except Exception as e:
            first.setdefault("c12:crash", {"why": f"writer raised {type(e).__name__}: {e}", "input": c, "signature": "c12:crash"})
            continue
        for sig, why in oracle(gene, sd, sols, cov, real):
            first.setdefault(sig, {"why": why, "input": c, "signature": sig})
    return {"violations": list(first.values()), "cases_searched": len(cases)}
