#!/bin/bash
# sanity before a commit: the root module (all property files together) and the driver build; manifest and evidence are valid
cd "$(dirname "$0")/.." || exit 2
(cd lean && lake build Aldy driver 2>&1 | grep -E "^error|error:|Build completed" | tail -5)
python3 harness/manifest.py >/dev/null
python3-vt - <<'PY'
import json, jsonschema, glob
jsonschema.validate(json.load(open('MANIFEST.json')), json.load(open('/root/.vp/MANIFEST.schema.json')))
sch = json.load(open('/root/.vp/EVIDENCE.schema.json'))
bad = 0
for f in sorted(glob.glob('evidence/*.json')):
    e = json.load(open(f))
    try:
        jsonschema.validate(e, sch)
        c = e['coverage']
        assert c['obligations'] == c['discharged'] and e['violations'] == 0, (c['obligations'], c['discharged'], e['violations'])
    except Exception as ex:
        bad += 1
        print('BAD', f, str(ex)[:160])
print('manifest valid; evidence files bad:', bad)
PY
