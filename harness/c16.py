"""C16 - VCF genotypes are turned into matching evidence for every variant kind.

Tie:
  vcf_load : `Sample(gene, profile, vcf).coverage` for generated bgzip+tabix VCFs (catalogued
             variants as left-anchored records, GT in {0/0, 0/1, 1/1, 1/2, ./., half-missing ./1 1/. .|1 ./0, haploid}, phased or
             not, several samples, REF mismatches, unrelated and odd-shaped records) == Lean
             `loadVcf` + table assembly + Coverage constructor rule
Oracle (always on; the search): per catalogued variant and genotype the property's expectation -
support 10 x alternate copies, reference support 20 - 10 x copies at the site, 20 reference
elsewhere, nothing fails; a heterozygous catalogued allele is genotyped as reference/that allele.
"""
import collections
import os
import shutil

import pysam

import c06
import gen_gene
import instances
import lib
import sim

PID = "C16"
PROPS = ["Aldy.Props.C16"]
TRUSTED_EXTRA = ["pysam/htslib VCF reading, bgzip, tabix"]
ASSUMPTIONS = ["records are left-anchored (anchor base + change) as VCF writers emit them"]


def vcf_records_for(gene, m, style):
    """VCF record(s) [(pos1, ref, alt)] for catalogued variant m = (pos0, op)"""
    pos, op = m
    if ">" in op:
        l, r_ = op.split(">")
        if len(l) == 1:
            return [(pos + 1, l, r_)]
        full_ref = gene[pos:pos + len(l)]
        full_alt = "".join(y if x != "." else gene[pos + k] for k, (x, y) in enumerate(zip(l, r_)))
        if style == "adjacent":
            return [(pos + k + 1, x, y) for k, (x, y) in enumerate(zip(l, r_)) if x != "."]
        return [(pos + 1, full_ref, full_alt)]
    if op.startswith("ins"):
        a = gene[pos]
        return [(pos + 1, a, a + op[3:])]
    if op.startswith("del") and "ins" not in op[3:]:
        a = gene[pos - 1]
        return [(pos, a + op[3:], a)]
    d, i = op[3:].split("ins")
    a = gene[pos - 1]
    return [(pos, a + d, a + i)]


def kind_of(op):
    if ">" in op:
        return "snp" if len(op) == 3 else "mnp"
    if op.startswith("ins"):
        return "ins"
    return "delins" if "ins" in op[3:] else "del"


def write_vcf(path, records, samples):
    """records: list of (pos1, ref, [alts], {sample: gt string})"""
    txt = path[:-3]
    with open(txt, "w") as f:
        f.write("##fileformat=VCFv4.2\n##contig=<ID=20,length=300000>\n##FORMAT=<ID=GT,Number=1,Type=String,Description=\"GT\">\n")
        f.write("#CHROM\tPOS\tID\tREF\tALT\tQUAL\tFILTER\tINFO\tFORMAT\t" + "\t".join(samples) + "\n")
        for pos1, ref, alts, gts in sorted(records, key=lambda x: (x[0], x[1])):
            f.write(f"20\t{pos1}\t.\t{ref}\t{','.join(alts)}\t.\tPASS\t.\tGT\t" + "\t".join(gts[s] for s in samples) + "\n")
    pysam.tabix_compress(txt, path, force=True)
    pysam.tabix_index(path, preset="vcf", force=True)
    os.unlink(txt)


def gen_case(r, gdesc):
    gene, gid = instances.load_gene(gdesc)
    muts = list(gene.mutations)
    chosen = r.sample(muts, min(len(muts), r.randint(1, 5)))
    # at most one variant per position (two alts at one site are generated separately)
    bypos = {}
    for m in chosen:
        bypos.setdefault(m[0], m)
    recs = []
    expect = []
    nsamples = r.choice([1, 1, 2, 3])
    samples = [f"S{i}" for i in range(nsamples)]
    idx = r.randrange(nsamples)
    used_pos = set()
    for m in bypos.values():
        style = r.choice(["one", "adjacent"])
        vr = vcf_records_for(gene, m, style)
        if any(p in used_pos for p, _, _ in vr):
            continue
        if m[1].startswith("del") and "ins" not in m[1] and r.random() < 0.35:
            # a deletion record written against a reference that differs from aldy's in one of the DELETED bases (another
            # assembly patch, a neighbouring SNP of the caller's reference): it still is the catalogued deletion
            vr2 = []
            for p_, ref_, alt_ in vr:
                if len(ref_) > len(alt_) and len(ref_) >= 2:
                    j_ = r.randrange(1, len(ref_))
                    ref_ = ref_[:j_] + r.choice([c for c in "ACGT" if c != ref_[j_]]) + ref_[j_ + 1:]
                    style = "deleted_bases_differ_from_reference"
                vr2.append((p_, ref_, alt_))
            vr = vr2
        # (half-missing calls `./1`, `1/.`, `.|1` - decomposed multi-allelic records, merged call sets - are incomplete: ignored)
        gt = r.choice(["0/0", "0/1", "1/1", "0|1", "1|0", "1|1", "./.", "1", "0/1/1", "./1", "1/.", ".|1", "./0"])
        copies = {"0/0": 0, "0/1": 1, "1/1": 2, "0|1": 1, "1|0": 1, "1|1": 2}.get(gt)
        for p, ref, alt in vr:
            used_pos.add(p)
            gts = {s: (gt if s == samples[idx] else r.choice(["0/0", "0/1", "1/1", "./."])) for s in samples}
            recs.append((p, ref, [alt], gts))
        expect.append({"m": [m[0], m[1]], "kind": kind_of(m[1]), "style": style, "copies": copies})
    # two alternate alleles at one catalogued SNP site (1/2)
    snps = [m for m in muts if ">" in m[1] and len(m[1]) == 3 and (m[0] + 1) not in used_pos]
    if snps and r.random() < 0.3:
        m = r.choice(snps)
        other = r.choice([c for c in "ACGT" if c not in (m[1][0], m[1][2])])
        used_pos.add(m[0] + 1)
        recs.append((m[0] + 1, m[1][0], [m[1][2], other], {s: ("1/2" if s == samples[idx] else "0/0") for s in samples}))
        expect.append({"m": [m[0], m[1]], "kind": "snp", "style": "multiallelic", "copies": 1})
    # a catalogued SNP X>Y written against a reference that already carries Y (REF = Y, ALT = X): every REF allele of
    # the genotype is a copy of the variant, every ALT allele a copy of aldy's reference
    snps = [m for m in muts if ">" in m[1] and len(m[1]) == 3 and (m[0] + 1) not in used_pos and gene[m[0]] == m[1][0]]
    if snps and r.random() < 0.4:
        m = r.choice(snps)
        gt = r.choice(["0/0", "0/0", "0|0", "0/1", "1/1", "1|0"])
        used_pos.add(m[0] + 1)
        recs.append((m[0] + 1, m[1][2], [m[1][0]], {s: (gt if s == samples[idx] else r.choice(["0/0", "0/1", "1/1"])) for s in samples}))
        expect.append({"m": [m[0], m[1]], "kind": "snp", "style": "swapped_reference", "copies": gt.count("0")})
    # unrelated and odd records
    lo, hi = min(gene.chr_to_ref), max(gene.chr_to_ref)
    for _ in range(r.randint(0, 4)):
        p = r.randint(lo + 2, hi - 6)
        if any(abs(p + 1 - q) <= 3 for q in used_pos):
            continue
        used_pos.add(p + 1)
        shape = r.choice(["snp", "complex", "mnp", "refmismatch", "symbolic_like"])
        ref = gene[p]
        if shape == "snp":
            alt = r.choice([c for c in "ACGT" if c != ref])
            recs.append((p + 1, ref, [alt], {s: r.choice(["0/1", "1/1", "0/0"]) for s in samples}))
        elif shape == "complex":
            recs.append((p + 1, gene[p:p + 3], [r.choice("ACGT") + r.choice("ACGT")], {s: r.choice(["0/1", "1/1"]) for s in samples}))
        elif shape == "mnp":
            alt = "".join(r.choice([c for c in "ACGT" if c != x]) for x in gene[p:p + 2])
            recs.append((p + 1, gene[p:p + 2], [alt], {s: r.choice(["0/1", "1/1"]) for s in samples}))
        elif shape == "refmismatch":
            wrong = r.choice([c for c in "ACGT" if c != ref])
            alt = r.choice([c for c in "ACGT" if c not in (ref, wrong)])
            recs.append((p + 1, wrong, [alt], {s: r.choice(["0/1", "0/0", "1/1"]) for s in samples}))
        else:
            recs.append((p + 1, ref, [ref + "A", r.choice([c for c in "ACGT" if c != ref])], {s: r.choice(["1/2", "0/2"]) for s in samples}))
    return {"gene": gdesc, "records": [[p, ref, alts, gts] for p, ref, alts, gts in recs], "samples": samples, "sample_idx": idx, "expect": expect}


def parse_gt(gt):
    out = []
    for x in gt.replace("|", "/").split("/"):
        out.append(None if x == "." else int(x))
    return out


def run_case(d, case, k):
    from aldy.profile import Profile
    from aldy.sam import Sample
    gene, gid = instances.load_gene(case["gene"])
    path = os.path.join(d, f"v{k}.vcf.gz")
    write_vcf(path, [(p, ref, alts, gts) for p, ref, alts, gts in case["records"]], case["samples"])
    prof = Profile("user_provided", cn_solution=["1", "1"], vcf_sample_idx=case["sample_idx"])
    try:
        smp = Sample(gene, prof, path)
    except Exception as e:
        return gene, None, f"{type(e).__name__}: {e}", path
    return gene, smp, None, path


def real_counts(smp):
    t = {}
    for p, ops in smp.coverage._coverage.items():
        for op, l in ops.items():
            t[(p, op)] = len(l)
    return t


def oracle(case, gene, smp, err):
    why = []
    if smp is None:
        return [("c16:failed_run", f"loading the VCF failed: {err}")]
    cov = smp.coverage
    from aldy.gene import Mutation
    touched = set()
    for e in case["expect"]:
        pos, op = e["m"]
        m = Mutation(pos, op)
        copies = e["copies"]
        touched.add(pos)
        if ">" in op and len(op) > 3:
            for k_ in range(len(op.split(">")[0])):
                touched.add(pos + k_)
        if copies is None:
            copies = 0  # missing / non-diploid genotypes are ignored
        got = cov[m]
        if got != 10 * copies:
            sig = {"ins": "c16:insertion_no_support", "mnp": f"c16:mnp_{'one_record' if e['style'] == 'one' else 'adjacent'}_no_support",
                   "delins": "c16:delins_no_support"}.get(e["kind"], "c16:wrong_support_" + e["kind"])
            if got > 10 * copies:
                sig = "c16:excess_support_" + e["kind"]
            why.append((sig, f"{e['kind']} {m} written as {e['style']} record(s) with {copies} alternate copies gets support {got}, expected {10 * copies}"))
        elif e["kind"] in ("snp", "del") and copies is not None:
            refpos = pos
            ref = cov[Mutation(refpos, "_")]
            others = sum(len(v) for o, v in cov._coverage.get(refpos, {}).items() if o not in ("_", op) and o[:3] != "ins")
            if ref + others != 20 - 10 * copies:
                why.append(("c16:reference_support", f"{m} with {copies} copies: reference support at the site is {ref}, expected {20 - 10 * copies}"))
    lo, hi = min(gene.chr_to_ref), max(gene.chr_to_ref)
    recpos = set()
    for p, ref, alts, gts in case["records"]:
        for k_ in range(-1, len(ref) + 1):
            recpos.add(p - 1 + k_)
    for p in range(lo, hi + 1):
        if p not in recpos and p not in touched:
            if cov[Mutation(p, "_")] != 20 or len(cov._coverage.get(p, {})) != 1:
                why.append(("c16:homref_default", f"position {p} without a record has {dict((o, len(v)) for o, v in cov._coverage.get(p, {}).items())}, expected 20 reference observations"))
                break
    return why


def genotype_oracle(r, gdesc, d, k):
    """a VCF carrying one catalogued allele heterozygously is genotyped as reference/that allele"""
    from aldy.genotype import genotype
    from aldy.common import AldyException
    gene, gid = instances.load_gene(gdesc)
    cands = [(an, a) for an, a in gene.alleles.items() if a.cn_config == "1" and a.func_muts and an != "1"]
    if not cands or "1" not in gene.alleles:
        return None
    an, a = r.choice(cands)
    mn = r.choice(list(a.minors))
    ms = sorted(set(a.func_muts) | set(a.minors[mn].neutral_muts))
    if len({m.pos for m in ms}) < len(ms):
        return None
    # several samples in the file, the carrier at a random column (selected with vcf_sample_idx through genotype())
    samples = ["S0", "S1", "S2"][:r.choice([1, 3, 3])]
    idx = r.randrange(len(samples))
    recs = []
    for m in ms:
        for p, ref, alt in vcf_records_for(gene, (m.pos, m.op), "one"):
            recs.append((p, ref, [alt], {s_: ("0/1" if s_ == samples[idx] else r.choice(["0/0", "1/1"])) for s_ in samples}))
    if len({p for p, _, _, _ in recs}) < len(recs):
        return None
    path = os.path.join(d, f"g{k}.vcf.gz")
    write_vcf(path, recs, samples)
    ypath = os.path.join(d, f"g{k}.yml")
    with open(ypath, "w") as f:
        f.write(gdesc["yaml"])
    kinds = sorted({kind_of(m.op) for m in ms})
    try:
        res = genotype(ypath, path, None, output_file=None, genome=gdesc["genome"], **({"vcf_sample_idx": r.choice([idx, str(idx)])} if len(samples) > 1 else {}))
        dips = [s.get_major_diplotype() for s in list(res.values())[0]]
    except AldyException as e:
        dips = ["ERROR: " + str(e)[:60]]
    except Exception as e:  # anything else is a failed run
        return {"allele": an, "minor": mn, "kinds": kinds, "diplotypes": [f"CRASH {type(e).__name__}: {e}"], "ok": False, "crash": True}
    want = {f"*1 / *{an.split('#')[0]}", f"*{an.split('#')[0]} / *1"}
    ok = any(x in want for x in dips)
    return {"allele": an, "minor": mn, "kinds": kinds, "diplotypes": dips, "ok": ok}


def tie(ctx):
    r = lib.rng("c16")
    quick = ctx["tier"] == "quick"
    genes = [{"kind": "generated", "genome": r.choice(["hg19", "hg38"]), "yaml": gen_gene.gen_gene(r, offsets=(10000, 20000), pseudogene=r.random() < 0.3)}
             for _ in range(12 if quick else 120)]
    cases = []
    if ctx.get("replay") and "violation" in ctx["replay"] and "records" in (ctx["replay"]["violation"].get("input") or {}):
        cases.append(ctx["replay"]["violation"]["input"])
    for fn, cj in lib.load_corpus(PID):
        cases.append(cj)
    while len(cases) < (120 if quick else 1500):
        cases.append(gen_case(r, genes[len(cases) % len(genes)]))
    d = sim.scratch_dir()
    reqs, metas = [], []
    violations = []
    stats = collections.Counter()
    try:
        for k, case in enumerate(cases):
            gene, smp, err, path = run_case(d, case, k)
            for sig, w in oracle(case, gene, smp, err):
                violations.append({"why": w, "input": case, "signature": sig})
            for e in case["expect"]:
                stats[f"variant_{e['kind']}_{e['style']}"] += 1
            stats["records"] += len(case["records"])
            if smp is None:
                stats["failed_runs"] += 1
                continue
            recs = []
            for p, ref, alts, gts in case["records"]:
                recs.append({"pos0": p - 1, "ref": ref, "alts": alts, "gt": parse_gt(gts[case["samples"][case["sample_idx"]]])})
            recs.sort(key=lambda x: (x["pos0"], x["ref"]))
            reqs.append({"op": "vcf_load", "locus": c06.locus_view(gene), "records": recs, "indel_table_truthy": bool(smp._indel_sites)})
            metas.append((case, real_counts(smp)))
        for k, gd in enumerate(genes[: (8 if quick else 60)]):
            for rep in range(2):
                g = genotype_oracle(r, gd, d, f"{k}_{rep}")
                if g is None:
                    continue
                stats["genotyped_het_alleles"] += 1
                if not g["ok"]:
                    kinds = set(g["kinds"])
                    if g.get("crash"):
                        violations.append({"why": f"genotyping a VCF carrying *{g['allele']} fails: {g['diplotypes'][0]}", "input": {"gene": gd, "allele": g["allele"]}, "signature": "c16:failed_run"})
                        continue
                    sig = "c16:het_allele_not_called_" + ("ins" if "ins" in kinds else "mnp" if "mnp" in kinds else "delins" if "delins" in kinds else "plain")
                    violations.append({"why": f"VCF carrying *{g['allele']} ({g['minor']}; variant kinds {g['kinds']}) heterozygously is genotyped as {g['diplotypes']}", "input": {"gene": gd, "allele": g["allele"]}, "signature": sig})
    finally:
        shutil.rmtree(d, ignore_errors=True)
    outs = lib.driver_batch(reqs)
    fam = {"vcf_load": {"cases": 0, "disagreements": []}}
    distinct = set()
    samples = []
    for (case, real), o in zip(metas, outs):
        fam["vcf_load"]["cases"] += 1
        model = {(p, op): n for p, op, n in o}
        if model != real:
            kk = [x for x in sorted(set(model) | set(real)) if model.get(x) != real.get(x)][:3]
            fam["vcf_load"]["disagreements"].append({"why": f"coverage from the VCF differs from the model at {kk}: impl {[real.get(x) for x in kk]} model {[model.get(x) for x in kk]}", "input": case})
        distinct.add(lib.canon_hash(case["records"]))
        if len(samples) < 2 and case["expect"]:
            samples.append({"records": case["records"][:3], "expect": case["expect"][:3]})
    firstv = {}
    for v in violations:
        firstv.setdefault(v["signature"], v)
    return {"families": fam, "violations": list(firstv.values()), "evaluations": len(cases), "distinct_nontrivial": len(distinct),
            "rule": "generated genes (both strands) x VCFs with 1-5 catalogued variants (SNP, MNP as one record or adjacent records, insertion, deletion, deletion-insertion; left-anchored) under genotypes 0/0,0/1,1/1,1/2, phased, missing, haploid, triploid; 1-3 samples with a chosen sample index; unrelated SNPs, complex and MNP records, REF mismatches, multi-allelic odd records; plus whole-allele heterozygous VCFs through genotype(); distinct by hash of the record list",
            "samples": samples, "stats": dict(stats)}


def search(ctx, hints):
    res = tie({**ctx, "tier": "quick"})
    return {"violations": res["violations"], "cases_searched": res["evaluations"]}
