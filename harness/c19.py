"""C19 - no genotype is reported from no data.

Ties:
  guard_table : outcome class of the real `Sample(...)` + `genotype()` on simulated BAMs
                (normal / no reads in the locus / low depth / empty neutral region / reads on the
                pseudogene only) x (profile from BAM | user-supplied structure) x (no output file |
                simple output) == Lean `guard` evaluated on the inputs measured from the real objects
  guard_shape : the shape of the average-depth guard in genotype.py is regenerated into
                Const.GUARD_REQUIRES_CN_REGION (theorem guard_independent_of_structure_source)
Oracle (always on; also the search): the property's clauses on the real outcome.
"""
import collections
import os
import shutil
from fractions import Fraction

import gen_gene
import lib
import sim

PID = "C19"
PROPS = ["Aldy.Props.C19"]
TRUSTED_EXTRA = ["pysam/htslib BAM writing, sorting, indexing and fetch", "the read simulator harness/sim.py", "indelpost (database-indel realignment) as a library"]
ASSUMPTIONS = ["with a user-supplied structure no neutral region is consulted, so 'empty neutral region' is judged only when the structure is estimated"]

SCENARIOS = ["normal", "no_locus_reads", "low_depth", "empty_neutral", "low_neutral", "pseudogene_only"]


def make_gene(r):
    few = r.random() < 0.5
    y = gen_gene.gen_gene(r, pseudogene=True, deletion=True, fusions=r.choice([0, 1]), offsets=(10000, 20000), allow_mnp=False,
                          n_exons=4 if few else None)
    if few:
        # only a few regions distinguish gene from pseudogene (as in CYP2D6: 11 of 23), so that the low-depth guard of the
        # copy-number stage works near its threshold
        import yaml
        doc = yaml.safe_load(y)
        cnr = doc["structure"]["cn_regions"]
        k = r.randint(2, 3)
        i = r.randint(0, len(cnr) - k)
        doc["structure"]["cn_regions"] = cnr[i:i + k]
        y = yaml.safe_dump(doc, sort_keys=False, default_flow_style=None)
    return y


def classify_error(msg):
    if "has no reads" in msg:
        return "empty_neutral"
    if "Invalid CN-neutral" in msg:
        return "invalid_profile"
    if "average coverage of the sample is too low" in msg:
        return "low_neutral_depth"
    if "Average coverage of" in msg and "too low" in msg:
        return "low_average_depth"
    if "too low for copy number calling" in msg:
        return "cn_too_low"
    return "other:" + msg[:60]


def run_scenario(d, y, scenario, user_structure, simple, r, idx):
    from aldy.common import GRange, AldyException
    from aldy.genotype import genotype
    from aldy.profile import Profile
    from aldy import sam as samm
    g = gen_gene.load(y, "hg19")
    cnr = GRange("20", 60000, 60400)
    ypath = os.path.join(d, f"g{idx}.yml")
    with open(ypath, "w") as f:
        f.write(y)
    prof_bam = os.path.join(d, f"prof{idx}.bam")
    if not os.path.exists(prof_bam):
        ref = sim.simulate_reads(g, [("1", "1.001"), ("1", "1.001")], depth=12) + sim.neutral_reads(cnr, 24)
        sim.write_bam(prof_bam, ref, length=sim.chrom_length_for(g))
    majors = [a for a, al in g.alleles.items() if al.cn_config == "1"]
    a1 = r.choice(majors)
    m1 = r.choice(list(g.alleles[a1].minors))
    copies = [("1", "1.001"), (a1, m1)]
    dele = g.deletion_allele()
    if scenario == "normal":
        reads = sim.simulate_reads(g, copies, depth=12) + sim.neutral_reads(cnr, 24)
    elif scenario == "no_locus_reads":
        reads = sim.neutral_reads(cnr, 24)
    elif scenario == "low_depth":
        reads = sim.simulate_reads(g, copies, depth=r.choice([0, 1])) + sim.neutral_reads(cnr, 24)
        if not [x for x in reads if x["name"].startswith("r")]:
            reads = reads + sim.simulate_reads(g, copies[:1], depth=1)
    elif scenario == "empty_neutral":
        reads = sim.simulate_reads(g, copies, depth=12)
    elif scenario == "low_neutral":
        reads = sim.simulate_reads(g, copies, depth=12) + sim.neutral_reads(cnr, 1)
    else:  # pseudogene_only: two deletion haplotypes = pseudogene reads only
        reads = sim.simulate_reads(g, [(dele, list(g.alleles[dele].minors)[0])] * 2, depth=12) + sim.neutral_reads(cnr, 24)
    bam = os.path.join(d, f"s{idx}_{scenario}.bam")
    if scenario != "normal" and r.random() < 0.5:
        # history: a well-covered sample was genotyped from this very path earlier in the process; the file is then
        # replaced - nothing remembered from the first run may stand in for the data of the second
        good = sim.simulate_reads(g, copies, depth=12) + sim.neutral_reads(cnr, 24)
        sim.write_bam(bam, good, length=sim.chrom_length_for(g))
        try:
            genotype(ypath, bam, None if user_structure else prof_bam, output_file=None, cn_region=None if user_structure else cnr,
                     cn_solution=["1", "1"] if user_structure else None, genome="hg19")
        except AldyException:
            pass
    decoy = scenario in ("no_locus_reads", "low_depth") and idx % 2 == 0
    if decoy:
        # the same coordinates on ANOTHER contig are well covered, and the file is a plain-text SAM (no index: the reader walks
        # through every contig): reads of other contigs are not reads of the locus
        other = [dict(x, ref_id=1, name="d" + x["name"]) for x in sim.simulate_reads(g, copies, depth=12)]
        sim.write_bam(bam, reads + other, length=sim.chrom_length_for(g), header_extra=[{"SN": "21", "LN": sim.chrom_length_for(g)}])
        import pysam
        sam_txt = bam[:-4] + ".sam"
        pysam.view("-h", "-o", sam_txt, bam, catch_stdout=False)
        bam = sam_txt
    else:
        sim.write_bam(bam, reads, length=sim.chrom_length_for(g))
    cn_solution = ["1", "1"] if user_structure else None
    if user_structure and scenario == "pseudogene_only":
        cn_solution = [dele, dele]
    # measure the guard inputs on the real objects, the way genotype() builds them
    meas = {"kind_vcf": False, "has_cn_region": not user_structure, "neutral_len": 400, "min_avg_cov": 2}
    sample_err = None
    try:
        if user_structure:
            profile = Profile("user_provided", cn_solution=cn_solution)
        else:
            profile = Profile.load(g, prof_bam, cnr)
        meas["min_avg_cov"] = lib.frac(float(profile.min_avg_coverage))
        meas["neutral_value"] = lib.frac(float(profile.neutral_value))
        try:
            s = samm.Sample(g, profile, bam)
        except AldyException as e:
            sample_err = classify_error(str(e))
            # rebuild without normalisation to read the raw numbers
            p2 = Profile("measure", cn_solution=["1", "1"])
            s = samm.Sample(g, p2, bam)
            if not user_structure:
                s._dump_cn = s._load_cn_region(bam, None, cnr)
        avg = float(s.coverage.average_coverage())
        if avg != avg or avg in (float("inf"), float("-inf")):
            meas["avg_not_a_number"] = repr(avg)
            avg = 0.0
        meas["avg_cov"] = lib.frac(avg)
        cnv = s._dump_cn if not user_structure else {}
        meas["neutral_sum"] = lib.frac(sum(cnv.get(i, 0) for i in range(cnr.start, cnr.end)))
    except Exception as e:
        return {"harness_error": f"{type(e).__name__}: {e}"}
    if idx % 2 == 1:
        # history: an exome-profile run of the same database earlier in the process (it switches copy-number calling off
        # for that run only); whatever it answers is ignored
        try:
            genotype(ypath, bam, "exome", output_file=None, genome="hg19")
        except Exception:
            pass
    out_path = os.path.join(d, f"o{idx}_{scenario}.simple") if simple else None
    outcome = {}
    fh = open(out_path, "w") if out_path else None
    try:
        res = genotype(ypath, bam, None if user_structure else prof_bam, output_file=fh, cn_region=None if user_structure else cnr,
                       cn_solution=cn_solution, genome="hg19")
        sols = list(res.values())[0]
        outcome = {"kind": "call", "diplotypes": [s_.get_major_diplotype() for s_ in sols],
                   "structures": [dict(s_.major_solution.cn_solution.solution) for s_ in sols]}
    except AldyException as e:
        outcome = {"kind": "error", "class": classify_error(str(e)), "msg": str(e)[:120]}
    finally:
        if fh:
            fh.close()
    if out_path:
        with open(out_path) as f:
            outcome["simple_text"] = f.read()
    # database class: fewer than a quarter of the regions of a gene copy distinguish gene from pseudogene
    few_unique = len(g.regions) > 1 and 4 * len(g.unique_regions) < len(g.regions[1])
    return {"meas": meas, "outcome": outcome, "sample_err": sample_err, "dele": dele, "gene_name": g.name, "few_unique": few_unique, "decoy_sam": decoy,
            "sample_name": os.path.basename(bam).split(".")[0]}


def shipped_deletion_case(d):
    """CYP2D6 (the RefSeq record covers the gene only, the pseudogene CYP2D7 lies outside it): reads over the pseudogene
    and the neutral region only = both gene copies deleted; must be called *5/*5, not rejected"""
    import views
    from aldy.common import GRange, AldyException
    from aldy.genotype import genotype
    g = views.shipped_gene("cyp2d6", "hg19")
    cnr = GRange("22", 42547463, 42548249)
    dele = g.deletion_allele()
    first = sorted(g.alleles["1"].minors)[0]
    L = 51304566
    pbam = os.path.join(d, "ship_prof.bam")
    sim.write_bam(pbam, sim.simulate_reads(g, [("1", first)] * 2, depth=10, read_len=100, name_prefix="p") + sim.neutral_reads(cnr, 20, read_len=100), chrom="22", length=L)
    sbam = os.path.join(d, "ship_del.bam")
    sim.write_bam(sbam, sim.simulate_reads(g, [(dele, sorted(g.alleles[dele].minors)[0])] * 2, depth=10, read_len=100, name_prefix="s") + sim.neutral_reads(cnr, 20, read_len=100),
                  chrom="22", length=L)
    try:
        res = genotype("cyp2d6", sbam, pbam, output_file=None, cn_region=cnr, genome="hg19")
        sols = list(res.values())[0]
        structs = [dict(s_.major_solution.cn_solution.solution) for s_ in sols]
        if not all(set(st) <= {dele} for st in structs):
            return f"CYP2D6 sample with reads over the pseudogene only is called as {structs[:2]} instead of a whole-gene deletion"
    except AldyException as e:
        return f"CYP2D6 sample with reads over the pseudogene only (both gene copies deleted) is not called: {str(e)[:100]}"
    return None


def oracle(case, res):
    why = []
    sc, user = case["scenario"], case["user_structure"]
    o = res["outcome"]
    must_fail = sc in ("no_locus_reads", "low_depth") or (sc in ("empty_neutral", "low_neutral") and not user)
    if must_fail:
        if o["kind"] != "error":
            why.append(f"scenario {sc} ({'user-supplied' if user else 'estimated'} structure): star-alleles {o.get('diplotypes')} reported from no/insufficient data")
        elif case["simple"] and o.get("simple_text") != f"{res['sample_name']}\t{res['gene_name']}\t\n":
            why.append(f"SIMPLE-LINE scenario {sc}: simple output is {o.get('simple_text')!r}, expected an empty result line")
    if sc == "pseudogene_only" and not user:
        if o["kind"] != "call":
            why.append(f"pseudogene-only sample is not called ({o.get('class')})")
        elif not all(set(st) <= {res["dele"]} for st in o["structures"]):
            why.append(f"pseudogene-only sample is called as {o['structures']} instead of a whole-gene deletion")
    if sc == "normal" and o["kind"] != "call":
        why.append(f"normal sample rejected: {o.get('msg')}")
    return why


def tie(ctx):
    r = lib.rng("c19")
    quick = ctx["tier"] == "quick"
    d = sim.scratch_dir()
    cases = []
    ngenes = 5 if quick else 40
    genes = [make_gene(r) for _ in range(ngenes)]
    # genes without any structural allele (no copy-number model: two copies are assumed): the guards hold for them too
    n_plain = 1 if quick else 8
    genes += [gen_gene.gen_gene(r, pseudogene=False, deletion=False, fusions=0, custom=False, offsets=(10000, 20000), allow_mnp=False) for _ in range(n_plain)]
    for gi, y in enumerate(genes):
        for sc in SCENARIOS:
            if sc == "pseudogene_only" and gi >= ngenes:
                continue
            for user in (False, True):
                cases.append({"gene_index": gi, "scenario": sc, "user_structure": user, "simple": r.random() < 0.5})
    reqs, results = [], []
    try:
        for c in cases:
            res = run_scenario(d, genes[c["gene_index"]], c["scenario"], c["user_structure"], c["simple"], r, c["gene_index"])
            results.append(res)
            if "meas" in res:
                reqs.append({"op": "guard", **res["meas"]})
        ship_why = shipped_deletion_case(d)
    finally:
        shutil.rmtree(d, ignore_errors=True)
    outs = lib.driver_batch(reqs)
    fam = {"guard_table": {"cases": 0, "disagreements": []}}
    violations = []
    if ship_why:
        violations.append({"why": ship_why, "input": {"gene": "cyp2d6", "genome": "hg19", "sample": "two whole-gene deletions, simulated"}, "signature": "c19:pseudogene_only:shipped"})
    stats = collections.Counter()
    k = 0
    distinct = set()
    samples = []
    for c, res in zip(cases, results):
        inp = {"scenario": c["scenario"], "user_structure": c["user_structure"], "simple": c["simple"], "gene_yaml": genes[c["gene_index"]]}
        if "harness_error" in res:
            raise lib.ToolTrouble("simulation failed: " + res["harness_error"])
        o = outs[k]
        k += 1
        fam["guard_table"]["cases"] += 1
        real = res["outcome"]
        real_cls = "proceed" if real["kind"] == "call" or real.get("class") in ("cn_too_low",) or str(real.get("class", "")).startswith("other") else real["class"]
        if res["meas"].get("avg_not_a_number"):
            fam["guard_table"]["disagreements"].append({"why": f"scenario {c['scenario']}: the average depth the implementation computes is {res['meas']['avg_not_a_number']}, not a number the guard can compare (the model's depth is a rational)", "input": inp})
        elif o["out"] != real_cls:
            fam["guard_table"]["disagreements"].append({"why": f"scenario {c['scenario']} (user_structure={c['user_structure']}): implementation {real_cls} ({real.get('msg', real.get('diplotypes'))}), model guard says {o['out']} on {res['meas']}", "input": inp})
        why = oracle(c, res)
        if why:
            sig = f"c19:{c['scenario']}:{'user' if c['user_structure'] else 'estimated'}"
            if c["scenario"] == "pseudogene_only" and res.get("few_unique") and real.get("class") == "cn_too_low":
                sig += ":few_unique_regions"
            if why[0].startswith("SIMPLE-LINE") and res.get("sample_err"):
                sig = "c19:simple_line_missing:error_while_loading_sample"
            violations.append({"why": why[0], "input": inp, "observed": real, "signature": sig})
        stats[f"{c['scenario']}:{'user' if c['user_structure'] else 'est'}:{real_cls if real['kind']=='error' else 'call'}"] += 1
        distinct.add(lib.canon_hash({k2: v for k2, v in inp.items()}))
        if len(samples) < 4 and real["kind"] == "error":
            samples.append({"scenario": c["scenario"], "user_structure": c["user_structure"], "measured": res["meas"], "outcome": real})
    return {"families": fam, "violations": violations, "evaluations": len(cases), "distinct_nontrivial": len(distinct),
            "rule": "generated genes (pseudogene + deletion allele, half of them with only 2-3 copy-number regions; plus genes without any structural allele) x {normal, no reads in locus, depth 0-1, empty neutral region, pseudogene-only reads} x {profile from BAM, user-supplied structure} x {no output, simple output}; simulated error-free BAMs; every case non-trivial; distinct by hash",
            "samples": samples, "stats": dict(stats)}


def search(ctx, hints):
    res = tie({**ctx, "tier": "quick"})
    return {"violations": res["violations"], "cases_searched": res["evaluations"]}
