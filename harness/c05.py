"""C05 - the ILP layer returns true optima and exact linearisations.

Ties:
  shape_structure : the model the real CBC wrapper holds after addVar/addConstr/abssum/prod/
                    setObjective equals Lean `Shape.toIlp` (variables, bounds, constraint
                    multiset, objective) - so prod/abs gadget theorems speak about the real rows
  valid_run       : the real trace of `model.solutions(gap, limit=..)` is an execution of the
                    Lean `Run` relation on the exhaustive point set (`validRun`), the objective
                    reported per point equals the model objective, helper variables read back
                    with getValue equal |error| / AND
  escape_name     : names given by the shared counter equal Lean `escapeSeq`
Search: independent Python oracle = brute force over all binary assignments with the
closed-form objective; clause-by-clause check of the property statement on the real trace.
"""
import itertools
from fractions import Fraction

import lib
import lp

PID = "C05"
PROPS = ["Aldy.Props.C05"]
TRUSTED_EXTRA = ["CBC is assumed to return a global optimum with status OPTIMAL (premise `IsArgmin` of `Run`); the valid_run tie tests that premise on every generated model by exhaustive enumeration"]
ASSUMPTIONS = ["0 < SOLVER_PRECISON (proved from the generated constant)", "models of the shape aldy builds (binaries, error equalities, abs/prod gadgets)"]

WEIRD = ["A_1.001_0", "N_12.A>G", "X#2_0", "A_4-b_1", "K.1", "K1", "A_1001_0", "Z>", "Z"]


def gen_shape(r, small=False):
    n = r.randint(2, 5 if small else 8)
    if r.random() < 0.15:
        pool = r.sample(WEIRD, min(n, len(WEIRD)))
        bins = pool + [f"b{i}" for i in range(n - len(pool))]
    else:
        bins = [f"b{i}" for i in range(n)]
    raw_bins = list(bins)
    rows = []
    for _ in range(r.randint(1, 5)):
        k = r.randint(0, min(4, n))
        vs = r.sample(range(n), k)
        sym = r.random() < 0.5
        terms = [(1 if sym else r.choice([-2, -1, 1, 1, 1, 2, 3]), v) for v in vs]
        target = Fraction(r.randint(-4, 16), 4)
        weight = r.choice([Fraction(1), Fraction(1), Fraction(2), Fraction(1, 2), Fraction(0)])   # 0: a penalty switched off (e.g. cn_pce_penalty=0)
        bound = r.choice([None, None, Fraction(2), Fraction(20)])
        rows.append({"terms": terms, "target": target, "weight": weight, "bound": bound})
    cons = []
    if r.random() < 0.4:  # cardinality equality
        k = r.randint(1, n)
        vs = r.sample(range(n), k)
        c = r.randint(0, k)
        cons.append({"terms": [(1, v) for v in vs], "sense": "le", "rhs": Fraction(c)})
        cons.append({"terms": [(1, v) for v in vs], "sense": "ge", "rhs": Fraction(c)})
    if r.random() < 0.3:  # ordering chain
        vs = r.sample(range(n), r.randint(2, min(4, n)))
        for a, b in zip(vs[1:], vs):
            cons.append({"terms": [(1, a), (-1, b)], "sense": "le", "rhs": Fraction(0)})
    if r.random() < 0.15:
        vs = r.sample(range(n), r.randint(1, n))
        cons.append({"terms": [(1, v) for v in vs], "sense": "le", "rhs": Fraction(r.randint(0, len(vs)))})
    if r.random() < 0.08:
        # a side constraint over NO variable (a Python sum over an empty selection compared with a constant, as
        # `sum(...) >= count` in solve_major_model when no candidate allele has a configuration): constant true or false
        cons.append({"terms": [], "sense": r.choice(["le", "ge"]), "rhs": Fraction(r.choice([-1, 0, 1]))})
    prods = []
    if n >= 3 and r.random() < 0.5:
        used = set()
        for _ in range(r.randint(1, 2)):
            cand = [i for i in range(n) if i not in used]
            if len(cand) < 2:
                break
            res = r.choice(cand)
            fs = r.sample([i for i in range(n) if i != res], r.randint(1, min(3, n - 1)))
            used.add(res)
            prods.append((res, fs))
    lin = [(r.choice([Fraction(1, 10), Fraction(3, 2), Fraction(1), Fraction(21), Fraction(1, 2), Fraction(1, 250), Fraction(1, 2000), Fraction(1001, 1000)]), v)
           for v in r.sample(range(n), r.choice([0, 0, r.randint(0, n)]))]
    gap = r.choice([Fraction(0), Fraction(0), Fraction(1, 10), Fraction(1, 2)])
    limit = r.choice([None, None, None, 1, 3])
    # general integers (a documented variable type of the interface; aldy's own models have none): index n + j in terms.
    # They take part in rows, side constraints and the objective but are not binaries: never part of a yielded assignment
    ints = []
    if r.random() < 0.25:
        for j in range(r.randint(1, 2)):
            ints.append((f"g{j}", r.randint(2, 3)))
            v = n + j
            row = r.choice(rows)
            row["terms"] = list(row["terms"]) + [(r.choice([1, 1, -1]), v)]
            if r.random() < 0.5:
                lin = lin + [(r.choice([Fraction(1, 10), Fraction(1, 2), Fraction(1)]), v)]
            if r.random() < 0.4:
                b = r.randrange(n)
                cons.append({"terms": [(1, b), (-1, v)], "sense": "le", "rhs": Fraction(0)})   # b <= g
    # a fifth of the models are built in two stages on one model object: the first `staged` binaries, a look at the optimum
    # of that part (`solutions(limit=1)`, which adds no cut), then the rest of the model, then the enumeration that is judged
    staged = r.randint(1, n) if r.random() < 0.2 else None
    return {"raw_bins": raw_bins, "rows": rows, "cons": cons, "prods": prods, "lin": lin, "gap": gap, "limit": limit, "ints": ints,
            "staged": staged}


def build_real(shape):
    """build the model through the real wrapper API; returns (cbc, names, E vars)"""
    from aldy import lpinterface
    m = lpinterface.model("verif", "cbc")
    k0 = shape.get("staged")
    if k0:
        V = [m.addVar(vtype="B", name=b) for b in shape["raw_bins"][:k0]]
        m.setObjective(m.quicksum(1.0 * v for v in V))
        first = list(m.solutions(0.0, limit=1))
        m._verif_look = None if (len(first) == 1 and list(first[0][2]) == [] and abs(first[0][1]) < 1e-9) else \
            f"the look at the first stage ({k0} free binaries, objective their sum) returned {first}"
        V = V + [m.addVar(vtype="B", name=b) for b in shape["raw_bins"][k0:]]
    else:
        V = [m.addVar(vtype="B", name=b) for b in shape["raw_bins"]]
    names = [m.varName(v) for v in V]
    V = V + [m.addVar(vtype="I", lb=0, ub=ub, name=nm) for nm, ub in shape.get("ints", [])]
    E = []
    for i, row in enumerate(shape["rows"]):
        B = row["bound"]
        e = m.addVar(lb=-m.INF if B is None else -float(B), ub=m.INF if B is None else float(B), name=f"E_{i}")
        E.append(e)
        expr = 0
        for c, v in row["terms"]:
            expr += c * V[v]
        m.addConstr(expr + e <= float(row["target"]), name=f"CROW_{i}")
        m.addConstr(expr + e >= float(row["target"]), name=f"CROW_{i}")
    for c in shape["cons"]:
        # (an empty selection is summed with Python's sum, as aldy's callers do: the comparison is then a plain bool)
        expr = m.quicksum(k * V[v] for k, v in c["terms"]) if c["terms"] else sum(k * V[v] for k, v in c["terms"])
        if c["sense"] == "le":
            m.addConstr(expr <= float(c["rhs"]), name="CSIDE")
        else:
            m.addConstr(expr >= float(c["rhs"]), name="CSIDE")
    for res, fs in shape["prods"]:
        m.prod(V[res], [V[f] for f in fs])
    # weights keyed by the name the variable was requested under, as aldy's callers do (`coeffs={"E_pce": ...}` in cn.py)
    coeffs = {f"E_{i}": float(shape["rows"][i]["weight"]) for i, e in enumerate(E)}
    obj = m.abssum(E, coeffs=coeffs)
    obj += m.quicksum(float(k) * V[v] for k, v in shape["lin"])
    m.setObjective(obj)
    return m, names, E


def wire_shape(shape, names):
    names = list(names) + [nm for nm, _ in shape.get("ints", [])]
    return {
        "ints": [[nm, ub] for nm, ub in shape.get("ints", [])],
        "bins": names[:len(shape["raw_bins"])],
        "rows": [{"terms": [[lib.frac(c), names[v]] for c, v in r["terms"]], "target": lib.frac(r["target"]),
                  "weight": lib.frac(r["weight"]), "bound": None if r["bound"] is None else lib.frac(r["bound"])} for r in shape["rows"]],
        "cons": [{"terms": [[lib.frac(k), names[v]] for k, v in c["terms"]], "sense": c["sense"], "rhs": lib.frac(c["rhs"])} for c in shape["cons"]],
        "prods": [[names[res], [names[f] for f in fs]] for res, fs in shape["prods"]],
        "lin": [[lib.frac(k), names[v]] for k, v in shape["lin"]],
    }


def many_optima_shapes():
    """models with several hundred mutually incomparable optima (10 equally good candidates, exactly 5 to choose: 252
    assignments; aldy's major model for five copies of one configuration has this shape): the enumeration must report every one"""
    out = []
    for limit in (None, 300):
        n = 10
        out.append({"raw_bins": [f"b{i}" for i in range(n)], "rows": [{"terms": [], "target": Fraction(0), "weight": Fraction(1), "bound": None}],
                    "cons": [{"terms": [(1, v) for v in range(n)], "sense": "le", "rhs": Fraction(5)},
                             {"terms": [(1, v) for v in range(n)], "sense": "ge", "rhs": Fraction(5)}],
                    "prods": [], "lin": [], "gap": Fraction(0), "limit": limit, "ints": []})
    return out


def run_real(shape):
    """returns dict(names, snapshot, trace, helpers, capped)"""
    m, names, E = build_real(shape)
    snap = lp.snapshot(m)
    n = len(names)
    cap = 2 ** n + 1
    trace, helpers = [], []
    capped = False
    for status, opt, sol in m.solutions(float(shape["gap"]), limit=shape["limit"]):
        trace.append({"status": status, "obj": opt, "act": list(sol)})
        hs = []
        for i, e in enumerate(E):
            a = m.model.LookupVariable(f"ABS_E_{i}")
            if a is None:
                # the wrapper may have given the helper another name (e.g. a numbered one): take the helper of row i by position
                cands = [v for v in m.model.variables() if v.name().startswith(f"ABS_E_{i}_") and v.name()[len(f"ABS_E_{i}_"):].isdigit()]
                a = cands[-1] if cands else None
            if a is None:
                raise lib.ToolTrouble(f"helper variable of row {i} not found among {[v.name() for v in m.model.variables()][:12]}")
            hs.append((m.getValue(e), a.solution_value()))
        helpers.append(hs)
        if len(trace) >= cap:
            capped = True
            break
    return {"names": names, "snap": snap, "trace": trace, "helpers": helpers, "capped": capped, "look": getattr(m, "_verif_look", None)}


# ---------------------------------------------------------------------------------------
# independent oracle (Python, exact rationals)
# ---------------------------------------------------------------------------------------

def oracle_points(shape):
    n = len(shape["raw_bins"])
    pts = []
    ints = shape.get("ints", [])
    for bits in itertools.product(*([[0, 1]] * n + [range(ub + 1) for _, ub in ints])):
        ok = True
        for c in shape["cons"]:
            s = sum(k * bits[v] for k, v in c["terms"])
            if (c["sense"] == "le" and not s <= c["rhs"]) or (c["sense"] == "ge" and not s >= c["rhs"]):
                ok = False
                break
        if not ok:
            continue
        for res, fs in shape["prods"]:
            if bits[res] != int(all(bits[f] for f in fs)):
                ok = False
                break
        if not ok:
            continue
        obj = Fraction(0)
        for r in shape["rows"]:
            err = r["target"] - sum(c * bits[v] for c, v in r["terms"])
            if r["bound"] is not None and abs(err) > r["bound"]:
                ok = False
                break
            obj += r["weight"] * abs(err)
        if not ok:
            continue
        obj += sum(k * bits[v] for k, v in shape["lin"])
        pts.append((frozenset(i for i in range(n) if bits[i]), obj))
    return pts


def oracle_check(shape, real, eps, tol=Fraction(1, 10**6)):
    """clauses of the property statement on the real trace; returns list of reasons"""
    names = real["names"]
    idx = {nm: i for i, nm in enumerate(names)}
    pts = oracle_points(shape)
    objs = {}
    for a, o in pts:
        objs[a] = min(o, objs.get(a, o))
    why = [real["look"]] if real.get("look") else []
    gap = shape["gap"]
    trace = real["trace"]
    acts = []
    for t in trace:
        if any(a not in idx for a in t["act"]):
            why.append(f"yielded unknown binary name(s) {t['act']}")
            return why
        acts.append(frozenset(idx[a] for a in t["act"]))
    if real["capped"]:
        why.append("enumeration did not stop within 2^n+1 yields (an assignment is repeated)")
    best = min(objs.values()) if objs else None
    for k, (t, a) in enumerate(zip(trace, acts)):
        if a not in objs:
            why.append(f"yield {k}: assignment {sorted(t['act'])} is infeasible")
            continue
        if abs(Fraction(t["obj"]) - objs[a]) > tol:
            why.append(f"yield {k}: reported objective {t['obj']} but the assignment's objective is {float(objs[a])}")
        if k == 0 and objs[a] - best > tol:
            why.append(f"first yielded solution has objective {float(objs[a])}, the optimum is {float(best)}")
        if objs[a] >= (1 + gap) * best + eps + tol:
            why.append(f"yield {k}: objective {float(objs[a])} is outside the gap of optimum {float(best)}")
    for i in range(len(acts)):
        for j in range(i + 1, len(acts)):
            if acts[i] == acts[j]:
                why.append(f"assignment {sorted(trace[i]['act'])} yielded twice (yields {i} and {j})")
    for i in range(1, len(trace)):
        if trace[i]["obj"] < trace[i - 1]["obj"] - float(tol):
            why.append(f"objectives decrease at yield {i}")
    # helper read-back
    for k, (a, hs) in enumerate(zip(acts, real["helpers"] if not shape.get("ints") else [])):   # with general integers the error is not a function of the binaries alone
        for i, (r, (e, ab)) in enumerate(zip(shape["rows"], hs)):
            err = r["target"] - sum(c * (1 if v in a else 0) for c, v in r["terms"])
            if abs(Fraction(e) - err) > tol or (r["weight"] > 0 and abs(Fraction(ab) - abs(err)) > tol):
                why.append(f"yield {k}: helper of row {i} reads E={e}, ABS={ab}, expected |{float(err)}|")
    # completeness modulo supersets (only if the loop ran to its end)
    ended_by_limit = shape["limit"] is not None and shape["limit"] != 0 and len(trace) >= shape["limit"]
    if best is not None and not ended_by_limit and not real["capped"] and not shape.get("ints"):   # with general integers the solver may end the run with a non-optimal status
        for a, o in objs.items():
            if o < (1 + gap) * best + eps - tol:
                if not any(acts[k] <= a and objs.get(acts[k], o + 1) <= o + tol for k in range(len(acts))):
                    why.append(f"feasible within-gap assignment {sorted(names[i] for i in a)} (objective {float(o)}) is neither yielded nor a superset of a yielded solution that is no worse")
                    break
    return why


SPEC_EPS = Fraction(1, 100000)  # documented solver precision: "within the gap" is meant up to this


def eps_from_source():
    """the tolerance the current code uses in its stop test (for the model), as extracted"""
    import extract_constants
    out, failed = extract_constants.extract()
    if "STOP_EPS" in out:
        return out["STOP_EPS"]
    raise lib.ToolTrouble(f"stop tolerance not extractable: {failed}")


def case_json(shape):
    return {k: (str(v) if isinstance(v, Fraction) else v) for k, v in {
        "bins": shape["raw_bins"],
        "rows": [{"terms": r["terms"], "target": str(r["target"]), "weight": str(r["weight"]), "bound": None if r["bound"] is None else str(r["bound"])} for r in shape["rows"]],
        "cons": [{"terms": c["terms"], "sense": c["sense"], "rhs": str(c["rhs"])} for c in shape["cons"]],
        "prods": shape["prods"], "lin": [[str(k), v] for k, v in shape["lin"]], "gap": str(shape["gap"]), "limit": shape["limit"],
        "ints": [list(x) for x in shape.get("ints", [])], "staged": shape.get("staged")}.items()}


def shape_from_json(j):
    return {"raw_bins": j["bins"],
            "rows": [{"terms": [tuple(t) for t in r["terms"]], "target": Fraction(r["target"]), "weight": Fraction(r["weight"]),
                      "bound": None if r["bound"] is None else Fraction(r["bound"])} for r in j["rows"]],
            "cons": [{"terms": [tuple(t) for t in c["terms"]], "sense": c["sense"], "rhs": Fraction(c["rhs"])} for c in j["cons"]],
            "prods": [(p[0], list(p[1])) for p in j["prods"]], "lin": [(Fraction(k), v) for k, v in j["lin"]],
            "gap": Fraction(j["gap"]), "limit": j["limit"], "ints": [tuple(x) for x in j.get("ints", [])],
            "staged": j.get("staged")}


def exhaustive_gadgets():
    """all products of 1-4 factors and all sign patterns of 1-4 absolute terms"""
    shapes = []
    for k in range(1, 5):
        # product: res = b0, factors b1..bk ; rows force nothing; objective prefers res=1 or res=0
        for pref in (Fraction(-0), Fraction(1)):
            for bits in itertools.product([0, 1], repeat=k):
                cons = []
                for i, b in enumerate(bits):
                    cons.append({"terms": [(1, i + 1)], "sense": "le" if b == 0 else "ge", "rhs": Fraction(b)})
                shapes.append({"raw_bins": [f"b{i}" for i in range(k + 1)], "rows": [], "cons": cons,
                               "prods": [(0, list(range(1, k + 1)))], "lin": [(pref, 0)], "gap": Fraction(0), "limit": None})
        for signs in itertools.product([-1, 1], repeat=k):
            rows = [{"terms": [(1, 0)], "target": Fraction(s * (i + 1), 2), "weight": Fraction(1), "bound": None} for i, s in enumerate(signs)]
            shapes.append({"raw_bins": ["b0"], "rows": rows, "cons": [], "prods": [], "lin": [], "gap": Fraction(0), "limit": None})
    return shapes


def run_cases(shapes, eps):
    """returns (driver requests, per-case data)"""
    data = []
    reqs = []
    for sh in shapes:
        real = run_real(sh)
        ws = wire_shape(sh, real["names"])
        reqs.append({"op": "shape_ilp", "shape": ws})
        reqs.append({"op": "c05", "shape": ws, "gap": lib.frac(sh["gap"]), "eps": lib.frac(eps), "tol": "1/1000000",
                     "limit": sh["limit"],
                     "trace": [{"act": t["act"], "obj": lib.frac(t["obj"])} for t in real["trace"]],
                     "helpers": [] if sh.get("ints") else [[[lib.frac(e), lib.frac(a)] for e, a in hs] for hs in real["helpers"]]})
        reqs.append({"op": "escape", "raw": sh["raw_bins"]})
        data.append((sh, real))
    return reqs, data


def tie(ctx):
    # the stop tolerance of the enumeration loop is read from the source; when the loop was rewritten so that the pattern no
    # longer matches, that is a broken obligation (family `stop_tolerance`), and the runs are judged with the documented value
    try:
        eps, eps_note = eps_from_source(), None
    except lib.ToolTrouble as e:
        eps, eps_note = SPEC_EPS, str(e)
    r = lib.rng("c05")
    n = 400 if ctx["tier"] == "quick" else 6000
    shapes = []
    for fn, cj in lib.load_corpus(PID):
        shapes.append(shape_from_json(cj["shape"]))
    if ctx.get("replay") and "violation" in ctx["replay"] and "shape" in ctx["replay"]["violation"].get("input", {}):
        shapes.append(shape_from_json(ctx["replay"]["violation"]["input"]["shape"]))
    n_corpus = len(shapes)
    shapes += exhaustive_gadgets()
    shapes += many_optima_shapes()
    n_gadget = len(shapes) - n_corpus
    shapes += [gen_shape(r, small=(i % 3 == 0)) for i in range(n)]
    reqs, data = run_cases(shapes, eps)
    outs = lib.driver_batch(reqs)
    fam = {"shape_structure": {"cases": 0, "disagreements": []},
           "valid_run": {"cases": 0, "disagreements": []},
           "escape_name": {"cases": 0, "disagreements": []},
           "stop_tolerance": {"cases": 1, "disagreements": [{"why": "stop test of the enumeration loop no longer has the documented form: " + eps_note[:300]}] if eps_note else []}}
    violations = []
    stats = {"yields": 0, "models_with_gap": 0, "models_with_limit": 0, "infeasible": 0, "with_prod": 0, "multi_yield": 0,
             "weird_names": 0, "with_general_integers": 0, "bins_hist": {}, "npoints_hist": {}}
    distinct = set()
    samples = []
    for i, (sh, real) in enumerate(data):
        o_ilp, o_run, o_esc = outs[3 * i], outs[3 * i + 1], outs[3 * i + 2]
        cj = case_json(sh)
        fam["shape_structure"]["cases"] += 1
        # rows over no variable: OR-Tools stores a constant comparison as an empty row with bounds [0,0] (true) or [1,1] (false);
        # their meaning is judged by the trace (a constant-false row makes the model infeasible), not by the row's spelling
        drop_empty = lambda sn: dict(sn, cons=[c_ for c_ in sn["cons"] if c_[0]])
        diffs = lp.compare(drop_empty(real["snap"]), drop_empty(lp.from_lean(o_ilp)))
        if diffs:
            fam["shape_structure"]["disagreements"].append({"why": "model built by the CBC wrapper differs from Shape.toIlp: " + diffs[0], "input": {"shape": cj}, "diffs": diffs[:10]})
        fam["valid_run"]["cases"] += 1
        msgs = ([o_run["verdict"]] if o_run["verdict"] else []) + o_run["helper"]
        if sh.get("ints") and msgs and msgs[0].startswith("stopped early"):
            # OR-Tools' CBC occasionally returns a non-optimal status on models with general integers (its own solution
            # check fails): the loop ends there (`Run.badStatus`, a run that is not complete) - solver behaviour, not aldy's
            stats["solver_stopped_on_general_integers"] = stats.get("solver_stopped_on_general_integers", 0) + 1
            msgs = msgs[1:]
        if real["capped"]:
            msgs.append("enumeration exceeded 2^n+1 yields")
        if real.get("look"):
            msgs.append(real["look"])
        if msgs:
            fam["valid_run"]["disagreements"].append({"why": "real solutions() trace is not a valid run of the model: " + msgs[0], "input": {"shape": cj},
                                                      "trace": real["trace"][:6], "model_best": o_run["best"]})
        fam["escape_name"]["cases"] += 1
        if o_esc["names"] != real["names"]:
            fam["escape_name"]["disagreements"].append({"why": f"escape_name gives {real['names']} but the model gives {o_esc['names']}", "input": {"shape": cj}})
        # independent oracle, always on
        why = oracle_check(sh, real, SPEC_EPS)
        if why:
            violations.append({"why": why[0], "all": why[:6], "input": {"shape": cj}, "observed": {"trace": real["trace"][:8]},
                               "signature": "c05:" + why[0].split(":")[0][:40]})
        # statistics
        stats["yields"] += len(real["trace"])
        stats["models_with_gap"] += sh["gap"] > 0
        stats["models_with_limit"] += sh["limit"] is not None
        stats["infeasible"] += len(real["trace"]) == 0
        stats["with_prod"] += bool(sh["prods"])
        stats["multi_yield"] += len(real["trace"]) > 1
        stats["weird_names"] += real["names"] != sh["raw_bins"]
        stats["with_general_integers"] += bool(sh.get("ints"))
        stats["built_in_two_stages"] = stats.get("built_in_two_stages", 0) + bool(sh.get("staged"))
        nb = str(len(sh["raw_bins"]))
        stats["bins_hist"][nb] = stats["bins_hist"].get(nb, 0) + 1
        npb = str(min(64, o_run["npoints"]) // 8 * 8)
        stats["npoints_hist"][npb] = stats["npoints_hist"].get(npb, 0) + 1
        if len(real["trace"]) >= 1 and o_run["npoints"] > 1:
            distinct.add(lib.canon_hash(cj))
        if len(samples) < 3 and len(real["trace"]) > 1 and i >= n_corpus + n_gadget:
            samples.append({"shape": cj, "trace": real["trace"][:4], "model_best": o_run["best"], "npoints": o_run["npoints"]})
    return {"families": fam, "violations": violations, "evaluations": len(data), "distinct_nontrivial": len(distinct),
            "rule": "random aldy-shaped models (2-8 binaries, 1-5 error rows with weights incl. 0, cardinality/ordering/product side constraints, a quarter with 1-2 general integer variables, gap in {0,0.1,0.5}, limit in {None,1,3}) + exhaustive product (1-4 factors) and absolute-value (1-4 terms, all sign patterns) gadget models; non-trivial = feasible with more than one feasible binary assignment; distinct by hash of the canonical model",
            "samples": samples, "stats": stats | {"corpus": n_corpus, "gadget_models": n_gadget, "random_models": n}}


def search(ctx, hints):
    """re-run the oracle on the disagreeing inputs first, then a fresh campaign"""
    eps = SPEC_EPS
    r = lib.rng("c05-search")
    shapes = [shape_from_json(h["input"]["shape"]) for h in hints if "input" in h and "shape" in h["input"]]
    shapes += exhaustive_gadgets()
    shapes += [gen_shape(r, small=(i % 2 == 0)) for i in range(1500 if ctx["tier"] == "quick" else 10000)]
    violations = []
    for sh in shapes:
        try:
            real = run_real(sh)
        except Exception as e:  # the implementation crashes on a model it should handle
            violations.append({"why": f"solver interface raised {type(e).__name__}: {e}", "input": {"shape": case_json(sh)}, "signature": "c05:crash"})
            break
        why = oracle_check(sh, real, eps)
        if why:
            violations.append({"why": why[0], "all": why[:6], "input": {"shape": case_json(sh)}, "observed": {"trace": real["trace"][:8]},
                               "signature": "c05:" + why[0].split(":")[0][:40]})
            if len(violations) >= 3:
                break
    # shrink the first one: drop rows / cons / prods / lin while it still fails
    if violations:
        violations[0] = shrink(violations[0], eps)
    return {"violations": violations, "models_searched": len(shapes)}


def shrink(v, eps):
    sh = shape_from_json(v["input"]["shape"])

    def fails(s):
        try:
            return bool(oracle_check(s, run_real(s), eps))
        except Exception:
            return True

    changed = True
    while changed:
        changed = False
        for key in ("rows", "cons", "prods", "lin"):
            i = 0
            while i < len(sh[key]):
                cand = dict(sh)
                cand[key] = sh[key][:i] + sh[key][i + 1:]
                if fails(cand):
                    sh = cand
                    changed = True
                else:
                    i += 1
    try:
        real = run_real(sh)
        why = oracle_check(sh, real, eps)
        if why:
            return {"why": why[0], "all": why[:6], "input": {"shape": case_json(sh)}, "observed": {"trace": real["trace"][:8]},
                    "signature": v["signature"], "minimised": True}
    except Exception:
        pass
    return v
