#!/bin/bash
# Detection matrix: every seeded change under seeded/ (both rounds) against every check.
# Runs in an isolated copy (vp run --with-repo): ALDY_REPO points at a scratch copy of the repository.
#   usage: harness/seed_matrix.sh <repo copy> [patch files] [check ids]
R="$1"; PATCHES="${2:-$(ls seeded/C*/patch.diff seeded/round*/C*/patch.diff)}"; CHECKS="${3:-C01 C02 C03 C04 C05 C06 C07 C08 C09 C10 C11 C12 C13 C14 C15 C16 C17 C18 C19}"
export ALDY_REPO="$R"
ls "$R"/aldy/indelpost/*.so >/dev/null 2>&1 || cp /repo/aldy/indelpost/*.so "$R"/aldy/indelpost/
V="$(pwd)"
for pf in $PATCHES; do
  s=$(echo "$pf" | sed 's#seeded/##; s#/patch.diff##; s#/#-#')
  (cd "$R" && patch -p1 -s < "$V/$pf") || { echo "seed=$s APPLY-FAILED"; (cd "$R" && patch -p1 -R -s -f < "$V/$pf" >/dev/null 2>&1); continue; }
  for c in $CHECKS; do
    t0=$(date +%s)
    out=$(timeout 1800 ./check $c 2>&1); rc=$?
    v=$(echo "$out" | grep -c "^VIOLATION"); nf=$(echo "$out" | grep -c "no-failing-input-found")
    echo "seed=$s check=$c rc=$rc violation=$v nofail=$nf $(( $(date +%s) - t0 ))s :: $(echo "$out" | grep -v '^KNOWN-FINDING' | grep -v '^VIOLATION' | tail -1 | cut -c1-160)"
  done
  (cd "$R" && patch -p1 -R -s < "$V/$pf")
done
