"""Serialise the real aldy objects into the views the Lean models take (Driver/Views.lean)."""
import os
from fractions import Fraction

import lib

KIND = {"DEFAULT": "default", "LEFT_FUSION": "left_fusion", "RIGHT_FUSION": "right_fusion", "DELETION": "deletion", "CUSTOM": "custom"}


def mlist(ms):
    return [[m[0], m[1]] for m in sorted(ms)]


def gene_view(gene, extra_positions=()):
    positions = {pos for pos, _ in gene.mutations} | set(extra_positions)
    region_at = []
    for p in sorted(positions):
        r = gene.region_at(p)
        if r:
            region_at.append([p, [r[0], r[1]]])
    return {
        "name": gene.name,
        "regionNames": list(gene.regions[0].keys()),
        "nGenes": len(gene.regions),
        "uniqueRegions": list(gene.unique_regions),
        "regionAt": region_at,
        "mutations": [{"pos": pos, "op": op, "functional": bool(gene.is_functional((pos, op))), "rsid": str(v[1])}
                      for (pos, op), v in gene.mutations.items()],
        "alleles": [{"name": an, "cnConfig": a.cn_config, "func": mlist(a.func_muts),
                     "minors": [{"name": mn, "neutral": mlist(mi.neutral_muts), "altName": mi.alt_name} for mn, mi in a.minors.items()]}
                    for an, a in gene.alleles.items()],
        "cnConfigs": [{"name": n, "kind": KIND[c.kind.name], "cn": [[[r, v] for r, v in g.items()] for g in c.cn],
                       "alleles": sorted(c.alleles)} for n, c in gene.cn_configs.items()],
        "randomMuts": mlist(gene.random_mutations),
        "tandems": [[str(a), str(b)] for a, b in gene.common_tandems],
    }


def q(x):
    return lib.frac(x)


def cov_view(cov):
    """internal state of a real Coverage object"""
    table = []
    for pos, ops in cov._coverage.items():
        table.append([pos, [[op, [[q(a), q(b)] for a, b in quals]] for op, quals in ops.items()]])
    indels = []
    if cov._indels:
        for (pos, op), (n, y) in cov._indels.items():
            indels.append([[pos, op], [q(n), q(y)]])
    return {"table": table, "indels": indels}


def cov_canon(view):
    """order-free canonical form of a coverage view (positions with no ops dropped)"""
    t = {}
    for pos, ops in view["table"]:
        for op, quals in ops:
            t[(pos, op)] = sorted((Fraction(a), Fraction(b)) for a, b in quals)
    i = {(m[0], m[1]): (Fraction(v[0]), Fraction(v[1])) for m, v in view["indels"]}
    return t, i


def cn_view(cn_sol):
    return [[k, int(v)] for k, v in cn_sol.solution.items()]


PROFILE_KEYS = ["threshold", "min_coverage", "min_quality", "min_mapq", "cn_max", "gap", "cn_pce_penalty", "cn_diff", "cn_fit",
                "cn_parsimony", "cn_fusion_left", "cn_fusion_right", "major_novel", "minor_miss", "minor_add", "minor_phase",
                "minor_phase_vars"]


def profile_view(p):
    d = {k: q(getattr(p, k)) for k in PROFILE_KEYS}
    d["phase"] = bool(p.phase)
    d["male"] = bool(p.male)
    d["max_minor_solutions"] = int(p.max_minor_solutions)
    return d


def toy_gene(genome="hg19"):
    from aldy.gene import Gene
    return Gene(os.path.join(lib.REPO, "aldy/tests/resources/toy.yml"), genome=genome)


def shipped_gene(name, genome="hg19"):
    from aldy.gene import Gene
    return Gene(os.path.join(lib.REPO, f"aldy/resources/genes/{name.lower()}.yml"), genome=genome)


def shipped_gene_names():
    d = os.path.join(lib.REPO, "aldy/resources/genes")
    return sorted(f[:-4] for f in os.listdir(d) if f.endswith(".yml"))
