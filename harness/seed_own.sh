#!/bin/bash
# every seeded change against the check of its own property, for a given VERIF_SEED (robustness of the detections
# against the generator seed).   usage: harness/seed_own.sh <repo copy> <VERIF_SEED> [patch files]
R="$1"; export VERIF_SEED="$2"; PATCHES="${3:-$(ls seeded/C*/patch.diff seeded/round*/C*/patch.diff)}"
export ALDY_REPO="$R"
ls "$R"/aldy/indelpost/*.so >/dev/null 2>&1 || cp /repo/aldy/indelpost/*.so "$R"/aldy/indelpost/
V="$(pwd)"
for pf in $PATCHES; do
  s=$(echo "$pf" | sed 's#seeded/##; s#/patch.diff##; s#/#-#')
  c=$(basename $(dirname "$pf"))
  (cd "$R" && patch -p1 -s < "$V/$pf") || { echo "seed=$s APPLY-FAILED"; (cd "$R" && patch -p1 -R -s -f < "$V/$pf" >/dev/null 2>&1); continue; }
  t0=$(date +%s)
  out=$(timeout 1800 ./check $c 2>&1); rc=$?
  v=$(echo "$out" | grep -c "^VIOLATION"); nf=$(echo "$out" | grep -c "no-failing-input-found")
  echo "seed=$s check=$c rc=$rc violation=$v nofail=$nf $(( $(date +%s) - t0 ))s vseed=$VERIF_SEED :: $(echo "$out" | grep -v '^KNOWN-FINDING' | grep -v '^VIOLATION' | tail -1 | cut -c1-160)"
  (cd "$R" && patch -p1 -R -s < "$V/$pf")
done
