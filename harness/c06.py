"""C06 - alignment evidence is a faithful pileup of the eligible reads.

Ties:
  parse_read   : `Sample._parse_read` on generated (start, CIGAR, sequence, qualities) tuples ==
                 Lean `parseRead` (per-position observations with binned qualities, phase writes,
                 multi-nucleotide substitution merging)
  sample_bam   : `Sample(gene, profile, bam)` on BAMs written by pysam from generated reads (flags:
                 secondary, duplicate, supplementary, unmapped; hard/soft clips; leading insertions;
                 pairs sharing a name; both strands) == Lean eligibility + pileup + table assembly +
                 Coverage constructor (indel support counts of indelpost are taken as given)
Oracle (always on; the search): a position-wise specification computed from htslib's own
aligned pairs - depth = number of eligible reads spanning the position, substitution / reference
counts, quality carried, read-order and CIGAR-split invariance (metamorphic).
"""
import collections
import os
import shutil
from fractions import Fraction

import gen_gene
import instances
import lib
import sim
import views

PID = "C06"
PROPS = ["Aldy.Props.C06", "Aldy.Props.C06Table"]
TRUSTED_EXTRA = ["pysam/htslib (BAM writing, fetch, aligned pairs of the oracle)", "indelpost: indel support counts are an input of the model"]
ASSUMPTIONS = ["DNA alignments: CIGAR operations M,=,X,I,D,S,H (no N/P)", "reads are at least one base long"]

OPS = {"M": 0, "I": 1, "D": 2, "S": 4, "H": 5, "=": 7, "X": 8}


def locus_view(gene):
    ks = sorted(gene.chr_to_ref)
    mapped = []
    for p in ks:
        if mapped and mapped[-1][1] == p:
            mapped[-1][1] = p + 1
        else:
            mapped.append([p, p + 1])
    w = gene.get_wide_region()
    multi = {m.pos: m.op for _, a in gene.alleles.items() for m in a.func_muts if ">" in m.op and len(m.op) > 3}
    return {"lookup_start": gene._lookup_range[0], "lookup_seq": gene._lookup_seq, "mapped": mapped,
            "phaseable": sorted({pos for pos, _ in gene.mutations}), "multi_sites": [[p, o] for p, o in multi.items()],
            "wide": [w.start, w.end]}


def gen_read(r, gene, idx, force_eligible=False):
    w = gene.get_wide_region()
    lo, hi = gene._lookup_range
    start = r.randint(max(0, lo - 25), hi + 5) if r.random() < 0.9 else r.randint(max(0, w.start - 40), w.end + 20)
    nops = r.randint(1, 6)
    cigar = []
    if r.random() < 0.2:
        cigar.append(("S", r.randint(1, 8)))
    if r.random() < 0.05 and not force_eligible:
        cigar.insert(0, ("H", r.randint(1, 5)))
    if r.random() < 0.07:
        cigar.append(("I", r.randint(1, 3)))
    for k in range(nops):
        op = r.choice(["M", "M", "M", "=", "X", "I", "D", "M"])
        if cigar and cigar[-1][0] == op and r.random() < 0.7:
            op = "M"
        cigar.append((op, r.randint(1, 25) if op in "M=X" else r.randint(1, 4)))
    while cigar and cigar[-1][0] in "DI" and r.random() < 0.8:
        cigar.pop()
    if not any(op in "M=X" for op, _ in cigar):
        cigar.append(("M", r.randint(1, 20)))
    if r.random() < 0.2:
        cigar.append(("S", r.randint(1, 6)))
    # a multi-substitution site carried completely
    multi = {m.pos: m.op for _, a in gene.alleles.items() for m in a.func_muts if ">" in m.op and len(m.op) > 3}
    carry = None
    if multi and r.random() < 0.3:
        pos = r.choice(list(multi))
        start = max(0, pos - r.randint(0, 15))
        cigar = [("M", r.randint(pos - start + 6, pos - start + 30))]
        carry = (pos, multi[pos], r.random() < 0.8)
    seq = []
    p = start
    for op, n in cigar:
        if op in "M=X":
            for i in range(n):
                b = gene[p + i]
                if b == "N":
                    b = r.choice("ACGT")
                # (an `=` run too: it is a match against the ALIGNER's reference, aldy compares with its own gene sequence)
                if r.random() < (0.12 if op != "=" else 0.06):
                    b = r.choice([c for c in "ACGT" if c != b])
                # no-calls and ambiguity codes in the aligned part: an observation like any other (`ref>N`), it counts for the depth
                if r.random() < 0.015:
                    b = r.choice("NNNRY")
                seq.append(b)
            p += n
        elif op == "I" or op == "S":
            seq += [r.choice("ACGT") for _ in range(n)]
        elif op == "D":
            p += n
    if carry:
        pos, op, full = carry
        l, rr = op.split(">")
        for k, (x, y) in enumerate(zip(l, rr)):
            if x != "." and (full or k == 0):
                seq[pos + k - start] = y
    qual = None if r.random() < 0.15 else [r.choice([0, 1, 2, 5, 9, 10, 15, 19, 20, 28, 29, 35, 38, 39, 40, 41]) for _ in seq]
    flag = 0
    if not force_eligible:
        x = r.random()
        if x < 0.06:
            flag |= 2048
        elif x < 0.12:
            flag |= 256
        elif x < 0.18:
            flag |= 1024
    if r.random() < 0.5:
        flag |= 16
    name = f"q{idx}" if r.random() < 0.8 else f"q{max(0, idx - 1)}"
    return {"name": name, "pos": start, "cigar": [(OPS[o], n) for o, n in cigar], "seq": "".join(seq), "qual": qual,
            "mapq": r.choice([0, 1, 5, 9, 10, 29, 60]), "flag": flag}


def fake_sample(gene, eqs=None):
    from aldy.sam import Sample
    s = Sample.__new__(Sample)
    s.gene = gene
    # every attribute Sample.__init__ sets before it reads a short-read SAM/BAM (a change that consults one of them in
    # _parse_read must meet the same state here)
    s.name, s.path, s.profile = "fake", "fake.bam", None
    s._dump_cn = collections.defaultdict(int)
    s._dump_reads = []
    s._fusion_counter = {}
    s.is_long_read = False
    s.reads = None
    s.phases = {}
    s._indel_sites = {(pos, op): [0, 0] for pos, op in gene.mutations if op[:3] in ["ins", "del"]}
    s._indel_sites_eqs = {}
    s._indel_phase_eqs = dict(eqs or {})
    s._multi_sites = {m.pos: m.op for _, a in gene.alleles.items() for m in a.func_muts if ">" in m.op and len(m.op) > 3}
    s.phaseable = {pos: i for i, pos in enumerate(sorted({pos for pos, _ in gene.mutations}))}
    return s


def qf(x):
    """qualities are small integers or means of two or three of them: compare as the nearest fraction with a
    small denominator (the implementation's float mean vs the model's exact rational)"""
    return Fraction(x).limit_denominator(10000)


def canon_obs(lst):
    return sorted((qf(a), qf(b)) for a, b in lst)


def reported_indels(gene, rd):
    """(start, op) of the insertions / deletions a read reports (same walk as the CIGAR parser)"""
    out = []
    start, s_start = rd["pos"], 0
    for op, size in rd["cigar"]:
        if op == 2:
            out.append((start, "del" + gene[start:start + size]))
            start += size
        elif op == 1:
            out.append((start, "ins" + rd["seq"][s_start:s_start + size]))
            s_start += size
        elif op == 4:
            s_start += size
        elif op in (0, 7, 8):
            start += size
            s_start += size
    return out


def gen_eqs(r, gene, reads):
    """a table 'reported indel -> database indel it spells' that the reads actually hit"""
    sites = sorted({pos for pos, _ in gene.mutations})
    dbi = [(p, o) for p, o in gene.mutations if o[:3] in ("ins", "del")] or [(sites[0], "insA")] if sites else []
    eqs = {}
    for rd in reads:
        for m in reported_indels(gene, rd):
            if dbi and r.random() < 0.4:
                eqs[m] = r.choice(dbi) if r.random() < 0.8 else (m[0] + r.randint(-3, 3), m[1])
    return eqs


def real_parse(gene, reads, eqs=None):
    s = fake_sample(gene, eqs)
    norm = collections.defaultdict(list)
    muts = collections.defaultdict(list)
    for rd in reads:
        s._parse_read(rd["name"], rd["pos"], rd["cigar"], rd["seq"], norm, muts, rd["mapq"], rd["qual"])
    table = {}
    for p, l in norm.items():
        if l:
            table[(p, "_")] = canon_obs(l)
    for (p, o), l in muts.items():
        if l:
            table.setdefault((p, o), [])
            table[(p, o)] = sorted(table[(p, o)] + canon_obs(l))
    return table, {k: dict(v) for k, v in s.phases.items()}


def wire_read(rd, extra=None):
    d = {"fragment": rd["name"], "pos": rd["pos"], "cigar": [list(c) for c in rd["cigar"]], "seq": rd["seq"], "mq": rd["mapq"],
         "qual": rd["qual"]}
    if extra:
        d.update(extra)
    return d


def lean_events_table(events):
    t = {}
    for evs in events:
        for p, o, a, b in evs:
            t.setdefault((p, o), []).append((qf(a), qf(b)))
    return {k: sorted(v) for k, v in t.items()}


def spec_table(gene, bam_path, prefix=""):
    """position-wise specification from htslib's aligned pairs (independent of aldy's CIGAR walk)"""
    import pysam
    from aldy.sam import Sample
    w = gene.get_wide_region()
    lo, hi = min(gene.chr_to_ref), max(gene.chr_to_ref)
    multi = {m.pos: m.op for _, a in gene.alleles.items() for m in a.func_muts if ">" in m.op and len(m.op) > 3}
    depth = collections.Counter()
    counts = collections.Counter()
    with pysam.AlignmentFile(bam_path) as f:
        for read in f.fetch(until_eof=True):
            if read.is_unmapped or not read.cigartuples or read.is_supplementary or "H" in (read.cigarstring or "") or not read.query_sequence:
                continue
            if read.reference_name != prefix + gene.chr or read.reference_end is None:
                continue
            a0, a1 = read.reference_start, read.reference_end
            if not (a0 <= w.start <= a1 or w.start <= a0 <= w.end):
                continue
            seq = read.query_sequence
            per = {}
            for qp, rp in read.get_aligned_pairs():
                if rp is None:
                    continue
                if qp is None:
                    per[rp] = "-"
                elif rp in gene and gene[rp] != seq[qp]:
                    per[rp] = f"{gene[rp]}>{seq[qp]}"
                else:
                    per[rp] = "_"
            for pos, op in multi.items():
                l, rr = op.split(">")
                comp = [(pos + k, f"{x}>{y}") for k, (x, y) in enumerate(zip(l, rr)) if x != "."]
                if comp and all(per.get(p) == o for p, o in comp):
                    for k, (p, o) in enumerate(comp):
                        per[p] = op if p == pos and k == 0 else "_"
            for p, o in per.items():
                depth[p] += 1
                if o != "_" and not (lo <= p <= hi):
                    o = "_"
                counts[(p, o)] += 1
    return depth, counts


def tie(ctx):
    import pysam
    r = lib.rng("c06")
    quick = ctx["tier"] == "quick"
    genes = []
    for i in range(8 if quick else 60):
        y = gen_gene.gen_gene(r, offsets=(10000, 20000), pseudogene=r.random() < 0.5)
        genes.append({"kind": "generated", "genome": r.choice(["hg19", "hg38"]), "yaml": y})
    fam = {k: {"cases": 0, "disagreements": []} for k in ("parse_read", "sample_bam")}
    violations = []
    stats = collections.Counter()
    reqs, metas = [], []
    nsets = 40 if quick else 400
    per_set = 50 if quick else 200
    d = sim.scratch_dir()
    try:
        for k in range(nsets):
            gd = genes[k % len(genes)]
            gene, gid = instances.load_gene(gd)
            reads = [gen_read(r, gene, i) for i in range(per_set)]
            lv = locus_view(gene)
            # ---- tie 1: tuples
            elig_reads = [rd for rd in reads if not any(op == 5 for op, _ in rd["cigar"])]
            eqs = gen_eqs(r, gene, elig_reads)
            stats["indel_equivalents"] += len(eqs)
            table, phases = real_parse(gene, elig_reads, eqs)
            metas.append(("tuples", gd, elig_reads, table, phases))
            reqs.append({"op": "pileup", "locus": dict(lv, indel_eqs=[[[k[0], k[1]], [v[0], v[1]]] for k, v in eqs.items()]), "reads": [wire_read(rd) for rd in elig_reads]})
            # ---- tie 2: BAM (every other set, cheaper)
            if k % 2 == 0:
                bam = os.path.join(d, f"s{k}.bam")
                recs = []
                for rd in reads:
                    # indelpost (external) needs base qualities: BAM reads always carry them
                    rec = {"name": rd["name"], "pos": rd["pos"], "seq": rd["seq"], "cigar": rd["cigar"], "mapq": rd["mapq"], "flag": rd["flag"],
                           "qual": rd["qual"] if rd["qual"] is not None else [30] * len(rd["seq"])}
                    recs.append(rec)
                # an unmapped read and a read on another contig
                recs.append({"name": "unm", "pos": gene.get_wide_region().start + 3, "seq": "ACGTACGT", "cigar": None, "mapq": 0, "flag": 4, "qual": [30] * 8})
                write_bam(bam, recs, length=sim.chrom_length_for(gene))
                from aldy.profile import Profile
                from aldy.sam import Sample
                prof = Profile("user_provided", cn_solution=["1", "1"])
                smp = Sample(gene, prof, bam)
                wire_reads = []
                with pysam.AlignmentFile(bam) as f:
                    for read in f.fetch(until_eof=True):
                        wire_reads.append({"fragment": read.query_name, "pos": read.reference_start if read.reference_start is not None else 0,
                                           "cigar": [list(c) for c in (read.cigartuples or [])], "seq": read.query_sequence or "",
                                           "mq": read.mapping_quality, "qual": None if read.query_qualities is None else list(read.query_qualities),
                                           "has_cigar": bool(read.cigartuples), "supplementary": bool(read.is_supplementary),
                                           "ref_end": read.reference_end, "same_chrom": (not read.is_unmapped) and read.reference_name == gene.chr,
                                           "hard_clipped": "H" in (read.cigarstring or ""), "empty_seq": not read.query_sequence})
                metas.append(("bam", gd, bam, smp, wire_reads))
                reqs.append({"op": "pileup", "locus": dict(lv, indel_eqs=[[[k[0], k[1]], [v[0], v[1]]] for k, v in smp._indel_phase_eqs.items()]),
                             "reads": wire_reads, "check_eligibility": True})
                # oracle on the real table
                depth, counts = spec_table(gene, bam)
                cov = smp.coverage
                why = []
                for p in set(depth) | set(cov._coverage):
                    got = sum(len(v) for o, v in cov._coverage.get(p, {}).items() if o[:3] != "ins")
                    # with an indel table, parsed insertions are dropped but never counted anyway
                    if got != depth.get(p, 0):
                        why.append(f"position {p}: {got} non-insertion observations but {depth.get(p, 0)} eligible reads span it")
                        break
                # the same through the public accessor the stages and the normalisation read (insertions are not depth)
                if not why:
                    for p in sorted(set(depth) | set(cov._coverage)):
                        t_ = cov.total(p)
                        if t_ != depth.get(p, 0):
                            why.append(f"position {p}: Coverage.total gives {t_} but {depth.get(p, 0)} eligible reads span it")
                            break
                stats["bam_without_catalogued_indels"] += not smp._indel_sites
                stats["bam_with_insertion_reads"] += any(op == 1 for x in reads for op, _ in x["cigar"])
                for (p, o), c in counts.items():
                    if o == "-":
                        continue
                    got = len(cov._coverage.get(p, {}).get(o, []))
                    if got != c:
                        why.append(f"position {p}: count of {o!r} is {got}, {c} eligible reads show it")
                        break
                if why:
                    violations.append({"why": why[0], "input": {"gene": gd, "reads": [wire_read(x) | {"flag": x["flag"]} for x in reads]},
                                       "signature": "c06:" + why[0].split(":")[1].strip().split(" ")[0]})
                stats["bam_reads"] += len(wire_reads)
            stats["reads"] += len(reads)
    finally:
        pass
    outs = lib.driver_batch(reqs)
    shutil.rmtree(d, ignore_errors=True)
    distinct = set()
    samples = []
    for meta, o in zip(metas, outs):
        if meta[0] == "tuples":
            _, gd, reads, table, phases = meta
            fam["parse_read"]["cases"] += 1
            lt = lean_events_table(o["events"])
            lp = {f: {k: v for k, v in kv} for f, kv in o["phases"]}
            lp = {f: v for f, v in lp.items()}
            rp = {f: v for f, v in phases.items()}
            # fragments whose reads wrote nothing still exist as empty dicts in the implementation
            rp = {f: v for f, v in rp.items() if v}
            lp = {f: v for f, v in lp.items() if v}
            if lt != table:
                k = sorted(set(lt.items()) ^ set((a, tuple(b)) for a, b in table.items()) if False else [x for x in set(lt) | set(table) if lt.get(x) != table.get(x)])[:3]
                fam["parse_read"]["disagreements"].append({"why": f"_parse_read observations differ from the model at {k}: impl {[table.get(x) for x in k]} model {[lt.get(x) for x in k]}",
                                                           "input": {"gene": gd, "reads": [wire_read(x) for x in reads]}})
            elif lp != rp:
                fam["parse_read"]["disagreements"].append({"why": "phase record differs from the model", "input": {"gene": gd, "reads": [wire_read(x) for x in reads]}})
            for rd in reads:
                distinct.add(lib.canon_hash([rd["pos"], rd["cigar"], rd["seq"]]))
                for op, n in rd["cigar"]:
                    stats["cigar_op_%d" % op] += 1
            if len(samples) < 2:
                samples.append({"read": wire_read(reads[0]), "events": o["events"][0][:6]})
        else:
            _, gd, bam, smp, wire_reads = meta
            fam["sample_bam"]["cases"] += 1
            real_t = {}
            for p, ops in smp.coverage._coverage.items():
                for op, l in ops.items():
                    real_t[(p, op)] = canon_obs(l)
            model_t = {}
            truthy = bool(smp._indel_sites)
            for p, ops in o["table"]:
                for op, l in ops:
                    if truthy and op.startswith("ins"):
                        continue
                    model_t[(p, op)] = sorted((qf(a), qf(b)) for a, b in l)
            if real_t != model_t:
                k = [x for x in sorted(set(real_t) | set(model_t)) if real_t.get(x) != model_t.get(x)][:3]
                fam["sample_bam"]["disagreements"].append({"why": f"Sample.coverage differs from the model at {k}: impl {[len(real_t.get(x, [])) for x in k]} model {[len(model_t.get(x, [])) for x in k]} observations",
                                                           "input": {"gene": gd, "reads": wire_reads}})
            stats["eligible"] += sum(o["eligible"])
            stats["ineligible"] += len(o["eligible"]) - sum(o["eligible"])
    return {"families": fam, "violations": violations, "evaluations": stats["reads"], "distinct_nontrivial": len(distinct),
            "rule": "random reads over generated genes (both strands, with/without pseudogene, catalogued SNPs/indels/MNPs): CIGARs of 1-8 operations from M,=,X,I,D,S,H incl. leading insertions, adjacent indels and clips; 12% mismatches; reads carrying complete or partial catalogued multi-substitutions; qualities 0-41 or absent; flags secondary/duplicate/supplementary/unmapped; shared names; distinct by hash of (start, CIGAR, sequence)",
            "samples": samples, "stats": dict(stats)}


def write_bam(path, recs, length):
    import pysam
    header = {"HD": {"VN": "1.6", "SO": "unsorted"}, "SQ": [{"SN": "20", "LN": length}, {"SN": "21", "LN": 100000}]}
    tmp = path + ".u.bam"
    with pysam.AlignmentFile(tmp, "wb", header=header) as f:
        for r_ in recs:
            a = pysam.AlignedSegment()
            a.query_name = r_["name"]
            a.query_sequence = r_["seq"]
            a.flag = r_["flag"]
            if r_["flag"] & 4:
                a.reference_id = 0
                a.reference_start = r_["pos"]
                a.mapping_quality = 0
            else:
                a.reference_id = 0
                a.reference_start = r_["pos"]
                a.mapping_quality = r_["mapq"]
                a.cigartuples = r_["cigar"]
            if r_["qual"] is not None:
                a.query_qualities = pysam.qualitystring_to_array("".join(chr(33 + x) for x in r_["qual"]))
            f.write(a)
    pysam.sort("-o", path, tmp)
    os.unlink(tmp)
    pysam.index(path)


def search(ctx, hints):
    res = tie({**ctx, "tier": "quick"})
    return {"violations": res["violations"], "cases_searched": res["evaluations"]}
