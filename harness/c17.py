"""C17 - a debug dump replays to the same result.

Ties:
  dump_format : the per-site counters pickled by the real `_dump_alignments` == Lean `compressObs`
                of the observation lists the real `_load_sam` produced, the lists the real
                `_load_dump` returns == Lean `expandObs`, the phase table == Lean `dumpPhases`
  dump_replay : `aldy genotype --debug` through the real command line (archive creation, genome
                marker) followed by `aldy genotype <archive>`: same sample name, structures, major
                and minor solutions, scores and output file, for every gene in the archive
Oracle = the second tie (the property itself, on the real code).
"""
import collections
import contextlib
import gzip
import io
import os
import pickle
import shutil
from fractions import Fraction

import gen_gene
import lib
import sim

PID = "C17"
PROPS = ["Aldy.Props.C17", "Aldy.Props.C17Stages"]
TRUSTED_EXTRA = ["pickle / gzip / tar", "pysam, the read simulator", "argparse / logbook of the CLI"]
ASSUMPTIONS = []


def make_sample(r, d, k, two_genes, sparse_second=False, borderline=False):
    from aldy.common import GRange
    genes = []
    offs = [(10000, 20000), (30000, 40000)]
    for gi in range(2 if two_genes else 1):
        y = gen_gene.gen_gene(r, name="GEN" if gi == 0 else "GENB", pseudogene=r.random() < 0.5, deletion=True, fusions=r.choice([0, 1]) if gi == 0 else 0,
                              offsets=offs[gi], allow_mnp=r.random() < 0.5)
        g = gen_gene.load(y, "hg19", name="GEN" if gi == 0 else "GENB")
        ypath = os.path.join(d, f"{'gen' if gi == 0 else 'genb'}{k}.yml")
        with open(ypath, "w") as f:
            f.write(y)
        genes.append((y, g, ypath))
    cnr = GRange("20", 60000, 60400)
    ref, smp = [], []
    for y, g, _ in genes:
        majors = [a for a, al in g.alleles.items() if al.cn_config == "1"]
        copies = []
        for _ in range(r.choice([2, 2, 3])):
            a = r.choice(majors)
            copies.append((a, r.choice(list(g.alleles[a].minors))))
        sparse = g.name == "GENB" and sparse_second
        ref += sim.simulate_reads(g, [("1", "1.001"), ("1", "1.001")], depth=1 if sparse else 12, name_prefix=f"p{g.name}")
        if sparse:
            # a gene the original run rejects for lack of depth (one copy next to a whole-gene deletion, one layer of reads;
            # the profile is as shallow there, so the depth RATIO is that of an ordinary one-copy sample): its dump is in the
            # archive all the same, and the replay must reject it too
            dele_ = g.deletion_allele()
            cps = copies[:1] + ([(dele_, sorted(g.alleles[dele_].minors)[0])] if dele_ else [])
            smp += sim.simulate_reads(g, cps, depth=1, name_prefix=f"s{g.name}", read_len=60)
        else:
            smp += sim.simulate_reads(g, copies, depth=[12, 12, 7][:len(copies)], name_prefix=f"s{g.name}", read_len=r.choice([40, 60, 100]))
    # reads that run past the end of the RefSeq window, some with a deletion out there: `_make_coverage` folds what lies
    # outside the window into the reference counts
    g0 = genes[0][1]
    hi = max(g0.chr_to_ref)
    for j in range(4):
        smp.append({"name": f"edge_d{j}", "pos": hi - 20, "seq": "".join(sim.ref_base(g0, hi - 20 + i) for i in range(57)), "cigar": [(0, 30), (2, 3), (0, 27)], "mapq": 60})
        smp.append({"name": f"edge_m{j}", "pos": hi - 20, "seq": "".join(sim.ref_base(g0, hi - 20 + i) for i in range(60)), "cigar": [(0, 60)], "mapq": 60})
    # some observations below the default quality thresholds (mapping quality 10, base quality 10): the dump must carry
    # them too - depth normalisation, the average-depth guard and the coverage columns count every observation
    for rd in smp:
        x = r.random()
        if x < 0.12:
            rd["mapq"] = r.choice([0, 3, 9])
        elif x < 0.3:
            rd["qual"] = [r.choice([2, 5, 8]) if r.random() < 0.3 else 40 for _ in rd["seq"]]
    # pairs sharing a fragment name make multi-site phase records
    # whole reads hanging over both ends of the neutral region (their flank depth is part of what the sample reader keeps)
    ref += sim.neutral_reads(cnr, 24, overhang=True)
    if borderline:
        # a sample just deep enough: one layer of 100-base reads from 50 bases before the neutral region to 50 bases past it
        # and a second layer over the first 80 % of the region - 1.8x inside the region, 2.05x counting the whole reads, which
        # is what the "sample too shallow" test of the reader counts
        a_, b_ = cnr.start, cnr.end
        smp += [{"name": f"nb{i}", "pos": a_ - 50 + 100 * i, "seq": "A" * 100, "cigar": [(0, 100)], "mapq": 60} for i in range((b_ - a_ + 100) // 100)]
        smp += [{"name": f"nc{i}", "pos": a_ + 80 * i, "seq": "A" * 80, "cigar": [(0, 80)], "mapq": 60} for i in range(int(0.8 * (b_ - a_)) // 80)]
    else:
        smp += sim.neutral_reads(cnr, 24, overhang=True)
    length = max(sim.chrom_length_for(g) for _, g, _ in genes)
    pbam = os.path.join(d, f"prof{k}.bam")
    sbam = os.path.join(d, f"sample{k}.bam")
    sim.write_bam(pbam, ref, length=length)
    sim.write_bam(sbam, smp, length=length)
    return genes, cnr, pbam, sbam


def run_cli(argv):
    """the real command line in a fresh interpreter"""
    import subprocess
    import sys
    env = dict(os.environ)
    env["PYTHONPATH"] = lib.REPO
    env["PYTHONWARNINGS"] = "ignore"
    p = subprocess.run([sys.executable, "-m", "aldy", *argv], stdout=subprocess.PIPE, stderr=subprocess.PIPE, text=True, env=env, timeout=600)
    return p.returncode, p.stdout, p.stderr


def canon_sols(res):
    out = {}
    for gname, sols in res.items():
        out[os.path.basename(gname)] = [
            {"score": round(s.score, 9), "diplotype": s.get_major_diplotype(),
             "structure": sorted(s.major_solution.cn_solution.solution.items()),
             "cn_score": round(s.major_solution.cn_solution.score, 9), "major_score": round(s.major_solution.score, 9),
             "alleles": sorted((a.major, a.minor, tuple(sorted((m.pos, m.op) for m in a.added)), tuple(sorted((m.pos, m.op) for m in a.missing))) for a in s.solution)}
            for s in sols]
    return out


def evidence_equiv(s1, s3):
    """`CovEquiv` of Props/C17Stages.lean on two real samples: same sites and observed alleles in the same order,
    observation lists equal up to order; same indel table, region depths and multi-site read fragments"""
    c1, c3 = s1.coverage._coverage, s3.coverage._coverage
    if list(c1) != list(c3):
        return f"sites differ: {len(c1)} vs {len(c3)} (first difference {next((a, b) for a, b in zip(list(c1) + [None], list(c3) + [None]) if a != b)})"
    for p in c1:
        if list(c1[p]) != list(c3[p]):
            return f"site {p}: observed alleles {list(c1[p])} vs {list(c3[p])}"
        for o in c1[p]:
            if collections.Counter(map(tuple, c1[p][o])) != collections.Counter(map(tuple, c3[p][o])):
                return f"site {p} allele {o}: observations differ as multisets ({len(c1[p][o])} vs {len(c3[p][o])})"
    if s1.coverage._indels != s3.coverage._indels:
        return "indel support differs"
    if s1.coverage._region_coverage != s3.coverage._region_coverage:
        return "region depths differ"
    # the depth table of the copy-number neutral region (overhanging bases of its reads included: the "sample too shallow"
    # test sums all of it)
    d1 = {p: v for p, v in (getattr(s1, "_dump_cn", None) or {}).items() if v}
    d3 = {p: v for p, v in (getattr(s3, "_dump_cn", None) or {}).items() if v}
    if d1 != d3:
        return f"depth table of the neutral region differs ({len(d1)} vs {len(d3)} covered positions, sums {sum(d1.values())} vs {sum(d3.values())})"
    f1 = sorted(sorted(v.items()) for v in s1.phases.values() if len(v) > 1)
    f3 = sorted(sorted(v.items()) for v in s3.phases.values() if len(v) > 1)
    if f1 != f3:
        return "multi-site read fragments differ"
    return None


def tie(ctx):
    from aldy.genotype import genotype
    from aldy.common import AldyException
    from aldy.profile import Profile
    from aldy.sam import Sample
    r = lib.rng("c17")
    quick = ctx["tier"] == "quick"
    d = sim.scratch_dir()
    fam = {k: {"cases": 0, "disagreements": []} for k in ("dump_format", "dump_replay", "replay_evidence_equivalent")}
    violations = []
    stats = collections.Counter()
    reqs, metas = [], []
    samples = []
    distinct = set()
    try:
        for k in range(10 if quick else 80):
            two = k % 3 == 2
            genes, cnr, pbam, sbam = make_sample(r, d, k, two, sparse_second=(k % 6 == 2), borderline=(k % 10 == 4))
            gap = r.choice(["0", "0", "0.1", "0.3"])
            # some runs without indel realignment: `_parse_read` then keeps the indel support table itself
            extra = {"indelpost": "false"} if k % 4 == 1 else {}
            # reporting / guard switches given on the command line must act on the replay as they did on the run
            if k % 4 == 3:
                extra["display_format"] = "true"
            if k % 12 == 8:
                extra["min_avg_coverage"] = "0.05"   # (a sparse second gene: accepted live with this value, so accepted on replay)
            # every fifth run uses a profile FILE whose options section sets a parameter the command line sets too (the
            # file says min_avg_coverage = 1000, which would reject the sample; the caller says 0.05): the caller's value is
            # in force on the run, it is the one stored in the archive, and it is in force on the replay
            prof_arg, cnr_arg, ntoks = pbam, cnr, ["-n", f"20:{cnr.start}-{cnr.end}"]
            if k % 5 == 0:
                import yaml as _yaml
                from aldy.profile import Profile as _Profile
                regs = {(g_.name, reg, gi): rng for _, g_, _ in genes for gi, gg in enumerate(g_.regions) for reg, rng in gg.items()}
                data = _Profile.get_sam_profile_data(pbam, regions=regs, genome="hg19", cn_region=cnr)
                data["options"] = {"min_avg_coverage": 1000.0}
                prof_arg = os.path.join(d, f"profile{k}.yml")
                with open(prof_arg, "w") as f:
                    f.write(_yaml.dump(data, default_flow_style=None))
                cnr_arg, ntoks = None, []
                extra["min_avg_coverage"] = "0.05"
                stats["profile_file_with_colliding_option"] += 1
            inp = {"genes": [y for y, _, _ in genes], "seed_index": k, "gap": gap, "params": extra, "profile_file_options": k % 5 == 0}
            ptoks = [f"{a}={b}" for a, b in extra.items()]
            gene_arg = ",".join(p for _, _, p in genes)
            # ---- (1) API level: run with debug prefix, then replay each dump file --------------------------
            prefix = os.path.join(d, f"dbg{k}", f"sample{k}")
            os.makedirs(os.path.dirname(prefix), exist_ok=True)
            out1 = os.path.join(d, f"o1_{k}.aldy")
            out2 = os.path.join(d, f"o2_{k}.aldy")
            # ---- (2) CLI level ------------------------------------------------------------------------------
            dbg = os.path.join(d, f"archive{k}")
            argv1 = ["genotype", sbam, "-g", gene_arg, "-p", prof_arg] + ntoks + ["-o", out1, "--debug", dbg, "--genome", "hg19",
                     "--param", f"gap={gap}"] + ptoks
            code1, so1, se1 = run_cli(argv1)
            fam["dump_replay"]["cases"] += 1
            if not os.path.exists(dbg + ".tar.gz"):
                fam["dump_replay"]["disagreements"].append({"why": f"no debug archive written (exit {code1}): {se1[-200:]}", "input": inp})
                continue
            argv2 = ["genotype", dbg + ".tar.gz", "-g", gene_arg, "-o", out2, "--param", f"gap={gap}"] + ptoks
            code2, so2, se2 = run_cli(argv2)
            t1 = open(out1).read() if os.path.exists(out1) else None
            t2 = open(out2).read() if os.path.exists(out2) else None
            stats["cli_runs"] += 1
            if t1 != t2:
                l1, l2 = (t1 or "").split("\n"), (t2 or "").split("\n")
                kk = next((i for i, (a, b) in enumerate(zip(l1, l2)) if a != b), min(len(l1), len(l2)))
                violations.append({"why": f"output file of the replayed archive differs at line {kk}: {l1[kk:kk + 1]} vs {l2[kk:kk + 1]}", "input": inp, "signature": "c17:output_file_differs"})
            # API-level comparison of the solution objects
            try:
                r1 = genotype(gene_arg, sbam, prof_arg, output_file=None, cn_region=cnr_arg, genome="hg19", gap=gap, **extra)
                e1 = None
            except AldyException as e:
                r1, e1 = {}, str(e)[:80]
            try:
                r2 = genotype(gene_arg, dbg + ".tar.gz", None, output_file=None, gap=gap, **extra)
                e2 = None
            except AldyException as e:
                r2, e2 = {}, str(e)[:80]
            if canon_sols(r1) != canon_sols(r2) or (e1 is None) != (e2 is None):
                a, b = canon_sols(r1), canon_sols(r2)
                violations.append({"why": f"replaying the archive gives {str(b)[:200]} (error {e2}), the original run {str(a)[:200]} (error {e1})", "input": inp, "signature": "c17:solutions_differ"})
            stats["genes_in_archive"] += len(genes)
            stats["solutions"] += sum(len(v) for v in r1.values())
            # ---- (3) dump format vs Lean ------------------------------------------------------------------
            for y, g, ypath in genes:
                prof = Profile.load(g, prof_arg, cnr_arg, **extra)
                s1 = Sample(g, prof, sbam, debug=prefix)
                stats["without_indelpost"] += bool(extra)
                dump_path = f"{prefix}.{g.name}.dump"
                with gzip.open(dump_path, "rb") as f:
                    name, pprof, dump_cn, normC, mutsC, phases, fusion_counter, indel_sites = pickle.load(f)
                # raw lists as `_load_sam` produces them
                s_raw = Sample.__new__(Sample)
                s_raw.__dict__.update({kk2: v for kk2, v in s1.__dict__.items()})
                s_raw.phases = {}
                s_raw._indel_sites = {(pos, op): [0, 0] for pos, op in g.mutations if op[:3] in ["ins", "del"]}
                norm, muts = s_raw._load_sam(sbam)
                s2 = Sample.__new__(Sample)
                s2.gene = g
                # the attributes Sample.__init__ sets before loading (as on s1), then the ones a load fills reset
                s2.__dict__.update({kk2: v for kk2, v in s1.__dict__.items() if kk2 in (
                    "path", "_dump_reads", "_indel_sites_eqs", "_indel_phase_eqs", "_multi_sites", "phaseable", "is_long_read", "reads")})
                s2.__dict__.update({"name": "", "profile": None, "_dump_cn": {}, "_fusion_counter": {}, "_indel_sites": {}, "phases": {}})
                norm2, muts2 = s2._load_dump(dump_path)
                keys = [("n", p) for p in norm if norm[p]] + [("m", p) for p in muts if muts[p]]
                lists = [norm[p] if t == "n" else muts[p] for t, p in keys]
                reqs.append({"op": "dump", "sites": [[[lib.frac(a), lib.frac(b)] for a, b in l] for l in lists],
                             "fragments": [[[p, o] for p, o in v.items()] for v in s_raw.phases.values()]})
                metas.append((inp, g.name, keys, normC, mutsC, norm2, muts2, phases, s_raw.phases, name, s2.name, s2.phases))
                # ---- (4) hypothesis of the CovEquiv theorems on the real objects: the evidence of the replayed
                # sample is the original evidence up to the order of the observations of a site ------------------
                fam["replay_evidence_equivalent"]["cases"] += 1
                try:
                    import tarfile
                    tarp = os.path.join(d, f"dbg{k}_{g.name}.tar.gz")
                    with tarfile.open(tarp, "w:gz") as tf:
                        tf.add(os.path.dirname(prefix), arcname="dbg")
                    s3 = Sample(g, None, tarp)
                    bad = evidence_equiv(s1, s3)
                except Exception as e:
                    bad = f"loading the dump raised {type(e).__name__}: {e}"
                if bad:
                    fam["replay_evidence_equivalent"]["disagreements"].append({"why": f"{g.name}: {bad}", "input": inp})
                distinct.add(lib.canon_hash([y, k]))
            if len(samples) < 2:
                samples.append({"genes": [g.name for _, g, _ in genes], "gap": gap, "diplotypes": {os.path.basename(kk3): [s.get_major_diplotype() for s in v] for kk3, v in r1.items()},
                                "output_lines": len((t1 or "").split("\n"))})
        # ---- archives written one after the other to ONE path, for samples on different genome builds, each replayed
        # right after it was written (genome taken from the archive's marker): nothing remembered about the path may
        # stand in for the archive's content
        import tarfile as _tf
        from aldy.common import GRange as _GR
        for sk in range(1 if quick else 4):
            y = gen_gene.gen_gene(r, pseudogene=r.random() < 0.5, deletion=True, fusions=0, offsets=(10000, 20000), allow_mnp=False)
            yp = os.path.join(d, f"shared{sk}.yml")
            with open(yp, "w") as f:
                f.write(y)
            shared = os.path.join(d, f"shared_archive{sk}.tar.gz")
            for build in ("hg19", "hg38"):
                g = gen_gene.load(y, build)
                majors = [a for a, al in g.alleles.items() if al.cn_config == "1"]
                copies = [(a, sorted(g.alleles[a].minors)[0]) for a in (r.choice(majors), r.choice(majors))]
                scnr = _GR("20", 60000, 60400)
                pb_ = os.path.join(d, f"shp{sk}_{build}.bam")
                sb_ = os.path.join(d, f"shs{sk}_{build}.bam")
                ln = sim.chrom_length_for(g)
                sim.write_bam(pb_, sim.simulate_reads(g, [("1", "1.001")] * 2, depth=12, name_prefix="p") + sim.neutral_reads(scnr, 24), length=ln)
                sim.write_bam(sb_, sim.simulate_reads(g, copies, depth=12, name_prefix="s") + sim.neutral_reads(scnr, 24), length=ln)
                ddir = os.path.join(d, f"shd{sk}_{build}", "dbg")
                os.makedirs(ddir, exist_ok=True)
                fam["dump_replay"]["cases"] += 1
                try:
                    r1 = genotype(yp, sb_, pb_, output_file=None, cn_region=scnr, genome=build, debug=os.path.join(ddir, "x"))
                    e1 = None
                except AldyException as e:
                    r1, e1 = {}, str(e)[:80]
                with _tf.open(shared, "w:gz") as t:
                    t.add(ddir, arcname="dbg")
                try:
                    r2 = genotype(yp, shared, None, output_file=None)
                    e2 = None
                except AldyException as e:
                    r2, e2 = {}, str(e)[:80]
                stats["shared_path_replays"] += 1
                if canon_sols(r1) != canon_sols(r2) or (e1 is None) != (e2 is None):
                    violations.append({"why": f"archive of the {build} sample (written to a path that held another sample's archive before): replay gives {str(canon_sols(r2))[:160]} (error {e2}), "
                                              f"the run {str(canon_sols(r1))[:160]} (error {e1})", "input": {"gene_yaml": y, "builds": ["hg19", "hg38"], "shared_path": True},
                                       "signature": "c17:shared_path_replay_differs"})
        # ---- a named profile: `wxs` / `exome` switch copy-number calling off (two copies assumed), `wgs` is an alias
        # of the full model; the replay of the archive must make the same choice. Three gene copies simulated.
        import tarfile
        import views
        from aldy.common import GRange
        for pk, pname in enumerate(["wxs"] if quick else ["wxs", "exome", "wgs"]):
            g = views.shipped_gene("cyp2d6", "hg19")
            ncnr = GRange("22", 42547463, 42548249)
            first = sorted(g.alleles["1"].minors)[0]
            reads = sim.simulate_reads(g, [("1", first)] * 3, depth=10, read_len=100, name_prefix="s") + sim.neutral_reads(ncnr, 20, read_len=100)
            nbam = os.path.join(d, f"named{pk}.bam")
            sim.write_bam(nbam, reads, chrom="22", length=51304566)
            ndir = os.path.join(d, f"named{pk}", "dbg")
            os.makedirs(ndir, exist_ok=True)
            inp = {"sample": "three simulated copies of CYP2D6*1", "gene": "cyp2d6", "profile": pname}
            fam["dump_replay"]["cases"] += 1
            try:
                r1 = genotype("cyp2d6", nbam, pname, output_file=None, debug=os.path.join(ndir, "x"))
                e1 = None
            except AldyException as e:
                r1, e1 = {}, str(e)[:80]
            ntar = os.path.join(d, f"named{pk}", "a.tar.gz")
            with tarfile.open(ntar, "w:gz") as t:
                t.add(ndir, arcname="dbg")
            try:
                r2 = genotype("cyp2d6", ntar, pname, output_file=None)
                e2 = None
            except AldyException as e:
                r2, e2 = {}, str(e)[:80]
            stats["named_profile_replays"] += 1
            if canon_sols(r1) != canon_sols(r2) or (e1 is None) != (e2 is None):
                violations.append({"why": f"profile {pname}: replaying the archive gives {str(canon_sols(r2))[:200]} (error {e2}), the original run {str(canon_sols(r1))[:200]} (error {e1})",
                                   "input": inp, "signature": "c17:named_profile_replay_differs"})
        if not quick:
            # the shipped sample of the test-suite: reads run past the RefSeq window of CYP2D6 there
            import tarfile
            bam = os.path.join(lib.REPO, "aldy/tests/resources/NA10860.bam")
            dbgdir = os.path.join(d, "na", "dbg")
            os.makedirs(dbgdir, exist_ok=True)
            r1 = genotype("cyp2d6", bam, "pgx2", output_file=None, debug=os.path.join(dbgdir, "NA10860"))
            tar = os.path.join(d, "na", "a.tar.gz")
            with tarfile.open(tar, "w:gz") as t:
                t.add(dbgdir, arcname="dbg")
            r2 = genotype("cyp2d6", tar, None, output_file=None)
            fam["dump_replay"]["cases"] += 1
            stats["shipped_sample_replays"] += 1

            def exact(res):
                return [(s.get_major_diplotype(), repr(s.score), repr(s.major_solution.score), repr(s.major_solution.cn_solution.score)) for v in res.values() for s in v]
            if exact(r1) != exact(r2):
                violations.append({"why": f"NA10860 / CYP2D6: replaying the debug archive gives {exact(r2)[:1]}, the original run {exact(r1)[:1]}", "input": {"sample": "NA10860", "gene": "cyp2d6", "profile": "pgx2"},
                                   "signature": "c17:shipped_sample_replay_differs"})
    finally:
        shutil.rmtree(d, ignore_errors=True)
    outs = lib.driver_batch(reqs)
    for (inp, gname, keys, normC, mutsC, norm2, muts2, phases, raw_phases, name1, name2, ph2), o in zip(metas, outs):
        fam["dump_format"]["cases"] += 1
        bad = None
        for (t, p), comp, exp in zip(keys, o["compressed"], o["expanded"]):
            realC = (normC if t == "n" else mutsC).get(p)
            real_counter = {(Fraction(a), Fraction(b)): n for (a, b), n in (realC or {}).items()}
            model_counter = {(Fraction(a), Fraction(b)): n for a, b, n in comp}
            if real_counter != model_counter:
                bad = f"counter of site {p} in the dump differs from the model"
                break
            real_exp = sorted((Fraction(a), Fraction(b)) for a, b in (norm2 if t == "n" else muts2).get(p, []))
            if real_exp != sorted((Fraction(a), Fraction(b)) for a, b in exp):
                bad = f"observations of site {p} loaded from the dump differ from the model"
                break
        mp = sorted(sorted((a, b) for a, b in fr) for fr in o["phases"])
        rp = sorted(sorted(v.items()) for v in phases)
        if bad is None and mp != rp:
            bad = "phase table in the dump differs from the model"
        if bad is None and sorted(sorted(v.items()) for v in ph2.values()) != rp:
            bad = "phase table loaded from the dump differs from the written one"
        if bad is None and name1 != name2:
            bad = f"sample name {name2!r} loaded from the dump, written {name1!r}"
        if bad:
            fam["dump_format"]["disagreements"].append({"why": f"{gname}: {bad}", "input": inp})
    firstv = {}
    for v in violations:
        firstv.setdefault(v["signature"], v)
    return {"families": fam, "violations": list(firstv.values()), "evaluations": len(metas) + stats["cli_runs"], "distinct_nontrivial": len(distinct),
            "rule": "simulated BAMs over 1-2 generated genes (2-3 planted copies, unequal depth, read length 40-100, optional multi-substitutions) genotyped through the real command line with --debug, the archive genotyped again; gap in {0,0.1,0.3}, a quarter of the runs with indelpost=false; three simulated copies of CYP2D6 under the named profiles wxs / exome / wgs; plus per gene the pickled dump compared with the model; distinct by (gene database, sample index)",
            "samples": samples, "stats": dict(stats)}


def search(ctx, hints):
    res = tie({**ctx, "tier": "quick"})
    return {"violations": res["violations"], "cases_searched": res["evaluations"]}
