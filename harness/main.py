#!/venv/bin/python
"""
./check <Cxx> [--tier quick|thorough] [--replay file]

Flow (DESIGN.md section 2.4):
  0. corpus first            1. regenerate Generated/Constants.lean from /repo
  2. lake build + axiom/grep audit of Props/<Cxx>      3. correspondence run(s)
  all green -> evidence, KNOWN-FINDING lines, exit 0
  anything red -> SEARCH for a failing input on the implementation
        found (not a listed finding) -> VIOLATION property=.. replay=..               exit 1
        none                        -> VIOLATION property=.. replay=.. no-failing-input-found  exit 1
  tool trouble -> exit 2 (never a VIOLATION line)
"""
import argparse
import importlib
import json
import os
import sys
import time
import traceback

sys.path.insert(0, os.path.dirname(os.path.abspath(__file__)))
import lib  # noqa: E402


def main():
    ap = argparse.ArgumentParser()
    ap.add_argument("pid")
    ap.add_argument("--tier", default=os.environ.get("VERIF_TIER", "quick"), choices=["quick", "thorough"])
    ap.add_argument("--replay", default=None)
    args = ap.parse_args()
    if os.environ.get("VERIF_TIER") in ("quick", "thorough"):
        args.tier = os.environ["VERIF_TIER"]
    pid = args.pid.upper()
    t0 = time.time()
    try:
        mod = importlib.import_module(pid.lower())
    except ModuleNotFoundError:
        print(f"no check for {pid}")
        return 2

    ctx = {"tier": args.tier, "seed": lib.seed(), "pid": pid, "replay": None}
    if args.replay:
        with open(args.replay) as f:
            ctx["replay"] = json.load(f)

    broken = []       # obligations that no longer check
    hints = []        # inputs on which model and implementation disagreed
    notes = []

    # 1. constants
    ok, msg, stale = lib.regenerate_constants()
    notes.append(msg)
    if not ok:
        mine = None if stale is None else sorted(set(stale) & lib.constants_used(mod.PROPS + list(getattr(mod, "MODELS", []))))
        if mine is None or mine:
            broken.append({"kind": "extractor", "name": "Generated/Constants.lean", "detail": msg + (f" (constants of this property kept from the last good extraction: {mine})" if mine else "")})
        else:
            notes.append("the stale constants are not used by this property's models or theorems")
            ok = True

    # 2. build + audit
    build_ok = False
    axioms = {}
    # (with stale sections the constants file carries their last good values: the models still build, and the
    # correspondence below shows on which inputs code and model now differ)
    if ok or stale is not None:
        b_ok, out, dt = lib.lake_build(tuple(mod.PROPS) + tuple(getattr(mod, "MODELS", [])) + ("driver",))
        notes.append(f"lake build: {'ok' if b_ok else 'FAILED'} in {dt:.1f}s")
        if not b_ok:
            errs = [l for l in out.splitlines() if "error" in l][:8]
            # a proof or model that no longer checks is reported by Lean with a source position; anything else (compiler,
            # linker, file system) is trouble of the tooling, never a statement about the code under test
            if not any(".lean:" in l for l in errs):
                raise lib.ToolTrouble("lake build failed without a Lean error position:\n" + "\n".join(errs))
            broken.append({"kind": "proof", "name": "lake build (Props/Lemmas/Model no longer check against the regenerated constants)",
                           "detail": "\n".join(errs)})
        else:
            build_ok = True
            a_ok, axioms, amsg = lib.audit(mod.PROPS)
            notes.append("audit: " + amsg)
            if not a_ok:
                # an audit failure is a defect of the framework, not of the code
                raise lib.ToolTrouble("audit failed: " + amsg)
            if args.tier == "thorough" and os.environ.get("VERIF_SKIP_LEANCHECKER") != "1":
                rc, out2, dt2 = lib.run_cmd(["lake", "env", "leanchecker", *mod.PROPS], cwd=lib.LEAN, timeout=3000)
                notes.append(f"leanchecker {' '.join(mod.PROPS)}: rc={rc} in {dt2:.0f}s")
                if rc != 0:
                    raise lib.ToolTrouble("leanchecker rejected the compiled proofs:\n" + out2[-1500:])

    # 3. correspondence
    tie = None
    if build_ok:
        tie = mod.tie(ctx)
        for fam, r in tie["families"].items():
            if r.get("disagreements"):
                broken.append({"kind": "tie", "name": fam, "detail": r["disagreements"][0].get("why", ""),
                               "count": len(r["disagreements"]), "input": r["disagreements"][0].get("input")})
                hints += [d for d in r["disagreements"][:20]]

    violations = list(tie.get("violations", [])) if tie else []
    known = lib.known_findings(pid)

    def matches_known(v):
        for k in known:
            if k["signature"] == v.get("signature"):
                return k
        return None

    # 4. search (only when something is red that is not a listed finding)
    searched = None
    if broken or any(not matches_known(v) for v in violations):
        searched = mod.search(ctx, hints)
        violations += searched.get("violations", [])

    new_viol = [v for v in violations if not matches_known(v)]
    listed = {}
    for v in violations:
        k = matches_known(v)
        if k:
            listed.setdefault(k["id"], (k, v))

    n_thm = len(axioms)
    fams = list(tie["families"].keys()) if tie else []
    obligations = max(1, n_thm + len(fams))
    failed_ties = {b["name"] for b in broken if b["kind"] == "tie"}
    discharged = (n_thm if build_ok else 0) + len([f for f in fams if f not in failed_ties])
    coverage = {
        "obligations": obligations,
        "discharged": discharged,
        "checker_cmd": "cd lean && lake build && lake env lean <audit file with #print axioms>" + (" && lake env leanchecker " + " ".join(mod.PROPS) if args.tier == "thorough" else ""),
        "trusted_base": lib.TRUSTED_BASE + getattr(mod, "TRUSTED_EXTRA", []),
        "theorems": axioms,
        "tie_families": {f: {k: v for k, v in r.items() if k != "disagreements"} | {"disagreements": len(r.get("disagreements", []))}
                         for f, r in (tie["families"].items() if tie else [])},
        "evaluations": tie.get("evaluations", 0) if tie else 0,
        "distinct_nontrivial": tie.get("distinct_nontrivial", 0) if tie else 0,
        "rule": tie.get("rule", "") if tie else "",
        "samples": (tie.get("samples", []) if tie else [])[:5] or [{"note": "no correspondence run (build broken)"}],
        "stats": tie.get("stats", {}) if tie else {},
        "broken_obligations": broken,
        "search": {k: v for k, v in (searched or {}).items() if k != "violations"},
        "known_findings_replayed": sorted(listed.keys()),
        "notes": notes,
    }
    wall = time.time() - t0
    lib.write_evidence(pid, args.tier, coverage, wall, len(new_viol), getattr(mod, "ASSUMPTIONS", []))

    for kid, (k, v) in sorted(listed.items()):
        print(f"KNOWN-FINDING: property={pid} {k['what']}")

    if new_viol:
        v = new_viol[0]
        path = lib.write_replay(pid, {"property": pid, "seed": lib.seed(), "tier": args.tier, "violation": v,
                                      "broken_obligations": broken, "more": new_viol[1:5]})
        print(f"{pid}: {v.get('why', '')}"[:400])
        print(f"VIOLATION property={pid} replay={path}")
        return 1
    if broken:
        path = lib.write_replay(pid, {"property": pid, "seed": lib.seed(), "tier": args.tier,
                                      "no_failing_input_found": True, "broken_obligations": broken,
                                      "search": coverage["search"]})
        for b in broken:
            print(f"{pid}: obligation no longer checks: [{b['kind']}] {b['name']}: {str(b.get('detail'))[:300]}")
        print(f"VIOLATION property={pid} replay={path} no-failing-input-found")
        return 1
    print(f"{pid}: ok ({discharged}/{obligations} obligations, {coverage['evaluations']} cases, {wall:.0f}s)")
    return 0


if __name__ == "__main__":
    try:
        sys.exit(main())
    except lib.ToolTrouble as e:
        print(f"TOOL-TROUBLE: {e}")
        sys.exit(2)
    except Exception:
        traceback.print_exc()
        print("TOOL-TROUBLE: unexpected exception in the harness")
        sys.exit(2)
