"""C03 - gene-structure (copy number) calls are well-formed and optimal.

Ties:
  cn_structure : model captured from the real `solve_cn_model` at its first solve == Lean `CNInst.build`
  cn_fold      : real returned list == Lean `foldCN` of the real yields (decode + first-wins fold)
  cn_filter    : `_filter_configs` == Lean `filterConfigs`
  cn_decision  : `estimate_cn` decision table (user structure verbatim / unknown rejected / default
                 copies when calling is off / too-low-coverage error / solve with max_cn) == Lean `cnDecision`
Always-on oracle (= search): spec-level enumeration of every admissible internal assignment
(two complete slots, deletion exclusivity, ordered weak/pseudo copies) with the documented
objective in exact rationals; clause-by-clause check of the real return.
"""
import collections
import itertools
import math
from fractions import Fraction

import instances
import lib
import lp
import views

PID = "C03"
PROPS = ["Aldy.Props.C03", "Aldy.Props.C03Spec"]
TRUSTED_EXTRA = ["GeneView serialiser (harness/views.py)"]
ASSUMPTIONS = ["depth vectors on a 0.01 grid"]
SPEC_EPS = Fraction(1, 100000)
TOL = Fraction(1, 10**6)


def F(x):
    return Fraction(repr(float(x)))


class Recorder(lp.Capture):
    """additionally records what `solutions()` yields"""

    def __enter__(self):
        super().__enter__()
        inner = self._lpi.model
        rec = self
        rec.yields = []

        def model(name, solver):
            m = inner(name, solver)
            orig = m.solutions

            def solutions(*a, **k):
                for y in orig(*a, **k):
                    rec.yields.append(y)
                    yield y

            m.solutions = solutions
            return m

        self._lpi.model = model
        return self


def gen_cn_instance(r, gdesc):
    gene, gid = instances.load_gene(gdesc)
    configs = list(gene.cn_configs)
    # planted structure
    dele = gene.deletion_allele()
    mode = r.random()
    if dele and mode < 0.12:
        two = [dele, dele]
    elif dele and mode < 0.25:
        two = [dele, r.choice(configs)]
    else:
        two = [r.choice(configs) if r.random() < 0.5 else "1" for _ in range(2)]
    extra = ["1"] * (0 if two == [dele, dele] else r.choice([0, 0, 0, 1, 1, 2, 3]))
    planted = two + extra
    depth = {}
    extra_p = r.choice([1, 1, 2, 3]) if r.random() < 0.25 else 0
    for reg in gene.unique_regions:
        g = sum(gene.cn_configs[c].cn[0].get(reg, 0) for c in two) + len(extra) * gene.cn_configs["1"].cn[0].get(reg, 0)
        p = 0
        if len(gene.regions) > 1:
            p = sum(gene.cn_configs[c].cn[1].get(reg, 0) for c in two)
            if extra_p:
                p += extra_p
        noise = r.random() < 0.8
        g = Fraction(g) + (Fraction(r.randint(-50, 50), 100) if noise else 0)
        p = Fraction(p) + (Fraction(r.randint(-50, 50), 100) if noise and len(gene.regions) > 1 else 0)
        depth[reg] = [str(max(Fraction(0), g)), str(max(Fraction(0), p))]
    if r.random() < 0.1:
        depth = {k: v for k, v in depth.items() if r.random() < 0.8} or depth
    prof = {}
    if r.random() < 0.5:
        prof["gap"] = r.choice(["0", "0.1", "0.3"])
    if r.random() < 0.2:
        prof["cn_max"] = r.choice(["2", "3", "20"])
    if r.random() < 0.2:
        prof["cn_parsimony"] = r.choice(["0.5", "1", "0.25"])
    if r.random() < 0.15:
        prof["cn_fusion_left"] = r.choice(["0", "1"])
    if r.random() < 0.15:
        prof["cn_diff"] = r.choice(["10", "5", "1"])
    use = configs if r.random() < 0.8 else [c for c in configs if c == "1" or c == gene.deletion_allele() or r.random() < 0.6]
    fs = None
    fusions = [c for c in configs if gene.cn_configs[c].kind.name.endswith("FUSION")]
    if fusions and r.random() < 0.2:
        fs = {f: r.choice(["0", "0.05", "0.2", "0.5"]) for f in fusions if r.random() < 0.8}
    return {"gene": gdesc, "configs": use, "max_cn": r.randint(3, 6), "depth": depth, "profile": prof, "fusion_support": fs, "planted": planted}


def build_inst(desc):
    gene, gid = instances.load_gene(desc["gene"])
    prof = instances.make_profile(desc["profile"])
    configs = {c: gene.cn_configs[c] for c in desc["configs"]}
    region_cov = {k: (float(Fraction(v[0])), float(Fraction(v[1]))) for k, v in desc["depth"].items()}
    fs = None if desc["fusion_support"] is None else {k: float(Fraction(v)) for k, v in desc["fusion_support"].items()}
    return gene, gid, prof, configs, region_cov, fs


def run_real(desc):
    from aldy import cn
    gene, gid, prof, configs, region_cov, fs = build_inst(desc)
    with Recorder() as rec:
        res = cn.solve_cn_model(gene, prof, configs, desc["max_cn"], region_cov, "cbc", None, fs)
    snap = rec.snaps[0][1] if rec.snaps else None
    return {"gene": gene, "gid": gid, "prof": prof, "snap": snap, "result": res, "yields": rec.yields}


def oracle(desc, real):
    """spec-level enumeration (floats, compared with tolerance 1e-6); returns (reasons, stats)"""
    gene, gid, prof, configs, region_cov, fs = build_inst(desc)
    max_cn = desc["max_cn"]
    dele = gene.deletion_allele()
    kinds = {n: gene.cn_configs[n].kind.name for n in gene.cn_configs}
    base = [n for n in configs if not fs or n == "1" or (dele and n == dele) or (n in fs and fs[n] >= 1 / (2 * max_cn) - 1e-12)]
    U = gene.unique_regions
    nU = len(U)
    PP = 10.0 / nU * 0.75
    pen = {}
    for n in base + ["PSEUDO"]:
        p = PP
        if n in gene.cn_configs and kinds[n] == "RIGHT_FUSION":
            p += PP * float(prof.cn_fusion_right)
        if n in gene.cn_configs and kinds[n] == "LEFT_FUSION":
            p += PP * float(prof.cn_fusion_left)
        pen[n] = p
    has_pseudo = len(gene.regions) > 1
    rows = [(reg, float(c0), float(c1)) for reg, (c0, c1) in region_cov.items() if reg in U]
    cn_max = float(prof.cn_max)
    wdiff = [float(prof.cn_diff) / nU * (float(prof.cn_pce_penalty) if reg == "pce" else 1.0) / (max(c0, c1) + 1) for reg, c0, c1 in rows]
    wfit = float(prof.cn_fit) / nU
    pars = float(prof.cn_parsimony)

    def vec(n, weak=False):
        c = gene.cn_configs[n].cn
        g0 = [c[0].get(reg, 0) for reg, _, _ in rows]
        g1 = [(c[1].get(reg, 0) if reg in c[1] else 0) - (1 if weak and reg in c[1] else 0) for reg, _, _ in rows] if len(c) > 1 else [0] * len(rows)
        return g0, g1

    V = {n: vec(n) for n in base}
    weak_names = [n for n in base if kinds[n] == "DEFAULT"]
    W = {n: vec(n, weak=True) for n in weak_names}
    points = {}
    n_assign = 0
    pseudo_possible = has_pseudo and dele is not None and dele in base
    nr = len(rows)
    for a, b in itertools.combinations_with_replacement(base, 2):
        dd = dele and a == dele and b == dele
        base_g = [V[a][0][i] + V[b][0][i] for i in range(nr)]
        base_p = [V[a][1][i] + V[b][1][i] for i in range(nr)]
        weak_ranges = [range(0, 1 if dd else max_cn) for _ in weak_names]
        pseudo_range = range(0, max_cn + 1) if (pseudo_possible and not dd) else range(0, 1)
        for weak_counts in itertools.product(*weak_ranges):
            g1 = list(base_g)
            p1 = list(base_p)
            for n, k in zip(weak_names, weak_counts):
                if k:
                    for i in range(nr):
                        g1[i] += k * W[n][0][i]
                        p1[i] += k * W[n][1][i]
            for np_ in pseudo_range:
                n_assign += 1
                obj = 0.0
                ok = True
                for i in range(nr):
                    eg = g1[i] + (np_ * V[dele][0][i] if np_ else 0)
                    ep = p1[i] + (np_ * V[dele][1][i] if np_ else 0)
                    c0, c1 = rows[i][1], rows[i][2]
                    d_raw = (c0 - c1) - (eg - ep)
                    e_fit = c0 - eg
                    if abs(d_raw) / (max(c0, c1) + 1) > cn_max + 1e-9 or abs(e_fit) > cn_max + 1e-9:
                        ok = False
                        break
                    obj += wdiff[i] * abs(d_raw) + wfit * abs(e_fit)
                if not ok:
                    continue
                slots = [a, b] + [n for n, k in zip(weak_names, weak_counts) for _ in range(k)] + ["PSEUDO"] * np_
                obj += pars * sum(pen[s] for s in slots)
                dec = tuple(sorted(s for s in slots if s != "PSEUDO" and s != dele))
                if dec not in points or obj < points[dec]:
                    points[dec] = obj
    why = []
    res = real["result"]
    gap = float(prof.gap)
    eps, tol = 1e-5, 1e-6
    best = min(points.values()) if points else None
    seen = set()
    for s in res:
        dec = tuple(sorted(c for c, k in s.solution.items() for _ in range(k)))
        nondef = collections.Counter(c for c in dec if kinds.get(c) != "DEFAULT")
        if any(v > 2 for v in nondef.values()):
            why.append(f"structure {dec} uses a fusion/deletion configuration more than twice")
        if dec in seen:
            why.append(f"structure {dec} reported twice")
        seen.add(dec)
        if dec not in points:
            why.append(f"structure {dec} is not admissible (no assignment with two complete haplotypes explains it)")
            continue
        if abs(s.score - points[dec]) > tol:
            why.append(f"structure {dec}: reported score {s.score} but the objective of its best explanation is {points[dec]}")
        if points[dec] >= (1 + gap) * best + eps + tol:
            why.append(f"structure {dec} (score {points[dec]}) lies outside the gap of the optimum {best}")
    if best is not None:
        if not res:
            why.append(f"no structure reported although admissible ones exist (optimum {best})")
        elif min(s.score for s in res) - best > tol:
            why.append(f"best reported score {min(s.score for s in res)} but a structure with objective {best} exists")
        rep = {tuple(sorted(c for c, k in s.solution.items() for _ in range(k))): s.score for s in res}
        for dec, o in points.items():
            if o < (1 + gap) * best + eps - tol and dec not in rep:
                cd = collections.Counter(dec)
                if not any(all(cd[c] >= k for c, k in collections.Counter(rd).items()) and ro <= o + tol for rd, ro in rep.items()):
                    why.append(f"admissible within-gap structure {dec} (objective {o}) is not reported and contains no reported structure that scores no worse")
                    break
    elif res:
        why.append("structures reported although none is admissible")
    return why, {"assignments": n_assign, "structures": len(points), "best": best}


def decision_cases(r, pool):
    """inputs for the estimate_cn decision table"""
    cases = []
    for gdesc in pool:
        gene, gid = instances.load_gene(gdesc)
        cfgs = list(gene.cn_configs)
        # names of star-alleles that are not names of structures are unknown structures like any other name
        not_cfg = [a for a in gene.alleles if a not in gene.cn_configs][:1] + [mi for a in gene.alleles.values() for mi in a.minors if mi not in gene.cn_configs][:1]
        for user in (None, ["1", "1"], ["1"], [cfgs[-1], "1"], ["1", "nope"], ["zz"], cfgs[:3], []) + tuple(["1", x] for x in not_cfg):
            for male in (False, True):
                cases.append({"gene": gdesc, "user": user, "male": male, "do_copy_number": r.random() < 0.6,
                              "chr": r.choice(["X", "Y", "20", None]),
                              "depth_scale": r.choice(["0", "0.1", "0.4", "1", "2.3"])})
    return cases


def run_decision(case):
    """call the real estimate_cn with stage solve stubbed out; returns canonical decision"""
    from aldy import cn
    from aldy.common import AldyException
    gene0, gid = instances.load_gene(case["gene"])
    import copy
    gene = copy.copy(gene0)
    gene.do_copy_number = case["do_copy_number"]
    if case["chr"] is not None:
        gene.chr = case["chr"]
    user_before = list(case["user"]) if case["user"] is not None else None
    prof = instances.make_profile({}, cn_solution=case["user"])
    prof.male = case["male"]  # set directly: Profile.update's boolean parsing is the subject of C18
    sc = float(Fraction(case["depth_scale"]))

    class FakeSam:
        _fusion_counter = {}

    class FakeCov:
        profile = prof
        sam = FakeSam()

        def region_coverage(self, gi, reg):
            return sc * gene.cn_configs["1"].cn[gi].get(reg, 0) * 2 + (0.37 if sc else 0.0)

        def filtered(self, f):
            return self

        def __getitem__(self, m):
            return 100

    called = {}
    orig = cn.solve_cn_model
    orig_f = cn._filter_configs
    orig_p = cn._print_coverage

    def fake_solve(gene_, profile_, configs_, max_cn, region_cov, solver, debug=None, fusion_support=None):
        called["max_cn"] = max_cn
        return []

    cn.solve_cn_model = fake_solve
    cn._filter_configs = lambda g, c: dict(g.cn_configs)
    cn._print_coverage = lambda g, c: None
    try:
        try:
            res = cn.estimate_cn(gene, prof, FakeCov(), "cbc")
        except AldyException as e:
            msg = str(e)
            if "unknown copy number configuration" in msg:
                return {"kind": "unknown", "name": msg.split("configuration ")[1].split(". Please run")[0]}, gene
            if "too low" in msg:
                return {"kind": "too_low"}, gene
            return {"kind": "error", "msg": msg}, gene
    finally:
        cn.solve_cn_model = orig
        cn._filter_configs = orig_f
        cn._print_coverage = orig_p
    if user_before is not None and list(case["user"]) != user_before:
        return {"kind": "error", "msg": f"the caller's structure list was rewritten in place: {user_before} -> {list(case['user'])}"}, gene
    if "max_cn" in called:
        return {"kind": "solve", "max_cn": called["max_cn"]}, gene
    s = res[0]
    sol = sorted(c for c, k in s.solution.items() for _ in range(k))
    if case["user"]:
        return {"kind": "user", "sol": sol, "score": s.score}, gene
    return {"kind": "fixed", "sol": sol, "score": s.score}, gene


def decision_request(case, gene):
    sc = Fraction(case["depth_scale"])
    add = Fraction(37, 100) if sc else Fraction(0)
    allcov = [sc * gene.cn_configs["1"].cn[gi].get(reg, 0) * 2 + add for gi, g in enumerate(gene.regions) for reg in g]
    rows = [[lib.frac(sc * gene.cn_configs["1"].cn[0].get(reg, 0) * 2 + add),
             lib.frac(sc * gene.cn_configs["1"].cn[1].get(reg, 0) * 2 + add if len(gene.regions) > 1 else 0)] for reg in gene.unique_regions]
    return {"op": "cn_decision", "gene": {"ref": None}, "user": case["user"], "do_copy_number": case["do_copy_number"], "male": case["male"],
            "chr_xy": gene.chr in ["X", "Y"], "all_region_cov": [lib.frac(x) for x in allcov], "rows": rows}


def exome_history():
    """`where copy-number calling is unavailable (exome profile ...) exactly two default copies are assumed` - and only
    there: a run with a copy-number capable profile estimates the structure also when the same gene was genotyped with
    an exome profile earlier in the process"""
    import os
    import shutil
    import sim
    from aldy.genotype import genotype
    from aldy.common import GRange, AldyException
    d = sim.scratch_dir()
    try:
        g = views.shipped_gene("cyp2d6", "hg19")
        cnr = GRange("22", 42547463, 42548249)
        first = sorted(g.alleles["1"].minors)[0]
        reads = sim.simulate_reads(g, [("1", first)] * 3, depth=10, read_len=100, name_prefix="s") + sim.neutral_reads(cnr, 20, read_len=100)
        bam = os.path.join(d, "x.bam")
        sim.write_bam(bam, reads, chrom="22", length=51304566)
        out = []
        for prof in ("wxs", "wgs"):
            try:
                res = genotype("cyp2d6", bam, prof, output_file=None)
                out.append(sorted(tuple(sorted(dict(s_.major_solution.cn_solution.solution).items())) for s_ in list(res.values())[0]))
            except AldyException as e:
                out.append("ERROR " + str(e)[:60])
        if out[0] != [(("1", 2),)]:
            return f"exome profile: structure {out[0]} instead of two default copies"
        if out[1] == [(("1", 2),)] or isinstance(out[1], str):
            return f"three gene copies, profile wgs after an exome run of the same gene in this process: structure {out[1]} (two default copies assumed / failed instead of estimated)"
        return None
    finally:
        shutil.rmtree(d, ignore_errors=True)


def cn_pool(r, quick):
    pool = [{"kind": "toy", "genome": "hg19"}, {"kind": "toy", "genome": "hg38"}]
    import gen_gene
    for i in range(14 if quick else 80):
        pool.append({"kind": "generated", "genome": r.choice(["hg19", "hg38"]),
                     "yaml": gen_gene.gen_gene(r, pseudogene=r.random() < 0.8, deletion=r.random() < 0.8)})
    for nme in (["cyp2d6", "cyp2a6", "gstm1"] if not quick else [r.choice(["cyp2d6", "cyp2a6", "gstm1"])]):
        pool.append({"kind": "shipped", "name": nme, "genome": r.choice(["hg19", "hg38"])})
    return pool


def filter_cases(r, pool, n):
    out = []
    for i in range(n):
        inst = instances.major_instance(r, pool[i % len(pool)])
        if inst is not None:
            out.append(inst)
    return out


def tie(ctx):
    r = lib.rng("c03")
    quick = ctx["tier"] == "quick"
    pool = cn_pool(r, quick)
    descs = []
    if ctx.get("replay") and "violation" in ctx["replay"] and "depth" in (ctx["replay"]["violation"].get("input") or {}):
        descs.append(ctx["replay"]["violation"]["input"])
    for fn, cj in lib.load_corpus(PID):
        descs.append(cj)
    n = 300 if quick else 5000
    while len(descs) < n:
        descs.append(gen_cn_instance(r, pool[len(descs) % len(pool)]))
    reqs = []
    put = set()
    runs = []

    def ensure_gene(gene, gid, positions=()):
        if gid not in put:
            put.add(gid)
            reqs.append({"op": "put", "id": gid, "value": views.gene_view(gene, positions)})

    for d in descs:
        real = run_real(d)
        ensure_gene(real["gene"], real["gid"])
        real["i0"] = len(reqs)
        reqs.append({"op": "cn_build", "gene": {"ref": real["gid"]}, "profile": views.profile_view(real["prof"]), "configs": d["configs"],
                     "max_cn": d["max_cn"], "region_cov": [[k, [lib.frac(Fraction(v[0])), lib.frac(Fraction(v[1]))]] for k, v in d["depth"].items()],
                     "fusion_support": [] if not d["fusion_support"] else [[k, lib.frac(Fraction(v))] for k, v in d["fusion_support"].items()]})
        from aldy.lpinterface import escape_name
        lookup = {escape_name(f"CN_{n}_{i}"): [n, i] for n in list(d["configs"]) + ["PSEUDO"] for i in range(-1, d["max_cn"] + 1)}
        reqs.append({"op": "cn_fold", "del": real["gene"].deletion_allele(),
                     "yields": [[lib.frac(o), [lookup.get(v, ["?" + v, 0]) for v in sol]] for (_, o, sol) in real["yields"]]})
        # spec level (Props/C03Spec): documented score of every yielded selection, decided by Lean without the ILP
        reqs.append({**reqs[real["i0"]], "op": "cn_spec", "selections": [[lookup.get(v, ["?" + v, 0]) for v in sol] for (_, o, sol) in real["yields"]]})
        runs.append((d, real))
    # _filter_configs
    fcases = filter_cases(r, pool, 60 if quick else 600)
    from aldy import cn as cnmod
    fruns = []
    for inst in fcases:
        ensure_gene(inst["gene"], inst["gene_id"], inst["positions"])
        realc = cnmod._filter_configs(inst["gene"], inst["cov"])
        fruns.append((inst, sorted(realc), len(reqs)))
        reqs.append({"op": "cn_filter", "gene": {"ref": inst["gene_id"]}, "profile": views.profile_view(inst["profile"]), "cov": views.cov_view(inst["cov"])})
    # decision table
    druns = []
    for case in decision_cases(r, pool[:6] if quick else pool[:30]):
        dec, gene = run_decision(case)
        gene0, gid = instances.load_gene(case["gene"])
        ensure_gene(gene0, gid)
        rq = decision_request(case, gene)
        rq["gene"] = {"ref": gid}
        druns.append((case, dec, len(reqs)))
        reqs.append(rq)
    outs = lib.driver_batch(reqs)

    fam = {k: {"cases": 0, "disagreements": []} for k in ("cn_structure", "cn_fold", "cn_filter", "cn_decision", "cn_spec_score")}
    violations = []
    stats = collections.Counter()
    famhit = collections.Counter()
    distinct = set()
    samples = []
    for d, real in runs:
        fam["cn_structure"]["cases"] += 1
        if real["snap"] is None:
            fam["cn_structure"]["disagreements"].append({"why": "solve_cn_model solved no model", "input": d})
        else:
            diffs = lp.compare(real["snap"], lp.from_lean(outs[real["i0"]]))
            for c in real["snap"]["cons"]:
                famhit[c[3].split("_")[0] if not c[3].startswith("C_COV") and not c[3].startswith("CG_COV") else c[3][:6]] += 1
            if diffs:
                fam["cn_structure"]["disagreements"].append({"why": "model built by solve_cn_model differs from CNInst.build: " + diffs[0], "diffs": diffs[:8], "input": d})
        fam["cn_fold"]["cases"] += 1
        lean_fold = [(tuple(e[0]), Fraction(e[1])) for e in outs[real["i0"] + 1]]
        real_fold = [(tuple(sorted(c for c, k in s.solution.items() for _ in range(k))), Fraction(s.score)) for s in real["result"]]
        if lean_fold != real_fold:
            fam["cn_fold"]["disagreements"].append({"why": f"returned structures {real_fold[:3]} differ from the fold of the yields {lean_fold[:3]}", "input": d})
        # cn_optimum_is_spec_min: the objective reported for a yielded selection is its documented score
        osp = outs[real["i0"] + 2]
        for (_, o, sol), sp in zip(real["yields"], osp["spec"]):
            fam["cn_spec_score"]["cases"] += 1
            if not osp["rows_nodup"]:
                stats["spec_hypothesis_fails"] += 1
            elif abs(float(Fraction(sp)) - o) > 1e-6:
                fam["cn_spec_score"]["disagreements"].append({"why": f"objective {o} reported for the selection {sorted(sol)} differs from its documented score specCN = {float(Fraction(sp))}", "input": d})
        why, st = oracle(d, real)
        stats["oracle_assignments"] += st["assignments"]
        if why:
            violations.append({"why": why[0], "all": why[:6], "input": d,
                               "observed": [{"solution": dict(s.solution), "score": s.score} for s in real["result"][:6]],
                               "signature": "c03:" + why[0].split(":")[0].split("(")[0][:40]})
        stats["yields"] += len(real["yields"])
        stats["structures_reported"] += len(real["result"])
        stats["multi"] += len(real["result"]) > 1
        stats["empty"] += len(real["result"]) == 0
        stats["with_gap"] += "gap" in d["profile"] and d["profile"]["gap"] != "0"
        stats["with_fusion_support"] += bool(d["fusion_support"])
        stats["planted_recovered"] += any(sorted(c for c, k in s.solution.items() for _ in range(k)) == sorted(c for c in d["planted"] if c != real["gene"].deletion_allele()) for s in real["result"])
        if len(real["yields"]) > 0:
            distinct.add(lib.canon_hash(d))
        if len(samples) < 3 and len(real["result"]) > 1:
            samples.append({"input": {k: v for k, v in d.items() if k != "gene"} | {"gene": d["gene"].get("kind")},
                            "result": [{"solution": dict(s.solution), "score": s.score} for s in real["result"][:4]]})
    for inst, realc, i in fruns:
        fam["cn_filter"]["cases"] += 1
        if sorted(outs[i]["configs"]) != realc:
            fam["cn_filter"]["disagreements"].append({"why": f"_filter_configs keeps {realc}, model keeps {sorted(outs[i]['configs'])}", "input": {"gene": inst["gene_desc"], "table": inst["table_desc"], "indel_table": inst["indel_desc"], "profile": inst["profile_desc"]}})
        stats["filter_removed_some"] += len(realc) < len(inst["gene"].cn_configs)
    for case, dec, i in druns:
        fam["cn_decision"]["cases"] += 1
        o = outs[i]
        same = o["kind"] == dec["kind"]
        if same and dec["kind"] in ("user", "fixed"):
            same = sorted(o["sol"]) == dec["sol"] and dec["score"] == 0
            if dec["kind"] == "user":
                same = same and dec["sol"] == sorted(case["user"])
        if same and dec["kind"] == "unknown":
            same = o["name"] == dec["name"]
        if same and dec["kind"] == "solve":
            same = o["max_cn"] == dec["max_cn"]
        stats["decision_" + dec["kind"]] += 1
        # the property itself: a user-supplied structure is used verbatim, an unknown configuration is rejected
        if case["user"]:
            g0, _ = instances.load_gene(case["gene"])
            inp_d = {k: v for k, v in case.items() if k != "gene"} | {"gene": case["gene"]}
            unknown = [c for c in case["user"] if c not in g0.cn_configs]
            if unknown and dec["kind"] != "unknown":
                violations.append({"why": f"user-supplied structure {case['user']} names the unknown configuration {unknown[0]} but estimate_cn answers {dec}", "input": inp_d,
                                   "signature": "c03:unknown_configuration_accepted"})
            elif not unknown and (dec["kind"] != "user" or dec["sol"] != sorted(case["user"])):
                violations.append({"why": f"user-supplied structure {sorted(case['user'])} is not used verbatim: estimate_cn answers {dec} (copy-number support of the gene: {case['do_copy_number']})",
                                   "input": inp_d, "signature": "c03:user_structure_not_verbatim"})
        if not same:
            fam["cn_decision"]["disagreements"].append({"why": f"estimate_cn decided {dec} but the model decides {o}", "input": {k: v for k, v in case.items() if k != 'gene'} | {"gene": case["gene"].get("kind")}})
    hist = exome_history()
    stats["exome_histories"] = 1
    if hist:
        violations.append({"why": hist, "input": {"gene": "cyp2d6", "sample": "three simulated copies of CYP2D6*1", "calls": ["wxs", "wgs"]}, "signature": "c03:structure_after_exome_run"})
    return {"families": fam, "violations": violations, "evaluations": len(runs) + len(fruns) + len(druns), "distinct_nontrivial": len(distinct),
            "rule": "depth vectors = planted structure of 2 complete + 0-3 extra copies (+ extra pseudogene copies) with noise <= 0.5 on a 0.01 grid, over toy / generated (0-1 pseudogene, fusions, deletion, custom deletions) / shipped CYP2D6, CYP2A6, GSTM1 catalogues, max_cn 3-6, gap {0,0.1,0.3}, optional fusion support and penalty changes; non-trivial = at least one yield; distinct by hash",
            "samples": samples, "stats": dict(stats) | {"constraint_families_hit": dict(famhit)}}


def parse_slot(vname):
    """CN_{name}_{idx} with '-' escaped to 'm'"""
    body = vname[3:]
    name, idx = body.rsplit("_", 1)
    if idx.startswith("m"):
        return name, -int(idx[1:])
    return name, int(idx)


def search(ctx, hints):
    r = lib.rng("c03-search")
    pool = cn_pool(r, True)
    descs = [h["input"] for h in hints if isinstance(h.get("input"), dict) and "depth" in h["input"]]
    n = 500 if ctx["tier"] == "quick" else 5000
    violations = []
    tried = 0
    while tried < n and len(violations) < 3:
        d = descs[tried] if tried < len(descs) else gen_cn_instance(r, pool[tried % len(pool)])
        tried += 1
        try:
            real = run_real(d)
        except Exception as e:
            violations.append({"why": f"solve_cn_model raised {type(e).__name__}: {e}", "input": d, "signature": "c03:crash"})
            continue
        why, st = oracle(d, real)
        if why:
            violations.append({"why": why[0], "all": why[:6], "input": d,
                               "observed": [{"solution": dict(s.solution), "score": s.score} for s in real["result"][:6]],
                               "signature": "c03:" + why[0].split(":")[0].split("(")[0][:40]})
    return {"violations": violations, "instances_searched": tried}
