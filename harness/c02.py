"""C02 - major star-allele calls are consistent, optimal and complete.

Ties:
  filter_alleles   : real `_filter_alleles` (surviving alleles + filtered coverage) == Lean `filterAlleles`
  major_structure  : the model `solve_major_model` hands to CBC (captured at the first solve through
                     the MPSolver API) == Lean `MajorInst.build`  (variables, bounds, constraint multiset,
                     objective; by variable name, constraint names/order ignored)
  major_decision   : `estimate_major` returns [] exactly when Lean `majorHasCandidates` is false
Always-on oracle (also the search): exhaustive enumeration of all allele multisets compatible with
the structure with the documented closed-form error; clause-by-clause check of the real return.
"""
import collections
import os
import itertools
from fractions import Fraction

import lib
import lp
import views
import instances

PID = "C02"
PROPS = ["Aldy.Props.C02", "Aldy.Props.C02Spec"]
TRUSTED_EXTRA = ["GeneView serialiser (harness/views.py): the stage models take the loaded catalogue as input; YAML -> catalogue is C08/C09"]
ASSUMPTIONS = ["evidence tables avoid exact float boundaries of the threshold filter (|count - threshold| < 1e-9 cases are regenerated and counted)"]

SPEC_EPS = Fraction(1, 100000)
TOL = Fraction(1, 10**6)


class StopAfterBuild(Exception):
    pass


def capture_model(fn):
    """run fn() with lpinterface.model replaced so that the model is snapshotted at first solve;
    returns (snapshot, result or None)"""
    with lp.Capture() as cap:
        res = fn()
    return (cap.snaps[0][1] if cap.snaps else None), res


def oracle(gene, cov, cn_sol, alleles, prof, result, max_points=30000):
    """independent spec-level evaluation; returns (reasons, stats)"""
    from aldy.gene import Mutation
    why = []
    func = sorted(Mutation(*m) for m in gene.mutations if gene.is_functional(m) and cov[Mutation(*m)] > 0)   # `cov` here is the filtered evidence the stage solved on
    by_cfg = collections.defaultdict(list)
    for an, a in alleles.items():
        by_cfg[a.cn_config].append(an)
    need = dict(cn_sol.solution)
    npts = 1
    for cfg, k in need.items():
        n = len(by_cfg.get(cfg, []))
        c = 1
        for i in range(k):
            c = c * (n + i) // (i + 1)
        npts *= c
    if npts > max_points:
        return None, {"points": npts}

    # depth and support straight from the tables (not through the accessors under test)
    def raw_support(m):
        ind = getattr(cov, "_indels", None)
        if ind and (m.pos, m.op) in ind:
            return ind[m.pos, m.op][1]
        return len(cov._coverage.get(m.pos, {}).get(m.op, []))

    def raw_total(m):
        ind = getattr(cov, "_indels", None)
        if ind and (m.pos, m.op) in ind:
            return sum(ind[m.pos, m.op])
        return sum(len(v) for o, v in cov._coverage.get(m.pos, {}).items() if o[:3] != "ins")

    def obs(m):
        if cn_sol.position_cn(m.pos) == 0:
            return Fraction(0)
        sc = Fraction(max(1, raw_total(m))) / Fraction(cn_sol.position_cn(m.pos))
        return Fraction(raw_support(m)) / sc

    positions = sorted({m.pos for m in func})
    obs_m = {m: obs(m) for m in func}
    obs_ref = {p: obs(Mutation(p, "_")) for p in positions}
    major_novel = Fraction(repr(float(prof.major_novel)))

    def score(multiset):
        carried = collections.Counter()
        refc = collections.Counter()
        for an in multiset:
            a = alleles[an]
            for m in a.func_muts:
                carried[m] += 1
            for p in positions:
                if gene.has_coverage(an, p) and not any(ma[0] == p and ma[1][:3] != "ins" for ma in a.func_muts):
                    refc[p] += 1
        novel = [m for m in func if carried[m] == 0]
        for p in positions:
            if sum(1 for m in novel if m.pos == p and m.op[:3] != "ins") > 1:
                return None, None
        err = sum(abs(obs_m[m] - carried[m] - (1 if m in novel else 0)) for m in func)
        err += sum(abs(obs_ref[p] - refc[p]) for p in positions)
        return err + (major_novel if novel else 0) + Fraction(1, 10) * len(novel), tuple(novel)

    cfgs = sorted(need)
    choices = [list(itertools.combinations_with_replacement(sorted(by_cfg.get(c, [])), need[c])) for c in cfgs]
    points = {}
    for combo in itertools.product(*choices):
        ms = tuple(sorted(x for part in combo for x in part))
        sc, novel = score(ms)
        if sc is not None:
            points[ms] = (sc, novel)
    best = min((v[0] for v in points.values()), default=None)
    gap = Fraction(repr(float(prof.gap)))
    seen = set()
    for s in result:
        ms = tuple(sorted(a.major for a, k in s.solution.items() for _ in range(k)))
        cnt = collections.Counter(alleles[a].cn_config if a in alleles else "?" for a in ms)
        if dict(cnt) != {k: v for k, v in need.items() if v}:
            why.append(f"solution {ms}: alleles per configuration {dict(cnt)} differ from the structure {need}")
            continue
        carried = collections.Counter(m for an in ms for m in alleles[an].func_muts)
        added = sorted(s.added)
        for m in func:
            if (carried[m] > 0) == (m in added):
                why.append(f"solution {ms}: observed core variant {m} is {'both carried and novel' if carried[m] else 'neither carried nor novel'}")
        if ms not in points:
            why.append(f"solution {ms} is not admissible (two novel variants at one site)")
            continue
        if (ms, tuple(added)) in seen:
            why.append(f"solution {ms} reported twice")
        seen.add((ms, tuple(added)))
        if abs(Fraction(s.score) - points[ms][0]) > TOL:
            why.append(f"solution {ms}: reported score {s.score} but its fit error + penalties is {float(points[ms][0])}")
        if points[ms][0] >= (1 + gap) * best + SPEC_EPS + TOL:
            why.append(f"solution {ms} (score {float(points[ms][0])}) lies outside the gap of the optimum {float(best)}")
    if best is not None:
        if not result:
            why.append(f"no solution reported although {len(points)} admissible combinations exist (optimum {float(best)})")
        elif min(Fraction(s.score) for s in result) - best > TOL:
            why.append(f"best reported score {min(s.score for s in result)} but combination with error {float(best)} exists")
        for ms, (sc, novel) in points.items():
            if sc < (1 + gap) * best + SPEC_EPS - TOL and not any(k[0] == ms for k in seen):
                why.append(f"admissible combination {ms} (score {float(sc)}, optimum {float(best)}, gap {float(gap)}) is not reported")
                break
    elif result:
        why.append("solutions reported although no admissible combination exists")
    return why, {"points": len(points), "best": None if best is None else float(best)}


def run_instance(inst, drv_reqs, want_solve=True):
    """inst from instances.major_instance; returns dict with real outputs and appended driver requests"""
    from aldy import major
    gene, cov, cn_sol, prof = inst["gene"], inst["cov"], inst["cn_sol"], inst["profile"]
    alleles, fcov = major._filter_alleles(gene, cov, cn_sol)
    gid = inst["gene_id"]
    out = {"alleles": alleles, "fcov": fcov}
    drv_reqs.append({"op": "major_filter", "gene": {"ref": gid}, "profile": views.profile_view(prof), "cn": views.cn_view(cn_sol), "cov": views.cov_view(cov)})
    has_cand = not (set(cn_sol.solution) - set(a.cn_config for a in alleles.values()))
    out["has_candidates"] = has_cand
    snap = None
    result = None
    if has_cand:
        def go():
            return major.solve_major_model(gene, fcov, cn_sol, alleles, "cbc")
        snap, result = capture_model(go)
        drv_reqs.append({"op": "major_build", "gene": {"ref": gid}, "cov": views.cov_view(fcov), "cn": views.cn_view(cn_sol),
                         "alleles": list(alleles.keys()), "major_novel": lib.frac(float(prof.major_novel)), "gap": lib.frac(float(prof.gap))})
        # spec level (Props/C02Spec): documented score of every reported multiset, decided by Lean without the ILP
        ks = [[[a.major, int(n)] for a, n in s.solution.items()] for s in (result or [])]
        drv_reqs.append({"op": "major_spec", "gene": {"ref": gid}, "cov": views.cov_view(fcov), "cn": views.cn_view(cn_sol),
                         "alleles": list(alleles.keys()), "major_novel": lib.frac(float(prof.major_novel)), "gap": lib.frac(float(prof.gap)), "ks": ks})
    est = major.estimate_major(gene, cov, cn_sol, "cbc")
    out.update({"snap": snap, "result": result, "estimate": est})
    # the same evidence object asked about a SECOND structure made of the same configurations with other multiplicities (as
    # genotype() does when the copy-number stage returns several structures): the answer must be that of a fresh object
    out["second"] = None
    if inst.get("second_structure"):
        from aldy.solutions import CNSolution
        try:
            cn2 = CNSolution(gene, 0, list(inst["second_structure"]))
            again = major.estimate_major(gene, cov, cn2, "cbc")
            fresh_inst = instances.major_from_desc(dict(describe(inst), structure=list(inst["second_structure"])))
            fresh = major.estimate_major(fresh_inst["gene"], fresh_inst["cov"], fresh_inst["cn_sol"], "cbc")
            out["second"] = (sorted(map(lambda s_: (sol_str(s_)["alleles"], sol_str(s_)["added"], round(s_.score, 6)), again)),
                             sorted(map(lambda s_: (sol_str(s_)["alleles"], sol_str(s_)["added"], round(s_.score, 6)), fresh)))
        except Exception as e:
            out["second"] = ("raised " + type(e).__name__ + ": " + str(e)[:80], None)
    return out


def band_instance(r, gdesc):
    """two default copies planted, plus a function-altering SNP nobody carries whose allele fraction lies between the
    evidence-filter thresholds of a two-copy and a three-copy structure (threshold / (copies + 0.5)): asked about the
    structures 2 x *1 and 3 x *1 in turn, the filter keeps the variant for the second only"""
    from aldy.solutions import CNSolution
    gene, gid = instances.load_gene(gdesc)
    if "1" not in gene.cn_configs or "1" not in gene.alleles:
        return None
    mi = sorted(gene.alleles["1"].minors)[0]
    cn2 = CNSolution(gene, 0, ["1", "1"])
    table = instances.plant_table(r, gene, cn2, [("1", mi), ("1", mi)], with_minors=False, noise=False)
    have = {t[0] for t in table if t[1] != "_"}
    cand = [m for m in gene.mutations if gene.is_functional(m) and ">" in m[1] and len(m[1]) == 3 and m[0] not in have and cn2.position_cn(m[0]) == 2]
    if not cand:
        return None
    m = r.choice(cand)
    table = [t for t in table if t[0] != m[0]]
    table.append([m[0], m[1], [[60, 40, 17]]])     # 17 % : above 0.5 / 3.5 = 14.3 %, below 0.5 / 2.5 = 20 %
    table.append([m[0], "_", [[60, 40, 83]]])
    desc = {"gene": instances.gene_short(gdesc), "structure": ["1", "1"], "planted": [["1", mi], ["1", mi]], "table": table, "indel_table": None, "profile": {}}
    inst = instances.major_from_desc(desc)
    inst["second_structure"] = ["1", "1", "1"]
    return inst


def orphan_instance(r, gdesc):
    """a database with catalogued function-altering variants that belong to NO allele (the `random:` section of a gene
    file); two default copies planted and one such variant observed at one copy's depth: it is observed core evidence like
    any other, so a feasible point carries it or flags it as novel and pays for it"""
    from aldy.solutions import CNSolution
    gene, gid = instances.load_gene(gdesc)
    if "1" not in gene.cn_configs or "1" not in gene.alleles:
        return None
    owned = {(m.pos, m.op) for a in gene.alleles.values() for m in a.func_muts}
    cn2 = CNSolution(gene, 0, ["1", "1"])
    cand = [m for m in gene.mutations if gene.is_functional(m) and m not in owned and ">" in m[1] and len(m[1]) == 3 and cn2.position_cn(m[0]) == 2]
    if not cand:
        return None
    mi = sorted(gene.alleles["1"].minors)[0]
    table = instances.plant_table(r, gene, cn2, [("1", mi), ("1", mi)], with_minors=False, noise=False)
    m = r.choice(cand)
    table = [t for t in table if t[0] != m[0]]
    table.append([m[0], m[1], [[60, 40, 20]]])
    table.append([m[0], "_", [[60, 40, 20]]])
    desc = {"gene": instances.gene_short(gdesc), "structure": ["1", "1"], "planted": [["1", mi], ["1", mi]], "table": table, "indel_table": None, "profile": {}}
    return instances.major_from_desc(desc)


def describe(inst):
    return {"gene": inst["gene_desc"], "structure": inst["structure"], "planted": inst["planted"], "table": inst["table_desc"],
            "indel_table": inst["indel_desc"], "profile": inst["profile_desc"]}


def sol_str(s):
    return {"alleles": sorted(a.major for a, k in s.solution.items() for _ in range(k)), "added": [str(m) for m in s.added], "score": s.score}


def tie(ctx):
    r = lib.rng("c02")
    quick = ctx["tier"] == "quick"
    insts = []
    if ctx.get("replay") and "violation" in ctx["replay"]:
        d = ctx["replay"]["violation"].get("input")
        if d:
            insts.append(instances.major_from_desc(d))
    for fn, cj in lib.load_corpus(PID):
        insts.append(instances.major_from_desc(cj))
    genes = instances.gene_pool(r, quick)
    for j_ in range(6 if quick else 40):
        bi = band_instance(r, genes[(3 * j_ + 1) % len(genes)])
        if bi is not None:
            insts.append(bi)
    import gen_gene
    orphan_pool = [{"kind": "generated", "genome": r.choice(["hg19", "hg38"]), "yaml": gen_gene.with_random(r, gen_gene.gen_gene(r))} for _ in range(4 if quick else 30)]
    orphan_pool += [{"kind": "shipped", "name": "gstp1", "genome": "hg38"}] if os.path.exists(os.path.join(lib.REPO, "aldy/resources/genes/gstp1.yml")) else []
    for gd in orphan_pool:
        oi = orphan_instance(r, gd)
        if oi is not None:
            insts.append(oi)
    n_orphan = sum(1 for gd in orphan_pool)
    n = 260 if quick else 4000
    skipped = 0
    while len(insts) < n:
        gdesc = genes[len(insts) % len(genes)]
        inst = instances.major_instance(r, gdesc)
        if inst is None:
            skipped += 1
            continue
        insts.append(inst)
    reqs = []
    put = {}
    for inst in insts:
        if inst["gene_id"] not in put:
            put[inst["gene_id"]] = True
            reqs.append({"op": "put", "id": inst["gene_id"], "value": views.gene_view(inst["gene"], inst["positions"])})
        inst["req_start"] = len(reqs)
        if not inst.get("second_structure") and (insts.index(inst) % 3 == 0) and "1" in inst["structure"]:
            inst["second_structure"] = sorted(list(inst["structure"]) + ["1"])
        inst["real"] = run_instance(inst, reqs)
        inst["req_end"] = len(reqs)
    outs = lib.driver_batch(reqs)
    fam = {k: {"cases": 0, "disagreements": []} for k in ("filter_alleles", "major_structure", "major_decision", "major_spec_score")}
    violations = []
    stats = collections.Counter()
    families_hit = collections.Counter()
    distinct = set()
    samples = []
    for inst in insts:
        real = inst["real"]
        o = outs[inst["req_start"]:inst["req_end"]]
        desc = describe(inst)
        fam["filter_alleles"]["cases"] += 1
        of = o[0]
        if sorted(of["alleles"]) != sorted(real["alleles"].keys()) or views.cov_canon(of["cov"]) != views.cov_canon(views.cov_view(real["fcov"])):
            fam["filter_alleles"]["disagreements"].append({"why": f"_filter_alleles keeps {sorted(real['alleles'])} but the model keeps {sorted(of['alleles'])} (or filtered tables differ)", "input": desc})
        fam["major_decision"]["cases"] += 1
        if of["has_candidates"] != real["has_candidates"] or (not real["has_candidates"] and real["estimate"] != []):
            fam["major_decision"]["disagreements"].append({"why": "estimate_major emptiness rule differs from the model", "input": desc})
        if real.get("second") is not None:
            stats["second_structure_on_same_evidence"] += 1
            a_, b_ = real["second"]
            if a_ != b_:
                violations.append({"why": f"asked about the structure {inst['second_structure']} after {inst['structure']} on ONE evidence object estimate_major answers {str(a_)[:160]}, on a fresh object {str(b_)[:160]}",
                                   "input": dict(desc, second_structure=inst["second_structure"]), "signature": "c02:answer_depends_on_earlier_structure"})
        if real["has_candidates"]:
            fam["major_structure"]["cases"] += 1
            if real["snap"] is None:
                fam["major_structure"]["disagreements"].append({"why": "solve_major_model did not solve any model", "input": desc})
            else:
                diffs = lp.compare(real["snap"], lp.from_lean(o[1]))
                for c in real["snap"]["cons"]:
                    families_hit[c[3].split("_")[0]] += 1
                if diffs:
                    fam["major_structure"]["disagreements"].append({"why": "model built by solve_major_model differs from MajorInst.build: " + diffs[0], "diffs": diffs[:8], "input": desc})
            # major_min_objective_is_spec: the score reported for a multiset is its documented score, and it is admissible
            osp = o[2]
            for sol, ok in zip(real["result"] or [], osp["ks"]):
                fam["major_spec_score"]["cases"] += 1
                if not osp["no_ref_ops"]:
                    stats["spec_hypothesis_fails"] += 1
                elif not ok["admissible"]:
                    fam["major_spec_score"]["disagreements"].append({"why": f"reported multiset {sol_str(sol)['alleles']} is not an admissible decision of the model (fits / fills / one novel per site)", "input": desc})
                elif abs(float(Fraction(ok["spec"])) - sol.score) > 1e-6:
                    fam["major_spec_score"]["disagreements"].append({"why": f"reported score {sol.score} of {sol_str(sol)['alleles']} differs from its documented score specMajor = {float(Fraction(ok['spec']))}", "input": desc})
            res = real["estimate"]
            why, st = oracle(inst["gene"], real["fcov"], inst["cn_sol"], real["alleles"], inst["profile"], res)
            if why is None:
                stats["oracle_skipped_too_large"] += 1
            else:
                stats["oracle_checked"] += 1
                stats["oracle_points"] += st["points"]
                if why:
                    violations.append({"why": why[0], "all": why[:6], "input": desc, "observed": [sol_str(s) for s in res[:6]],
                                       "signature": "c02:" + why[0].split(":")[0][:30]})
            stats["solutions"] += len(res)
            stats["multi_solution"] += len(res) > 1
            stats["with_novel"] += any(s.added for s in res)
            stats["no_solution"] += len(res) == 0
            if len(real["alleles"]) > 1:
                distinct.add(lib.canon_hash(desc))
            if len(samples) < 3 and res and len(real["alleles"]) > 2:
                samples.append({"input": desc, "candidates": sorted(real["alleles"]), "result": [sol_str(s) for s in res[:3]]})
        else:
            stats["no_candidates"] += 1
        stats["with_gap"] += float(inst["profile"].gap) > 0
        stats["with_indel_table"] += bool(inst["indel_desc"])
        stats["copies_%d" % sum(inst["cn_sol"].solution.values())] += 1
    return {"families": fam, "violations": violations, "evaluations": len(insts), "distinct_nontrivial": len(distinct),
            "rule": "evidence tables planted from 1-4 catalogued alleles of toy/generated (half of them with a deletion-insertion variant)/shipped genes under random structures with multiplicative noise, spurious and dropped variants, optional indel table, thresholds/gap/novel penalty varied; non-trivial = more than one candidate allele survives the filter; distinct by hash of the instance description",
            "samples": samples, "stats": dict(stats) | {"constraint_families_hit": dict(families_hit), "regenerated_boundary_or_invalid": skipped}}


def search(ctx, hints):
    r = lib.rng("c02-search")
    from aldy import major
    insts = []
    for h in hints:
        if "input" in h:
            try:
                insts.append(instances.major_from_desc(h["input"]))
            except Exception:
                pass
    genes = instances.gene_pool(r, True)
    n = 600 if ctx["tier"] == "quick" else 5000
    tried = 0
    violations = []
    while tried < n and len(violations) < 3:
        if tried < len(insts):
            inst = insts[tried]
        else:
            inst = instances.major_instance(r, genes[tried % len(genes)])
        tried += 1
        if inst is None:
            continue
        gene, cov, cn_sol, prof = inst["gene"], inst["cov"], inst["cn_sol"], inst["profile"]
        try:
            alleles, fcov = major._filter_alleles(gene, cov, cn_sol)
            res = major.estimate_major(gene, cov, cn_sol, "cbc")
        except Exception as e:
            violations.append({"why": f"estimate_major raised {type(e).__name__}: {e}", "input": describe(inst), "signature": "c02:crash"})
            continue
        if set(cn_sol.solution) - set(a.cn_config for a in alleles.values()):
            continue
        why, st = oracle(gene, fcov, cn_sol, alleles, prof, res)
        if why:
            violations.append({"why": why[0], "all": why[:6], "input": describe(inst), "observed": [sol_str(s) for s in res[:6]],
                               "signature": "c02:" + why[0].split(":")[0][:30]})
    return {"violations": violations, "instances_searched": tried}
