"""C01 - error-free reads from a catalogued genotype are called as that genotype.

Ties:
  planted_pipeline : full `genotype()` on error-free simulated alignments (sim.py: exact uniform
                     depth, SNP / insertion / deletion / multi-substitution alleles, extra copies,
                     whole-gene deletion, fusions, either strand, with / without pseudogene, read
                     length 50-250, per-copy depth 20-40, profile from a simulated two-copy
                     reference sample).  Per sample the hypotheses of the Lean theorems are
                     evaluated on the real objects: the evidence table `Sample` produced is the
                     zero-error table of the planted copies (`planted_evidence`), the planted
                     assignment satisfies the real major / minor models with error 0
                     (`planted_major_feasible`, checked by the Lean model through the driver),
                     and the conclusion is compared with what `genotype()` reports.
  planted_model    : Lean `plantedCheck` (hypotheses of `planted_major_feasible` /
                     `zero_error_exact`) on the real stage inputs == verdict of the real stage
Oracle (always on; the search): the property itself - the planted multiset of major alleles is
among the best solutions whenever the planted structure is among the optimal structures the
real CN stage reports, and every best solution carries exactly the planted variants (with
multiplicity, per copy coverage).
"""
import collections
import os
import shutil
from fractions import Fraction

import gen_gene
import instances
import lib
import sim
import views

PID = "C01"
PROPS = ["Aldy.Props.C01", "Aldy.Props.C01Minor", "Aldy.Props.C01Spec"]
TRUSTED_EXTRA = ["pysam (BAM writing / reading)", "indelpost (indel realignment inside aldy)", "the read simulator sim.py"]
ASSUMPTIONS = ["reads tile every retained region exactly (uniform depth), no sequencing error, mapping quality 60",
               "the oracle's first clause applies when the planted structure is among the optimal structures reported by the real CN stage"]


# indelpost phases indels that have fewer than ~15-20 reference bases between them into one complex event
CLOSE_INDEL_GAP = 20


def gene_file(gdesc, d, k):
    if gdesc["kind"] == "toy":
        return os.path.join(lib.REPO, "aldy/tests/resources/toy.yml")
    if gdesc["kind"] == "shipped":
        return os.path.join(lib.REPO, f"aldy/resources/genes/{gdesc['name']}.yml")
    p = os.path.join(d, f"gen{k}.yml")
    with open(p, "w") as f:
        f.write(gdesc["yaml"])
    return p


THOROUGH_SHIPPED = ["tpmt", "nudt15", "cyp2c19", "cyp2c9", "cyp3a5", "nat1"]
FLANK = 15   # an indel needs this much sequence of its own read run on both sides (indelpost cannot place it otherwise)


def flanked(gene, major, minor):
    """every indel of the haplotype lies well inside a stretch the simulated reads tile without a break"""
    cfg = gene.alleles[major].cn_config
    runs = sim.runs_of(gene, cfg, 0)
    for m in sim.copy_variants(gene, major, minor):
        if not gene.has_coverage(major, m[0]):
            return False   # an allele defined by a variant in a part of the gene its structure does not retain: not a consistent entry
        sp = indel_span(m)
        if sp is None:
            continue
        if not any(a + FLANK <= sp[0] and sp[1] + FLANK <= b for a, b in runs):
            return False
    return True


def pick_copies(r, gene):
    """an admissible multiset of 2-4 catalogued alleles: normal / extra copies / deletion / fusion"""
    from aldy.gene import CNConfigType
    ok = {a: [mi for mi in sorted(al.minors) if flanked(gene, a, mi)] for a, al in gene.alleles.items()}
    by_kind = collections.defaultdict(list)
    for a, al in gene.alleles.items():
        if ok[a]:
            by_kind[gene.cn_configs[al.cn_config].kind].append(a)
    normal = by_kind[CNConfigType.DEFAULT]
    if not normal:
        return None, []
    fus = by_kind[CNConfigType.LEFT_FUSION] + by_kind[CNConfigType.RIGHT_FUSION]
    dele = by_kind[CNConfigType.DELETION]
    shapes = ["two", "two", "three", "four"] + (["fusion", "fusion", "fusion"] if fus else []) + (["one_plus_del"] if dele else [])
    shape = r.choice(shapes)

    def pick(a):
        return (a, r.choice(ok[a]))

    if shape in ("two", "three", "four"):
        n = {"two": 2, "three": 3, "four": 4}[shape]
        copies = [pick(r.choice(normal)) for _ in range(n)]
    elif shape == "one_plus_del":
        # (both copies deleted leaves no reads at the locus: rejected by the no-data guard, see C19)
        copies = [pick(r.choice(normal)), pick(dele[0])]
    else:
        copies = [pick(r.choice(normal)), pick(r.choice(normal)), pick(r.choice(fus))]
        if r.random() < 0.3:
            copies = copies[1:]
    return shape, copies


def consistent(gene):
    """the catalogue's substitutions and deletions agree with its own reference sequence (the toy
    database of the test-suite does not: its `delAC` sits on `GT`)"""
    for (pos, op) in gene.mutations:
        if ">" in op:
            l = op.split(">")[0]
            if any(x != "." and gene[pos + i] != x for i, x in enumerate(l)):
                return False
        elif op.startswith("del"):
            d = op[3:].split("ins")[0]
            if any(gene[pos + i] != x for i, x in enumerate(d)):
                return False
    return True


def indel_span(m):
    pos, op = m[0], m[1]
    if op.startswith("ins"):
        return (pos, pos + 1)
    if op.startswith("del"):
        return (pos, pos + len(op[3:].split("ins")[0]))
    return None


def min_indel_gap(gene, copies):
    """smallest number of reference bases between two different indels of the sample (on one haplotype or on two)"""
    sp = sorted({x for major, minor in copies for x in (indel_span(m) for m in sim.copy_variants(gene, major, minor) if gene.has_coverage(major, m[0])) if x})
    best = None
    for a, b in zip(sp, sp[1:]):
        g = max(0, b[0] - a[1])
        best = g if best is None else min(best, g)
    return best


def planted_variants(gene, copies):
    """multiset of variants of the simulated haplotypes (only where the copy has the gene's sequence)"""
    c = collections.Counter()
    for major, minor in copies:
        for m in sim.copy_variants(gene, major, minor):
            if gene.has_coverage(major, m[0]):
                c[(m[0], m[1])] += 1
    return c


def called_variants(gene, sol):
    c = collections.Counter()
    for a in sol.solution:
        al = gene.alleles[a.major]
        ms = set(al.func_muts) | set(al.minors[a.minor].neutral_muts) | set(a.added)
        ms -= set(a.missing)
        for m in ms:
            if gene.has_coverage(a.major, m.pos):
                c[(m.pos, m.op)] += 1
    return c


def cov_view_at(cov, positions):
    v = views.cov_view(cov)
    keep = set(positions)
    return {"table": [t for t in v["table"] if t[0] in keep], "indels": [i for i in v["indels"] if i[0][0] in keep]}


def canon_struct(gene, counter):
    """a structure with the whole-gene deletion left implicit (the copy-number stage may report `1x*1` for `*1 / deletion`)"""
    dele = gene.deletion_allele()
    return collections.Counter({k: v for k, v in dict(counter).items() if k != dele and v})


def premise_requests(gene, gdesc, copies, planted_struct, stage_calls):
    """driver requests deciding the hypotheses of the C01 theorems on the real stage inputs"""
    import c04
    reqs = []
    gview = None
    planted_major = collections.Counter(m for m, _ in copies)
    planted_minor = collections.Counter((m, mi) for m, mi in copies)
    for call in stage_calls["major"]:
        if canon_struct(gene, call["cn"].solution) != canon_struct(gene, planted_struct):
            continue
        cov, prof = call["cov"], call["cov"].profile
        pos = {p for p, _ in gene.mutations}
        gview = gview or views.gene_view(gene)
        dele = gene.deletion_allele()
        # deletion left implicit by the copy-number stage: no allele is called for it
        pm = planted_major if (dele is None or dict(call["cn"].solution).get(dele)) else collections.Counter({a: n for a, n in planted_major.items() if a != dele})
        reqs.append(("major", {"op": "planted_major", "gene": gview, "cov": cov_view_at(cov, pos), "cn": views.cn_view(call["cn"]), "alleles": call["alleles"],
                               "major_novel": lib.frac(float(prof.major_novel)), "gap": lib.frac(float(prof.gap)),
                               "k": [[a, n] for a, n in pm.items() if a in call["alleles"]]},
                     {"filtered_out": sorted(a for a in pm if a not in call["alleles"]),
                      "best": min((s.score for s in call["result"]), default=None),
                      "found": any(collections.Counter({a.major: n for a, n in s.solution.items()}) == pm and not s.added for s in call["result"])}))
    for call in stage_calls["minor"]:
        ms = call["major_sol"]
        if canon_struct(gene, ms.cn_solution.solution) != canon_struct(gene, planted_struct):
            continue
        dele = gene.deletion_allele()
        pm = planted_major if (dele is None or dict(ms.cn_solution.solution).get(dele)) else collections.Counter({a: n for a, n in planted_major.items() if a != dele})
        if collections.Counter({a.major: n for a, n in ms.solution.items()}) != pm or ms.added:
            continue
        pos = {p for p, _ in gene.mutations} | {m.pos for m in call["mutations"]}
        real = {"gene": gene, "gid": None}
        w = c04.wire_call(real, call, None)
        w["gene"] = views.gene_view(gene, [m.pos for m in call["mutations"]])
        w["cov"] = cov_view_at(call["cov"], pos)
        w["op"] = "planted_minor"
        w["copies"] = [[m, mi, n] for (m, mi), n in planted_minor.items() if m in pm]
        reqs.append(("minor", w, {"best": min((s.score for s in call["result"]), default=None)}))
    return reqs


def directed_copies(r, gene):
    """shapes that exposed defects before: (a) an allele with a multi-substitution and another variant, (b) an allele
    with an insertion and another variant, (c) three copies of which two carry a non-exonic deletion the third lacks"""
    from aldy.gene import CNConfigType
    ok = {a: [mi for mi in sorted(al.minors) if flanked(gene, a, mi)] for a, al in gene.alleles.items()
          if gene.cn_configs[al.cn_config].kind == CNConfigType.DEFAULT}
    has3 = len(gene.cn_configs) > 1
    cands = []
    for a, mins in ok.items():
        for mi in mins:
            vs = sim.copy_variants(gene, a, mi)
            if len(vs) >= 2 and any(">" in m[1] and len(m[1]) > 3 for m in vs):
                cands.append(("mnp_phase", [(a, mi), (a, mi)] + ([("1", sorted(gene.alleles["1"].minors)[0])] if has3 and "1" in ok and ok["1"] else [])))
            if len(vs) >= 2 and any(m[1].startswith("ins") for m in vs):
                cands.append(("ins_phase", [(a, mi)] * (3 if has3 else 2)))
        for m1 in mins:
            for m2 in mins:
                n1, n2 = set(gene.alleles[a].minors[m1].neutral_muts), set(gene.alleles[a].minors[m2].neutral_muts)
                extra = n2 - n1
                if has3 and n1 <= n2 and len(extra) == 1:
                    m = next(iter(extra))
                    reg = gene.region_at(m.pos)
                    if m.op.startswith("del") and "ins" not in m.op and reg and reg[1][0] != "e" and reg[1] not in ("utr3", "utr5", "up"):
                        cands.append(("nonexonic_del", [(a, m2), (a, m2), (a, m1)]))
    return r.choice(cands) if cands else None


def overlap_gene(r):
    """a generated database with two extra alleles: a 3-base core deletion in an exon and a core SNP at its middle base
    (catalogues do contain such pairs); returns the gene description with the allele names, or None"""
    import yaml
    for _ in range(20):
        y = gen_gene.gen_gene(r, scale=8, pseudogene=True, deletion=True)
        doc = yaml.safe_load(y)
        seq = doc["reference"]["seq"]
        used = sorted(m[0] for a in doc["alleles"].values() for m in a["mutations"] if isinstance(m[0], int))
        exons = [e for e in doc["reference"]["exons"] if e[1] - e[0] > 60]
        if not exons:
            continue
        e = r.choice(exons)
        cand = [p for p in range(e[0] + 25, e[1] - 28) if all(abs(p - u) > 25 for u in used)]
        if not cand:
            continue
        p = r.choice(cand)
        ref = seq[p - 1:p + 2]
        if ref[0] == seq[p - 2] or ref[2] == seq[p + 2] or len(set(ref)) == 1:
            continue   # keep the deletion unshiftable
        nums = [int(k.split("*")[1].split(".")[0]) for k in doc["alleles"]]
        nd, ns = max(nums) + 1, max(nums) + 2
        name = doc["name"]
        doc["alleles"][f"{name}*{nd}.001"] = {"mutations": [[p, "del" + ref, "-", "functional"]]}
        alt = r.choice([c for c in "ACGT" if c != ref[1]])
        doc["alleles"][f"{name}*{ns}.001"] = {"mutations": [[p + 1, f"{ref[1]}>{alt}", "-", "functional"]]}
        gd = {"kind": "generated", "genome": r.choice(["hg19", "hg38"]), "yaml": yaml.safe_dump(doc, sort_keys=False, default_flow_style=None),
              "overlap": [str(nd), str(ns)]}
        try:
            g, _ = instances.load_gene(gd)
        except Exception:
            continue
        if str(nd) in g.alleles and str(ns) in g.alleles and consistent(g):
            return gd
    return None


def lattice_gene(r, k=5):
    """a generated database whose alleles are ALL non-empty subsets of k function-altering SNPs: a sample of two copies
    that together carry every SNP once decomposes into catalogued alleles in 2^(k-1) equally good ways (16 for k = 5);
    every one of them, the planted one included, is a best solution"""
    import yaml
    for _ in range(20):
        y = gen_gene.gen_gene(r, scale=8, pseudogene=False, deletion=False, fusions=0)
        doc = yaml.safe_load(y)
        seq = doc["reference"]["seq"]
        L = len(seq)
        used = sorted(m[0] for a in doc["alleles"].values() for m in a["mutations"] if isinstance(m[0], int))
        cand = [p for p in range(40, L - 40) if all(abs(p - u) > 12 for u in used)]
        sites = []
        r.shuffle(cand)
        for p in cand:
            if all(abs(p - q) > 30 for q in sites):
                sites.append(p)
            if len(sites) == k:
                break
        if len(sites) < k:
            continue
        sites.sort()
        snps = [[p, f"{seq[p - 1]}>{r.choice([c for c in 'ACGT' if c != seq[p - 1]])}", "-", "functional"] for p in sites]
        name = doc["name"]
        for sub in range(1, 2 ** k):
            doc["alleles"][f"{name}*{100 + sub}.001"] = {"mutations": [list(snps[i]) for i in range(k) if sub >> i & 1]}
        gd = {"kind": "generated", "genome": r.choice(["hg19", "hg38"]), "yaml": yaml.safe_dump(doc, sort_keys=False, default_flow_style=None),
              "lattice": k}
        try:
            g, _ = instances.load_gene(gd)
        except Exception:
            continue
        if all(str(100 + sub) in g.alleles for sub in range(1, 2 ** k)) and consistent(g):
            return gd
    return None


def make_desc(r, gdesc):
    gene, gid = instances.load_gene(gdesc)
    if gdesc.get("lattice"):
        k = gdesc["lattice"]
        # (a decomposition that is late in the alphabetical order of the tied solutions: all of them have to be reported)
        pairs = sorted({tuple(sorted((x, (2 ** k - 1) ^ x))) for x in range(1, 2 ** k - 1)}, key=lambda t: tuple(sorted(str(100 + v) for v in t)))
        a, b = pairs[r.choice([-1, -2, -3, -4])]
        copies = [(str(100 + x), sorted(gene.alleles[str(100 + x)].minors)[0]) for x in (a, b)]
        return {"gene": gdesc, "copies": [list(c) for c in copies], "shape": "many_tied_decompositions", "read_len": r.choice([100, 150]), "depth": r.choice([20, 30])}
    if gdesc.get("overlap"):
        dl, sn = gdesc["overlap"]
        one = ("1", sorted(gene.alleles["1"].minors)[0])
        copies = r.choice([[(dl, dl + ".001"), (dl, dl + ".001"), (sn, sn + ".001")], [one, (dl, dl + ".001"), (sn, sn + ".001"), (dl, dl + ".001")]])
        copies = [(a, sorted(gene.alleles[a].minors)[0]) for a, _ in copies]
        return {"gene": gdesc, "copies": [list(c) for c in copies], "shape": "snp_in_deletion", "read_len": r.choice([75, 100, 150]), "depth": r.choice([20, 30])}
    picked = directed_copies(r, gene) if r.random() < 0.35 else None
    shape, copies = picked if picked else pick_copies(r, gene)
    desc = {"gene": gdesc, "copies": [list(c) for c in copies], "shape": shape, "read_len": r.choice([50, 75, 100, 150, 250]), "depth": r.choice([20, 24, 30, 40])}
    # some samples are genotyped without indel realignment (`_parse_read` keeps the indel support itself)
    frac = float(os.environ.get("C01_NO_INDELPOST", "0.2"))
    if frac and r.random() < frac:
        desc["params"] = {"indelpost": "false"}
    return desc


def run_case(r, gdesc, d, k):
    return run_desc(make_desc(r, gdesc), d, k)


def run_desc(desc, d, k):
    import aldy.genotype as G
    from aldy.common import GRange, AldyException
    gdesc = desc["gene"]
    gene, gid = instances.load_gene(gdesc)
    ypath = gene_file(gdesc, d, k)
    shape, copies, read_len, depth = desc["shape"], [tuple(c) for c in desc["copies"]], desc["read_len"], desc["depth"]
    chrom = gene.chr
    end = max(rr.end for g in gene.regions for rr in g.values())
    cnr = GRange(chrom, end + 5000, end + 5400)
    default = next(a for a, al in gene.alleles.items() if al.cn_config == "1" and not al.func_muts) if any(
        al.cn_config == "1" and not al.func_muts for al in gene.alleles.values()) else sorted(a for a, al in gene.alleles.items() if al.cn_config == "1")[0]
    dmin = sorted(gene.alleles[default].minors)[0]
    L = end + 20000
    pbam = os.path.join(d, f"c01p{k}.bam")
    sbam = os.path.join(d, f"c01s{k}.bam")
    sim.write_bam(pbam, sim.simulate_reads(gene, [(default, dmin)] * 2, depth=depth, read_len=read_len, name_prefix="p") + sim.neutral_reads(cnr, 2 * depth, read_len=read_len),
                  chrom=chrom, length=L)
    sim.write_bam(sbam, sim.simulate_reads(gene, copies, depth=depth, read_len=read_len, name_prefix="s") + sim.neutral_reads(cnr, 2 * depth, read_len=read_len),
                  chrom=chrom, length=L)
    inp = {"gene": gdesc.get("name", gdesc["kind"]), "genome": gdesc["genome"], "copies": [list(c) for c in copies], "read_len": read_len, "depth": depth, "shape": shape,
           "desc": desc}
    # history: every other sample is genotyped after an exome-profile run of the same database in this process (the exome
    # route switches copy-number calling off for that run only; whatever it answers - usually "gene not in the profile" - is ignored)
    if k % 2 == 0:
        try:
            G.genotype(ypath, sbam, "exome", output_file=None, genome=gdesc["genome"])
        except Exception:
            pass
    # intercept the CN stage's answer (read-only)
    seen = {}
    orig = G.cn.estimate_cn

    def wrapped(*a, **kw):
        res = orig(*a, **kw)
        seen["cn"] = res
        seen["cov"] = next((x for x in list(a) + list(kw.values()) if hasattr(x, "region_coverage")), None)
        return res

    G.cn.estimate_cn = wrapped
    import aldy.major as MJ
    import aldy.minor as MN
    orig_major, orig_minor = MJ.solve_major_model, MN.solve_minor_model
    stage_calls = {"major": [], "minor": []}

    def w_major(gene_, coverage_, cn_solution, allele_dict, solver, *a, **kw):
        out = orig_major(gene_, coverage_, cn_solution, allele_dict, solver, *a, **kw)
        stage_calls["major"].append({"gene": gene_, "cov": coverage_, "cn": cn_solution, "alleles": list(allele_dict.keys()), "result": out})
        return out

    def w_minor(gene_, coverage_, major_sol, alleles_list, mutations, solver, max_solutions=1):
        out = orig_minor(gene_, coverage_, major_sol, alleles_list, mutations, solver, max_solutions)
        stage_calls["minor"].append({"gene": gene_, "cov": coverage_, "major_sol": major_sol, "alleles_list": list(alleles_list), "mutations": list(mutations),
                                     "result": list(out)})
        return out

    MJ.solve_major_model, MN.solve_minor_model = w_major, w_minor
    try:
        try:
            res = G.genotype(ypath, sbam, pbam, output_file=None, cn_region=cnr, genome=gdesc["genome"], **desc.get("params", {}))
            err = None
        except AldyException as e:
            res, err = {}, str(e)[:120]
    finally:
        G.cn.estimate_cn = orig
        MJ.solve_major_model, MN.solve_minor_model = orig_major, orig_minor
    sols = [s for v in res.values() for s in v]
    planted_struct = collections.Counter(gene.alleles[m].cn_config for m, _ in copies)
    cn_sols = seen.get("cn") or []
    best_cn = min((c.score for c in cn_sols), default=None)
    planted_cn_optimal = any(canon_struct(gene, c.solution) == canon_struct(gene, planted_struct) and c.score <= best_cn + 1e-6 for c in cn_sols)
    planted_major = collections.Counter(m for m, _ in copies)
    pv = planted_variants(gene, copies)
    why = []
    gap = min_indel_gap(gene, copies)
    close = gap is not None and gap <= CLOSE_INDEL_GAP
    def left_shiftable(m):
        if not m[1].startswith("del") or "ins" in m[1]:
            return False
        n = len(m[1]) - 3
        return gene[m[0] - 1] == gene[m[0] + n - 1]
    repeat_del = any(left_shiftable(m) for mj, mi in copies for m in sim.copy_variants(gene, mj, mi) if gene.has_coverage(mj, m[0]))
    tag = ":close_indels" if close else ":deletion_in_repeat" if repeat_del else ""
    # "the planted structure is an optimal explanation of the region depths", independently of what the copy-number stage
    # answers: when every region depth is within a quarter copy of the planted structure's copy number, a best structure
    # must have that copy-number vector (the planted structure itself or one indistinguishable from it)
    if err is None and not planted_cn_optimal and seen.get("cov") is not None and cn_sols:
        from aldy.solutions import CNSolution
        try:
            pvec = CNSolution(gene, 0, list(planted_struct.elements())).region_cn
            fit = max(abs(seen["cov"].region_coverage(gi, rg) - pvec[gi][rg]) for gi, g_ in enumerate(gene.regions) for rg in g_ if rg in gene.unique_regions or True)
            same_vec = (not gene.do_copy_number) or any(c.score <= best_cn + 1e-6 and all(abs(c.region_cn[gi][rg] - pvec[gi][rg]) < 1e-9 for gi, g_ in enumerate(gene.regions) for rg in g_) for c in cn_sols)
        except Exception:
            fit, same_vec = None, True
        if fit is not None and fit < 0.25 and not same_vec:
            why.append(("c01:planted_structure_not_called", f"every region depth is within {fit:.2f} copies of the planted structure {dict(planted_struct)} but the best structures are "
                        f"{[dict(collections.Counter(c.solution)) for c in cn_sols if c.score <= best_cn + 1e-6][:3]}"))
    if err is not None:
        why.append(("c01:error", f"genotype() fails on an error-free planted sample: {err}"))
    elif planted_cn_optimal:
        dele_ = gene.deletion_allele()
        strip_ = lambda c: collections.Counter({k: v for k, v in c.items() if k != dele_})
        if not any(strip_(collections.Counter(a.major for a in s.solution)) == strip_(planted_major) for s in sols):
            got = [sorted(a.major for a in s.solution) for s in sols][:3]
            why.append(("c01:planted_not_reported" + tag, f"planted alleles {sorted(planted_major.elements())} are not among the best solutions {got}"))
        for s in sols:
            if canon_struct(gene, s.major_solution.cn_solution.solution) != canon_struct(gene, planted_struct):
                continue
            cv = called_variants(gene, s)
            if cv != pv:
                extra = sorted((cv - pv).elements())[:3]
                lost = sorted((pv - cv).elements())[:3]
                why.append(("c01:variants_differ" + tag, f"best solution {s.get_major_diplotype()} ({s.get_minor_diplotype()}) adds {extra} and loses {lost} relative to the planted haplotypes"))
                break
    func_pos = {p for (p, o) in gene.mutations if gene.is_functional((p, o))}
    silent_at_core_site = any(m[0] in func_pos for mj, mi in copies for m in gene.alleles[mj].minors[mi].neutral_muts)
    # a deletion in a repeat is reported by aligners (and written by the simulator) at its leftmost position: the
    # reference row of the catalogue position then sees reference bases on the carriers too
    def shiftable(m):
        if not m[1].startswith("del") or "ins" in m[1]:
            return False
        n = len(m[1]) - 3
        return gene[m[0] - 1] == gene[m[0] + n - 1]
    shifted_deletion = any(shiftable(m) for mj, mi in copies for m in sim.copy_variants(gene, mj, mi))

    # an insertion inside a repeat of its own sequence (insAAT next to AAT): reads that end inside the repeat support
    # neither allele for the realigner, so the observed copy number is not exactly the planted one (the call is compared
    # all the same)
    def ins_in_repeat(m):
        if not m[1].startswith("ins"):
            return False
        sq = m[1][3:]
        n_ = len(sq)
        return gene[m[0] + 1:m[0] + 1 + n_] == sq or gene[m[0] - n_ + 1:m[0] + 1] == sq
    shifted_deletion = shifted_deletion or any(ins_in_repeat(m) for mj, mi in copies for m in sim.copy_variants(gene, mj, mi))
    # a planted multi-base deletion that covers the site of another catalogued variant: the model counts its carriers as
    # reference copies at that site, the reads show deleted bases there
    sites = {p for (p, o) in gene.mutations}
    deletion_over_site = any(m[1].startswith("del") and any((m[0] + i) in sites for i in range(1, len(m[1].split("ins")[0]) - 3))
                             for mj, mi in copies for m in sim.copy_variants(gene, mj, mi))
    reqs = [] if (silent_at_core_site or shifted_deletion or deletion_over_site) else premise_requests(gene, gdesc, copies, planted_struct, stage_calls)
    return inp, why, {"shape": shape, "cn_optimal": planted_cn_optimal, "n_solutions": len(sols), "err": err, "close_indels": close, "reqs": reqs, "silent_at_core_site": silent_at_core_site, "shifted_deletion": shifted_deletion}


def tie(ctx):
    r = lib.rng("c01")
    quick = ctx["tier"] == "quick"
    pool = [{"kind": "generated", "genome": r.choice(["hg19", "hg38"]), "yaml": gen_gene.gen_gene(r, scale=r.choice([1, 4, 8]))} for _ in range(24 if quick else 160)]
    pool += [g for g in (overlap_gene(r) for _ in range(3 if quick else 12)) if g]
    lat = lattice_gene(r)
    pool += [lat] * (2 if quick else 12) if lat else []
    if not quick:
        pool += [{"kind": "shipped", "name": nme, "genome": r.choice(["hg19", "hg38"])} for nme in THOROUGH_SHIPPED]
    pool = [g for g in pool if consistent(instances.load_gene(g)[0])]
    fam = {k: {"cases": 0, "disagreements": []} for k in ("planted_pipeline", "planted_major_premise", "planted_minor_point", "planted_minor_premise")}
    violations = []
    stats = collections.Counter()
    distinct = set()
    samples = []
    reqs, metas = [], []
    d = sim.scratch_dir()
    n_cases = int(os.environ.get("C01_CASES", "0")) or (40 if quick else 1000)
    try:
        corpus = [cj for fn, cj in lib.load_corpus(PID)]
        if ctx.get("replay") and "violation" in ctx["replay"] and "desc" in (ctx["replay"]["violation"].get("input") or {}):
            corpus.insert(0, ctx["replay"]["violation"]["input"]["desc"])
        for k in range(n_cases + len(corpus)):
            if k < len(corpus):
                desc = corpus[k]
                gd = desc["gene"]
                stats["corpus_cases"] += 1
            else:
                gd = pool[k % len(pool)]
                desc = make_desc(r, gd)
            inp, why, info = run_desc(desc, d, k)
            inp["index"] = k
            fam["planted_pipeline"]["cases"] += 1
            stats["shape_" + info["shape"]] += 1
            stats["planted_structure_cn_optimal"] += info["cn_optimal"]
            stats["genome_" + gd["genome"]] += 1
            stats["errors"] += info["err"] is not None
            stats["close_indels"] += info["close_indels"]
            stats["silent_variant_at_core_site"] += info["silent_at_core_site"]
            stats["deletion_in_repeat"] += info["shifted_deletion"]
            stats["with_indel"] += any(indel_span(m) for mj, mi in inp["copies"] for m in sim.copy_variants(instances.load_gene(gd)[0], mj, mi))
            stats["kind_" + gd["kind"]] += 1
            distinct.add(lib.canon_hash(inp))
            for sig, w in why:
                violations.append({"why": w, "input": inp, "signature": sig})
            if not info["close_indels"] and info["cn_optimal"]:
                for kind, req, m in info["reqs"]:
                    reqs.append(req)
                    metas.append((kind, m, inp))
            if len(samples) < 3:
                samples.append(inp)
            for f in os.listdir(d):
                if f.startswith("c01"):
                    os.unlink(os.path.join(d, f))
    finally:
        shutil.rmtree(d, ignore_errors=True)
    outs = lib.driver_batch(reqs)
    for (kind, m, inp), o in zip(metas, outs):
        if kind == "major":
            fam["planted_major_premise"]["cases"] += 1
            if m["filtered_out"]:
                fam["planted_major_premise"]["disagreements"].append({"why": f"planted alleles {m['filtered_out']} are not among the candidates of the major stage", "input": inp})
            elif not o["planted"] or o["violated_cons"] or o["violated_vars"] or Fraction(o["objective"]) != 0:
                fam["planted_major_premise"]["disagreements"].append(
                    {"why": f"the evidence of the sample is not the zero-error evidence of the planted copies: clauses {o['failing']} of `Planted` fail; rows (pos, op, observed, planted) {o['mismatch'][:4]}", "input": inp})
            elif not m["found"]:
                fam["planted_major_premise"]["disagreements"].append({"why": "`Planted` holds but solve_major_model does not report the planted multiset", "input": inp})
        else:
            fam["planted_minor_point"]["cases"] += 1
            if o["n_violated_cons"] or o["violated_vars"]:
                fam["planted_minor_point"]["disagreements"].append({"why": f"the planted point violates {o['n_violated_cons']} constraints of the refinement model (first: {o['violated_cons']})", "input": inp})
            elif m["best"] is None or abs(float(Fraction(o["objective"])) - m["best"]) > 1e-6:
                fam["planted_minor_point"]["disagreements"].append(
                    {"why": f"the planted point scores {float(Fraction(o['objective'])):.6f} in the refinement model, solve_minor_model's best is {m['best']}; rows with error {o['bad_rows'][:4]}", "input": inp})
            stats["minor_planted_objective_zero"] += Fraction(o["objective"]) == 0
            # hypotheses of the theorem planted_minor_zero (Props/C01Minor) decided on the real stage input: where they hold the
            # theorem says the planted point is feasible with objective 0 and every optimum is exact - so the real optimum must be 0
            fam["planted_minor_premise"]["cases"] += 1
            stats["minor_theorem_applies"] += bool(o["planted_minor"])
            stats["minor_with_phase_cells"] += o["n_phase_cells"] > 0
            for cl in o["failing"]:
                stats["minor_clause_fails_" + cl] += 1
            if o["planted_minor"] and (m["best"] is None or abs(m["best"]) > 1e-6):
                fam["planted_minor_premise"]["disagreements"].append(
                    {"why": f"`PlantedMinor` holds on the real input of solve_minor_model (planted_minor_zero: the planted point is feasible with objective 0) but the best refinement reported scores {m['best']}", "input": inp})
            elif not o["planted_minor"] and not (o["n_violated_cons"] or o["violated_vars"]) and Fraction(o["objective"]) == 0:
                stats["minor_zero_point_outside_theorem"] += 1
    firstv = {}
    for v in violations:
        firstv.setdefault(v["signature"], v)
    return {"families": fam, "violations": list(firstv.values()), "evaluations": fam["planted_pipeline"]["cases"], "distinct_nontrivial": len(distinct),
            "rule": "generated gene databases (both builds = both strands, with/without pseudogene, SNP/ins/del/multi-substitution alleles; thorough: plus small shipped genes); planted multisets of 2-4 catalogued (major, minor) alleles in shapes two/three/four copies, one copy + whole-gene deletion, fusion (structure semantics of the CN stage: two complete copies, further copies pseudogene-free); indels flanked by >= 15 bp of read run; read length 50-250; per-copy depth 20-40; a fifth of the samples genotyped with indelpost=false; profile from a simulated two-copy reference sample; distinct by hash of the case description",
            "samples": samples, "stats": dict(stats), "all_violations": violations}


def search(ctx, hints):
    res = tie({**ctx, "tier": "quick"})
    return {"violations": res["violations"], "cases_searched": res["evaluations"]}
