"""C08 - a catalogued variant denotes the same haplotype in every coordinate system.

Tie:
  coords : for every database x build: Lean `mkMaps` (maps, lookup sequence) and `convertMut` on
           every raw database entry == the real `Gene` (`chr_to_ref`/`ref_to_chr`, `_lookup_seq`,
           keys and values of `gene.mutations`, `get_refseq` notation); the driver evaluates the
           hypotheses of `convert_correct` (reference allele matches, span inside one M block)
           and the haplotype equation itself on every variant
Oracle (always on; the search): independent Python apply-and-compare on the real Gene object
(sequence level), reference alleles, mutually inverse maps, written notation recovered.
"""
import collections
import os
import re

import yaml

import gen_gene
import lib
import views

PID = "C08"
PROPS = ["Aldy.Props.C08"]
TRUSTED_EXTRA = ["PyYAML (database parsing)"]
ASSUMPTIONS = ["variants whose RefSeq position is not mapped in a build are ignored by the loader (warning) and are not judged"]

COMP = {"A": "T", "C": "G", "G": "C", "T": "A"}


_B = "TCAG"
_AA = "FFLLSSSSYY**CC*WLLLLPPPPHHQQRRRRIIIMTTTTNNKKSSRRVVVVAAAADDEEGGGG"
CODON = {a + b + c: _AA[16 * i + 4 * j + k] for i, a in enumerate(_B) for j, b in enumerate(_B) for k, c in enumerate(_B)}


def rc(s):
    return "".join(COMP.get(c, c) for c in reversed(s))


def raw_entries(doc):
    """variant entries [pos, op] of the database (allele names, random, groups)"""
    out = []
    al = doc["alleles"]
    for name, a in al.items():
        if name == "random":
            items = a
        elif name == "groups":
            items = [m for g in a.values() for m in g]
        else:
            if a.get("ignored", False):
                continue
            items = a["mutations"]
        for e in items:
            pos, op = e[0], e[1]
            if isinstance(pos, int) and isinstance(op, str):
                out.append((pos, op))
    seen = []
    s = set()
    for e in out:
        if e not in s:
            s.add(e)
            seen.append(e)
    return seen


def apply_py(seq, origin, pos, op):
    """sequence-level meaning of a variant (substitution/deletion at pos, insertion after pos)"""
    i = pos - origin
    if ">" in op:
        l, r_ = op.split(">")
        s = list(seq)
        for k, (x, y) in enumerate(zip(l, r_)):
            if y != ".":
                s[i + k] = y
        return "".join(s)
    if op.startswith("ins"):
        return seq[:i + 1] + op[3:] + seq[i + 1:]
    if op.startswith("del"):
        body = op[3:]
        if "ins" in body:
            d, x = body.split("ins")
            return seq[:i] + x + seq[i + len(d):]
        return seq[:i] + seq[i + len(body):]
    return seq


def oracle(gene, doc, entries):
    why = []
    seq = gene.seq
    L = gene._lookup_seq
    lo, hi = gene._lookup_range
    R = rc(L) if gene.strand < 0 else L
    # maps mutually inverse
    for g, r_ in gene.chr_to_ref.items():
        if gene.ref_to_chr.get(r_) != g:
            why.append(f"maps are not mutually inverse at genome {g} / refseq {r_}")
            break
    for r_, g in gene.ref_to_chr.items():
        if gene.chr_to_ref.get(g) != r_:
            why.append(f"maps are not mutually inverse at refseq {r_} / genome {g}")
            break
    by_orig = collections.defaultdict(list)
    for (g, op), v in gene.mutations.items():
        by_orig[(v[3], v[4])].append((g, op, v))
    for pos, op in entries:
        lst = by_orig.get((pos - 1, op))
        if not lst:
            continue  # ignored by the loader (unmapped) or shadowed by an equal key
        for g, gop, v in lst:
            # reference allele
            if ">" in op or op.startswith("del"):
                ref = op.split(">")[0] if ">" in op else op[3:].split("ins")[0]
                have = seq[pos - 1:pos - 1 + len(ref)]
                if any(x != "." and x != y for x, y in zip(ref, have)) or len(have) != len(ref):
                    why.append(f"{pos}{op}: reference allele {ref} does not match RefSeq {have}")
                gref = gop.split(">")[0] if ">" in gop else gop[3:].split("ins")[0]
                ghave = gene[g:g + len(gref)]
                if any(x != "." and x != y for x, y in zip(gref, ghave)):
                    why.append(f"{pos}{op} loaded as {g}:{gop}: genome-strand reference allele {gref} does not match the genome {ghave}")
            # same haplotype
            if not (lo <= g < hi):
                continue
            got = apply_py(L, lo, g, gop)
            got = rc(got) if gene.strand < 0 else got
            g0 = gene.ref_to_chr.get(pos - 1)
            if insertion_at_gap(gene, pos, op):
                continue
            if g0 is None:
                why.append(f"{pos}{op} loaded as {g}:{gop} although its RefSeq position is not mapped in this build")
                continue
            idx = (hi - 1 - g0) if gene.strand < 0 else (g0 - lo)
            exp = apply_py(R, 0, idx, op)
            if got != exp:
                why.append(f"{pos}{op} loaded as {g}:{gop} denotes a different haplotype on the genome than on the RefSeq")
            # notation
            if gene.get_refseq(g, gop) != f"{pos}{op}":
                why.append(f"{pos}{op}: reported RefSeq notation is {gene.get_refseq(g, gop)}")
    return why


def insertion_at_gap(gene, pos, op):
    """an insertion written next to an alignment gap of this build (one of the RefSeq bases around its anchor is missing
    from the genome, or the genome has bases between them): where the inserted bases sit relative to the gap is a matter
    of convention, the haplotype clauses are not decided for it"""
    if not op.startswith("ins"):
        return False
    idx = [pos - 2, pos - 1, pos]
    gs = [gene.ref_to_chr.get(i) for i in idx]
    if any(g is None for g in gs):
        return True
    return any(abs(gs[i + 1] - gs[i]) != 1 for i in range(len(gs) - 1))


CIG = re.compile(r"([MID])(\d+)")


def request(gene, doc, entries):
    chrom, start, end, strand, cigar = doc["reference"]["mappings"][gene.genome]
    return {"op": "coords", "seq": gene.seq, "start": start, "end": end, "strand": 1 if strand == "+" else -1,
            "cigar": [[m.group(1), int(m.group(2))] for m in CIG.finditer(cigar)], "entries": [[p, o] for p, o in entries]}


def digest(gene):
    acc = 0
    for g, r_ in gene.chr_to_ref.items():
        acc = (acc * 31 + g * 7 + r_) % 1000000007
    return acc


def load_db(gd):
    from aldy.gene import Gene
    if gd["kind"] == "shipped":
        path = os.path.join(lib.REPO, f"aldy/resources/genes/{gd['name']}.yml")
        with open(path) as f:
            text = f.read()
        return yaml.safe_load(text), Gene(path, genome=gd["genome"])
    if gd["kind"] == "toy":
        gd = {**gd, "genome": gd.get("genome", "hg19")}
        path = os.path.join(lib.REPO, "aldy/tests/resources/toy.yml")
        with open(path) as f:
            text = f.read()
        return yaml.safe_load(text), Gene(path, genome=gd["genome"])
    return yaml.safe_load(gd["yaml"]), gen_gene.load(gd["yaml"], gd["genome"])


def pool(r, quick):
    names = views.shipped_gene_names()
    names = [n for n in names if os.path.isfile(os.path.join(lib.REPO, f"aldy/resources/genes/{n}.yml"))]
    # quick: the databases with long reference spans / many variants are left to the thorough tier (the model's coordinate
    # maps are association lists)
    small = [n for n in names if n not in ("dpyd", "ryr1", "cyp2d6", "cftr", "g6pd", "cacna1s")]
    chosen = r.sample(small, 6) + ["cyp2a6", "tpmt", "nat1"] if quick else names  # tpmt, nat1: databases with reference patches
    out = []
    for n in dict.fromkeys(chosen):
        for genome in ("hg19", "hg38"):
            out.append({"kind": "shipped", "name": n, "genome": genome})
    for _ in range(50 if quick else 600):
        ci_ = r.random() < 0.5
        y = gen_gene.gen_gene(r, cigar_indels=ci_, offsets=(10000, 20000))
        if not ci_ and r.random() < 0.5:
            y = gen_gene.with_balanced_gaps(r, y)
        # add a deletion-insertion variant (the generator's pool has none)
        doc = yaml.safe_load(y)
        seq = doc["reference"]["seq"]
        L = len(seq)
        p = r.randint(L // 2 + 2, L - 8) if len(doc["structure"]["genes"]) > 1 else r.randint(3, L - 8)
        w = r.randint(1, 3)
        doc["alleles"][f"{doc['name']}*77.001"] = {"mutations": [[p, f"del{seq[p - 1:p - 1 + w]}ins{''.join(r.choice('ACGT') for _ in range(r.randint(1, 3)))}", "-", "functional"]]}
        # multi-base substitutions written non-minimally (first and / or last base unchanged: `AC>AT`, `CTT>TGT`) - the
        # written spelling must denote the same haplotype on both strands
        lo_ = L // 2 + 2 if len(doc["structure"]["genes"]) > 1 else 3
        taken = {e[0] + k_ for a in doc["alleles"].values() for e in a["mutations"] if isinstance(e[0], int) for k_ in range(-4, 6)}
        free = [q for q in range(lo_, L - 8) if all(q + k_ not in taken for k_ in range(0, 5))]
        for j_, shape_ in enumerate(r.sample(["first", "last", "both"], 2)):
            if not free:
                break
            q = r.choice(free)
            free = [x for x in free if abs(x - q) > 8]
            w = r.choice([2, 3, 4]) if shape_ != "both" else r.choice([3, 4])
            ref = seq[q - 1:q - 1 + w]
            alt = list(gen_gene.COMP[c] for c in ref)
            if shape_ in ("first", "both"):
                alt[0] = ref[0]
            if shape_ in ("last", "both"):
                alt[-1] = ref[-1]
            doc["alleles"][f"{doc['name']}*{70 + j_}.001"] = {"mutations": [[q, f"{ref}>{''.join(alt)}", "-", "functional"]]}
        y = yaml.safe_dump(doc, sort_keys=False, default_flow_style=None)
        # multi-base variants at and next to the gaps of the RefSeq-to-genome alignment (either build, either strand):
        # the loader must refuse those that straddle a gap and keep those that merely lie beside it
        if any(re.search(r"[ID]", m[4]) for m in doc["reference"]["mappings"].values()):
            lo = L // 2 + 2 if len(doc["structure"]["genes"]) > 1 else 2
            k = 0
            for genome in ("hg19", "hg38"):
                try:
                    g0 = gen_gene.load(y, genome)
                except Exception:
                    continue
                r2c = g0.ref_to_chr
                breaks = [q for q in sorted(r2c) if lo <= q < L - 5 and r2c.get(q + 1) != r2c[q] + g0.strand]
                for b in breaks[:2]:
                    for _ in range(3):
                        w = r.choice([2, 3])
                        st = b + r.randint(-w - 1, 1) + 1          # 1-based RefSeq start
                        if st < lo or st + w >= L:
                            continue
                        ref = seq[st - 1:st - 1 + w]
                        kind = r.choice(["del", "mnp", "delins"])
                        if kind == "del":
                            op = "del" + ref
                        elif kind == "mnp":
                            op = ref + ">" + "".join(gen_gene.COMP[c] for c in ref)
                        else:
                            op = "del" + ref + "ins" + "".join(r.choice("ACGT") for _ in range(r.randint(1, 2)))
                        k += 1
                        doc["alleles"][f"{doc['name']}*{80 + k}.001"] = {"mutations": [[st, op, "-", "functional"]]}
            if k:
                y = yaml.safe_dump(doc, sort_keys=False, default_flow_style=None)
        for genome in ("hg19", "hg38"):
            out.append({"kind": "generated", "genome": genome, "yaml": y})
    return out


def tie(ctx):
    r = lib.rng("c08")
    quick = ctx["tier"] == "quick"
    dbs = pool(r, quick)
    if ctx.get("replay") and "violation" in ctx["replay"] and "db" in (ctx["replay"]["violation"].get("input") or {}):
        dbs.insert(0, ctx["replay"]["violation"]["input"]["db"])
    reqs, metas = [], []
    violations = []
    for gd in dbs:
        doc, gene = load_db(gd)
        entries = raw_entries(doc)
        reqs.append(request(gene, doc, entries))
        metas.append((gd, doc, gene, entries))
        why = oracle(gene, doc, entries)
        if why:
            violations.append({"why": why[0], "all": why[:6], "input": {"db": gd if gd["kind"] != "shipped" else gd}, "signature": "c08:" + why[0].split(":")[-1].strip()[:40]})
    # ---- amino-acid effect inferred for a substitution that is not catalogued: a function of the RefSeq position and
    # bases only, hence the same whichever build (strand, coordinates, region annotation) the database is loaded for
    comp = {"A": "T", "C": "G", "G": "C", "T": "A"}
    seen_pairs = set()
    n_eff = 0
    for gd in dbs:
        key = gd.get("name") or gd.get("yaml")
        if key in seen_pairs or gd["kind"] == "toy":
            continue
        seen_pairs.add(key)
        try:
            g19 = load_db({**gd, "genome": "hg19"})[1]
            g38 = load_db({**gd, "genome": "hg38"})[1]
        except Exception:
            continue
        coding = [q for s_, e_ in g19.exons for q in range(s_, e_) if q in g19.ref_to_chr and q in g38.ref_to_chr and g19.seq[q] in comp]
        if not coding:
            continue
        for q in r.sample(coding, min(len(coding), 40 if quick else 200)) + [s_ for s_, e_ in g19.exons if s_ in coding][:6] + [e_ - 1 for s_, e_ in g19.exons if e_ - 1 in coding][:6]:
            ref = g19.seq[q]
            alt = r.choice([c for c in "ACGT" if c != ref])
            eff = []
            for g in (g19, g38):
                op = f"{ref}>{alt}" if g.strand > 0 else f"{comp[ref]}>{comp[alt]}"
                m = (g.ref_to_chr[q], op)
                eff.append(None if m in g.mutations else ("x", g.get_functional(m)))
            n_eff += 1
            # independent translation (standard genetic code over the concatenated coding exons of the RefSeq record)
            cds_ = "".join(g19.seq[s_:e_] for s_, e_ in g19.exons)
            off_ = 0
            for s_, e_ in g19.exons:
                if s_ <= q < e_:
                    off_ += q - s_
                    break
                off_ += e_ - s_
            exp_ = None
            if off_ < len(cds_) - len(cds_) % 3:
                ci_ = off_ // 3
                old_ = cds_[3 * ci_:3 * ci_ + 3]
                new_ = old_[:off_ % 3] + alt + old_[off_ % 3 + 1:]
                if all(c in "ACGT" for c in old_ + new_) and CODON[old_] != CODON[new_]:
                    exp_ = (CODON[old_], ci_ + 1, CODON[new_])
            for g, e_real in zip((g19, g38), eff):
                if e_real is None:
                    continue
                got = e_real[1]
                mm = re.fullmatch(r"(\D)(\d+)(\D)", got or "")
                ok_ = (got is None) if exp_ is None else bool(mm and int(mm.group(2)) == exp_[1] and (exp_[0] == "*" or mm.group(1) == exp_[0]) and (exp_[2] == "*" or mm.group(3) == exp_[2]))
                if not ok_:
                    violations.append({"why": f"{g.name} {g.genome}: effect inferred for the uncatalogued substitution RefSeq {q + 1}{ref}>{alt} is {got!r}, the coding sequence gives "
                                              f"{None if exp_ is None else exp_[0] + str(exp_[1]) + exp_[2]!r}", "input": {"db": gd}, "signature": "c08:inferred_effect_wrong"})
                    break
            if eff[0] is not None and eff[1] is not None and eff[0] != eff[1]:
                violations.append({"why": f"{g19.name}: the effect inferred for RefSeq {q + 1}{ref}>{alt} is {eff[0][1]!r} when the database is loaded for hg19 and {eff[1][1]!r} for hg38",
                                   "input": {"db": gd}, "signature": "c08:inferred_effect_depends_on_build"})
                break
    outs = lib.driver_batch(reqs)
    fam = {"coords": {"cases": 0, "disagreements": []}}
    stats = collections.Counter()
    distinct = set()
    samples = []
    for (gd, doc, gene, entries), o in zip(metas, outs):
        fam["coords"]["cases"] += 1
        inp = {"db": gd}
        if o["lookup"] != gene._lookup_seq:
            fam["coords"]["disagreements"].append({"why": "lookup sequence differs from the model", "input": inp})
        if o["n_pairs"] != len(gene.chr_to_ref) or o["pairs_digest"] != digest(gene):
            fam["coords"]["disagreements"].append({"why": "chr_to_ref differs from the model", "input": inp})
        by_orig = collections.defaultdict(list)
        for (g, op), v in gene.mutations.items():
            by_orig[(v[3], v[4])].append((g, op))
        for (pos, op), e in zip(entries, o["entries"]):
            real = by_orig.get((pos - 1, op))
            stats["variants"] += 1
            kind = "sub" if ">" in op and len(op) == 3 else "mnp" if ">" in op else "delins" if op.startswith("del") and "ins" in op[3:] else op[:3]
            stats["kind_" + kind] += 1
            if e is None:
                stats["unmapped"] += 1
                if real:
                    fam["coords"]["disagreements"].append({"why": f"{pos}{op}: loaded as {real} but the model says unmapped", "input": inp})
                continue
            if not real:
                # setdefault: an equal (genome pos, op) key written earlier by another entry keeps the first value
                if (e["g"], e["op"]) not in gene.mutations:
                    region = gene.region_at(e["g"])
                    if region is not None:
                        fam["coords"]["disagreements"].append({"why": f"{pos}{op}: model loads it as {e['g']}:{e['op']}, the implementation does not have it", "input": inp})
                continue
            if (e["g"], e["op"]) not in real:
                fam["coords"]["disagreements"].append({"why": f"{pos}{op}: implementation loads {real}, model {e['g']}:{e['op']}", "input": inp})
                continue
            stats["hyp_ref_ok"] += e["ref_ok_refseq"] and e["ref_ok_genome"]
            stats["same_haplotype"] += e["same_haplotype"]
            if e["back"] != op and not op.startswith("del") or (op.startswith("del") and "ins" not in op[3:] and e["back"] != op):
                fam["coords"]["disagreements"].append({"why": f"{pos}{op}: reverse conversion gives {e['back']}", "input": inp})
            if not e["same_haplotype"] and insertion_at_gap(gene, pos, op):
                stats["insertion_at_alignment_gap_not_decided"] += 1
            elif not e["same_haplotype"]:
                violations.append({"why": f"{gene.name} {gene.genome}: {pos}{op} loaded as {e['g']}:{e['op']} denotes a different haplotype (model evaluation of the haplotype equation)", "input": inp,
                                   "signature": "c08:model_equation"})
            distinct.add(lib.canon_hash([gene.name, gene.genome, pos, op]))
        stats["databases"] += 1
        stats["strand_minus"] += gene.strand < 0
        stats["cigar_with_indel"] += bool(re.search(r"[ID]", doc["reference"]["mappings"][gene.genome][4]))
        if len(samples) < 3 and entries:
            samples.append({"db": gd.get("name", "generated"), "genome": gene.genome, "strand": gene.strand, "entry": entries[0], "loaded": o["entries"][0]})
    first = {}
    for v in violations:
        first.setdefault(v["signature"] + str(v["input"]["db"].get("name")), v)
    return {"families": fam, "violations": list(first.values())[:5], "evaluations": stats["variants"], "distinct_nontrivial": len(distinct),
            "rule": "every raw variant entry of shipped databases (quick: 7 genes x 2 builds; thorough: all) and of generated databases (random sequence, SNP/MNP/ins/del/delins, both strands, alignment strings with I/D, multi-base variants placed at and beside the alignment gaps); distinct by (gene, build, position, change)",
            "samples": samples, "stats": dict(stats)}


def search(ctx, hints):
    r = lib.rng("c08-search")
    dbs = [h["input"]["db"] for h in hints if "db" in (h.get("input") or {})][:10] + pool(r, True)
    violations = {}
    for gd in dbs:
        try:
            doc, gene = load_db(gd)
        except Exception as e:
            violations.setdefault("c08:crash", {"why": f"loading raised {type(e).__name__}: {e}", "input": {"db": gd}, "signature": "c08:crash"})
            continue
        why = oracle(gene, doc, raw_entries(doc))
        if why:
            violations.setdefault(why[0][:30], {"why": f"{gene.name} {gene.genome}: " + why[0], "all": why[:6], "input": {"db": gd}, "signature": "c08:" + why[0].split(":")[-1].strip()[:40]})
    return {"violations": list(violations.values())[:5], "databases_searched": len(dbs)}
