"""Snapshot of the model the real code built (through the MPSolver object API, not the LP
text, which prints ~6 significant digits) and comparison with the Lean-built model."""
import math
from fractions import Fraction

INF = float("inf")


def snapshot(cbc):
    """cbc: aldy.lpinterface.CBC instance -> canonical dict"""
    s = cbc.model
    vars_ = {}
    for v in s.variables():
        lb, ub = v.lb(), v.ub()
        if v.integer() and lb == 0 and ub == 1:
            vars_[v.name()] = ("B", 0.0, 1.0)
        elif v.integer():
            vars_[v.name()] = ("I", lb, ub)
        else:
            vars_[v.name()] = ("C", lb, ub)
    cons = []
    allv = s.variables()
    for c in s.constraints():
        terms = {}
        for v in allv:
            k = c.GetCoefficient(v)
            if k != 0:
                terms[v.name()] = k
        cons.append((terms, c.lb(), c.ub(), c.name()))
    o = s.Objective()
    obj = {}
    for v in allv:
        k = o.GetCoefficient(v)
        if k != 0:
            obj[v.name()] = k
    return {"vars": vars_, "cons": cons, "obj": obj, "offset": o.offset(), "min": o.minimization()}


def snapshot_fast(cbc):
    """Same as snapshot but linear in the model size (uses the proto export for the
    sparsity pattern, then reads exact coefficients through GetCoefficient)."""
    from ortools.linear_solver import linear_solver_pb2
    s = cbc.model
    proto = linear_solver_pb2.MPModelProto()
    s.ExportModelToProto(proto)
    allv = s.variables()
    vars_ = {}
    for v in allv:
        lb, ub = v.lb(), v.ub()
        if v.integer() and lb == 0 and ub == 1:
            vars_[v.name()] = ("B", 0.0, 1.0)
        elif v.integer():
            vars_[v.name()] = ("I", lb, ub)
        else:
            vars_[v.name()] = ("C", lb, ub)
    cons = []
    for c, pc in zip(s.constraints(), proto.constraint):
        terms = {}
        for idx in pc.var_index:
            v = allv[idx]
            k = c.GetCoefficient(v)
            if k != 0:
                terms[v.name()] = k
        cons.append((terms, c.lb(), c.ub(), c.name()))
    o = s.Objective()
    obj = {}
    for v in allv:
        k = o.GetCoefficient(v)
        if k != 0:
            obj[v.name()] = k
    return {"vars": vars_, "cons": cons, "obj": obj, "offset": o.offset(), "min": o.minimization()}


def from_lean(j):
    """driver's ilpJ -> canonical dict (coefficients as exact Fractions merged per variable)"""
    vars_ = {}
    for name, k in j["vars"]:
        if k["k"] == "B":
            vars_[name] = ("B", 0.0, 1.0)
        elif k["k"] == "I":
            vars_[name] = ("I", 0.0, float(k["ub"]))
        else:
            lb = -INF if k.get("lb") is None else float(Fraction(k["lb"]))
            ub = INF if k.get("ub") is None else float(Fraction(k["ub"]))
            vars_[name] = ("C", lb, ub)
    cons = []
    for c in j["cons"]:
        terms = {}
        for q, v in c["terms"]:
            terms[v] = terms.get(v, Fraction(0)) + Fraction(q)
        terms = {v: float(q) for v, q in terms.items() if q != 0}
        rhs = float(Fraction(c["rhs"]))
        if c["sense"] == "le":
            cons.append((terms, -INF, rhs, ""))
        else:
            cons.append((terms, rhs, INF, ""))
    obj = {}
    for q, v in j["obj"]:
        obj[v] = obj.get(v, Fraction(0)) + Fraction(q)
    obj = {v: float(q) for v, q in obj.items() if q != 0}
    return {"vars": vars_, "cons": cons, "obj": obj, "offset": 0.0, "min": True}


def close(a, b, tol=1e-9):
    if a == b:
        return True
    if math.isinf(a) or math.isinf(b):
        return False
    return abs(a - b) <= tol * max(1.0, abs(a), abs(b))


def _con_key(c):
    terms, lb, ub, _ = c
    return (tuple(sorted(terms)), math.isinf(lb), math.isinf(ub))


def _con_vec(c):
    terms, lb, ub, _ = c
    return [terms[k] for k in sorted(terms)] + [0.0 if math.isinf(lb) else lb, 0.0 if math.isinf(ub) else ub]


def compare(real, model, tol=1e-9):
    """list of human-readable differences (empty = equal); constraint names and order ignored"""
    diffs = []
    rv, mv = real["vars"], model["vars"]
    for n in sorted(set(rv) | set(mv)):
        if n not in rv:
            diffs.append(f"variable {n} only in the model")
        elif n not in mv:
            diffs.append(f"variable {n} only in the implementation")
        else:
            a, b = rv[n], mv[n]
            if a[0] != b[0] or not close(a[1], b[1], tol) or not close(a[2], b[2], tol):
                diffs.append(f"variable {n}: implementation {a} vs model {b}")
    groups = {}
    for side, cons in (("impl", real["cons"]), ("model", model["cons"])):
        for c in cons:
            groups.setdefault(_con_key(c), {"impl": [], "model": []})[side].append(c)
    for key, g in sorted(groups.items(), key=lambda x: str(x[0])):
        a = sorted(g["impl"], key=_con_vec)
        b = sorted(g["model"], key=_con_vec)
        if len(a) != len(b):
            names = sorted({c[3] for c in a})
            diffs.append(f"constraints over {list(key[0])[:6]} (lower-unbounded={key[1]}, upper-unbounded={key[2]}): "
                         f"{len(a)} in implementation {names[:3]} vs {len(b)} in model")
            continue
        for x, y in zip(a, b):
            vx, vy = _con_vec(x), _con_vec(y)
            if not all(close(p, q, tol) for p, q in zip(vx, vy)):
                diffs.append(f"constraint {x[3]} over {list(key[0])[:6]}: implementation {vx[:8]} vs model {vy[:8]}")
    ro, mo = real["obj"], model["obj"]
    for n in sorted(set(ro) | set(mo)):
        if not close(ro.get(n, 0.0), mo.get(n, 0.0), tol):
            diffs.append(f"objective coefficient of {n}: implementation {ro.get(n, 0.0)!r} vs model {mo.get(n, 0.0)!r}")
    if not close(real["offset"], model["offset"], tol):
        diffs.append(f"objective offset: {real['offset']} vs {model['offset']}")
    if real["min"] != model["min"]:
        diffs.append("objective sense differs")
    return diffs


class Capture:
    """Replace aldy.lpinterface.model inside the harness process so that the model a stage
    builds is snapshotted at its first solve (no source hook)."""

    def __init__(self):
        self.snaps = []

    def __enter__(self):
        import aldy.lpinterface as lpi
        self._lpi = lpi
        self._orig = lpi.model
        cap = self

        def model(name, solver):
            m = cap._orig(name, solver)
            orig_solve = m.solve
            state = {"done": False}

            def solve(init=None):
                if not state["done"]:
                    state["done"] = True
                    cap.snaps.append((name, snapshot_fast(m), m))
                return orig_solve(init)

            m.solve = solve
            return m

        lpi.model = model
        return self

    def __exit__(self, *a):
        self._lpi.model = self._orig
        return False
