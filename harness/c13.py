"""C13 - calls do not depend on genome build or gene strand.

Ties (implementation on build A vs implementation on build B; the Lean side are the theorems of
Props/C13: feasibility, objective and optima are invariant under renaming of variables and under
reordering of constraints/terms):
  major_models_isomorphic : the models `solve_major_model` hands to CBC for the two builds are equal
                            after renaming variables by the RefSeq identity of their variants
  minor_models_isomorphic : the same for `solve_minor_model` (objective compared up to the
                            construction-order tie-breaker epsilon)
Oracle (always on; the search): the property itself - same structures, major and minor solutions,
scores and added/lost variants in RefSeq terms for (a) transported evidence tables at stage level
on shipped (hg19/hg38) and generated opposite-strand databases and (b) alignments simulated
against each build through the full pipeline.
"""
import collections
import os
import re
import shutil

import c04
import gen_gene
import instances
import lib
import views
import lp
import sim
import yaml

PID = "C13"
PROPS = ["Aldy.Props.C13", "Aldy.Props.C13Spec"]
TRUSTED_EXTRA = ["pysam and the read simulator (pipeline runs)", "name canonicaliser of this check (maps variable names to RefSeq identities)"]
ASSUMPTIONS = ["every planted variant is mapped in both builds", "reference depth uniform around variant sites (evidence transport)"]


def rsid(gene, m):
    v = gene.mutations.get((m[0], m[1]))
    return None if v is None else (v[3], v[4])


def pos_id(gene, p):
    return gene.chr_to_ref.get(p)


def make_tables(r, genes, structure, planted, noise):
    """RefSeq-level evidence transported to each build"""
    from aldy.gene import Mutation
    from aldy.solutions import CNSolution
    ga = genes[0]
    cn = CNSolution(ga, 0, structure)
    d = r.choice([10, 20, 30])
    carried = collections.Counter()
    for maj, mino in planted:
        a = ga.alleles[maj]
        for m in set(a.func_muts) | set(a.minors[mino].neutral_muts):
            if ga.has_coverage(maj, m.pos):
                carried[rsid(ga, m)] += 1
    extra = {}
    allm = [Mutation(*m) for m in ga.mutations]
    for m in r.sample(allm, min(len(allm), r.randint(0, 3))):
        if rsid(ga, m) not in carried and noise:
            extra[rsid(ga, m)] = r.choice([1, 3, d // 2, d])
    counts = {}
    for k, c in carried.items():
        v = d * c
        if noise and r.random() < 0.5:
            v = max(0, int(round(v * r.uniform(0.7, 1.3))))
        counts[k] = v
    counts.update(extra)
    tables = []
    for g in genes:
        from aldy.coverage import Coverage
        byid = {(v[3], v[4]): k for k, v in g.mutations.items()}
        table = collections.defaultdict(dict)
        if any(k not in byid for k in counts):
            return None
        sites = set()
        for k, c in counts.items():
            p, o = byid[k]
            if c > 0:
                table[p][o] = [(60, 60)] * c
            sites.add(p)
        if not sites:
            tables.append(table)
            continue
        # reference reads at every catalogued site (the same set of sites in both builds) and around the observed ones
        cnsol = cn_for(g, structure)
        around = {q + k_ for q in sites for k_ in range(-4, 5)}
        for p in sorted(around | {q for q, _ in g.mutations} | {q + 1 for q, _ in g.mutations} | {q - 1 for q, _ in g.mutations}):
            pc = cnsol.position_cn(p)
            var_here = sum(len(v) for o, v in table.get(p, {}).items() if o[:3] != "ins")
            refc = max(0, d * pc - var_here)
            if refc > 0:
                table[p]["_"] = [(60, 60)] * refc
        tables.append(table)
    return tables


def cn_for(g, structure):
    from aldy.solutions import CNSolution
    return CNSolution(g, 0, structure)


def site_id(gene, p):
    """a reference row belongs to a *site*: identified by the catalogued variants located there"""
    return ";".join(sorted(f"{v[3]}|{v[4]}" for (q, o), v in gene.mutations.items() if q == p))


def canon_major(gene, snap):
    """rename variables of a captured major model by RefSeq identity"""
    from aldy.lpinterface import escape_name
    from aldy.gene import Mutation
    ren = {}
    for (p, o), v in gene.mutations.items():
        m = Mutation(p, o)
        i = f"{v[3]}|{v[4]}"
        for pre in ("N_", "OR_", "XOR_"):
            ren[escape_name(f"{pre}{m}")] = f"{pre}<{i}>"
        e = escape_name(f"E_{p}_{o}")
        ren[e] = f"E<{i}>"
        ren[escape_name(f"ABS_{e}")] = f"ABS<{i}>"
    for p in {p for p, _ in gene.mutations}:
        e = escape_name(f"E_{p}_REF")
        ren[e] = f"EREF<{site_id(gene, p)}>"
        ren[escape_name(f"ABS_{e}")] = f"ABSREF<{site_id(gene, p)}>"
    return rename(snap, ren)


def canon_minor(gene, snap):
    from aldy.lpinterface import escape_name
    ren = {}
    names = set(snap["vars"])
    muts = {}
    for (p, o), v in gene.mutations.items():
        muts[escape_name(f"{p}_{o}")] = f"<{v[3]}|{v[4]}>"
    for p in {p for p, _ in gene.mutations}:
        muts[escape_name(f"{p}_REF")] = f"<REF{site_id(gene, p)}>"
    keys = sorted(muts, key=len, reverse=True)
    for n in names:
        new = n
        for pre in ("MUL_K_", "MUL_N_", "K_", "N_", "ABS_E_", "E_", "VNEWOR_"):
            if n.startswith(pre):
                body = n[len(pre):]
                for k in keys:
                    if body == k or body.startswith(k + "_"):
                        new = pre + muts[k] + body[len(k):]
                        break
                break
        ren[n] = new
    return rename(snap, ren)


def rename(snap, ren):
    f = lambda n: ren.get(n, n)
    return {"vars": {f(n): v for n, v in snap["vars"].items()},
            "cons": [({f(n): c for n, c in t.items()}, lb, ub, nm) for t, lb, ub, nm in snap["cons"]],
            "obj": {f(n): c for n, c in snap["obj"].items()}, "offset": snap["offset"], "min": snap["min"]}


def run_stage(gene, table, structure, pdesc):
    from aldy import major, minor
    from aldy.coverage import Coverage
    from c03 import Recorder
    prof = instances.make_profile(pdesc)
    cov = Coverage(gene, prof, None, table, None, {})
    cn = cn_for(gene, structure)
    with lp.Capture() as cap:
        majors = major.estimate_major(gene, cov, cn, "cbc")
    msnap = cap.snaps[0][1] if cap.snaps else None
    # the input of the major stage as the Lean model reads it (for the spec-level correspondence of the two builds)
    try:
        cand, fcov = major._filter_alleles(gene, cov, cn)
        minst = {"gene": views.gene_view(gene, sorted(set(table) | {p for p, _ in gene.mutations})), "cov": views.cov_view(fcov), "cn": views.cn_view(cn),
                 "alleles": list(cand.keys()), "major_novel": lib.frac(float(prof.major_novel)), "gap": lib.frac(float(prof.gap))}
    except Exception:
        minst = None
    calls = []
    orig = minor.solve_minor_model

    def wrapped(gene_, coverage_, major_sol, alleles_list, mutations, solver, max_solutions=1):
        with lp.Capture() as c2:
            res = orig(gene_, coverage_, major_sol, alleles_list, mutations, solver, max_solutions)
        calls.append({"snap": c2.snaps[0][1] if c2.snaps else None, "major": sorted(a.major for a in major_sol.solution.elements())})
        return res

    minor.solve_minor_model = wrapped
    try:
        minors = minor.estimate_minor(gene, cov, majors, "cbc") if majors else []
    finally:
        minor.solve_minor_model = orig
    return {"majors": majors, "minors": minors, "msnap": msnap, "calls": calls, "minst": minst}


def result_view(gene, res):
    mj = sorted((tuple(sorted(a.major for a in s.solution.elements())), tuple(sorted(rsid(gene, m) for m in s.added)), round(s.score, 6)) for s in res["majors"])
    mn = sorted((tuple(sorted((a.major, a.minor, tuple(sorted(rsid(gene, m) for m in a.added)), tuple(sorted(rsid(gene, m) for m in a.missing))) for a in s.solution)), round(s.score, 3)) for s in res["minors"])
    return mj, mn


def db_pool(r, quick):
    out = []
    ship = instances.SMALL_SHIPPED if quick else instances.SMALL_SHIPPED + ["cyp2d6", "dpyd", "cyp1a2"]
    for n in (r.sample(ship, 3) if quick else ship):
        out.append({"kind": "shipped", "name": n})
    out.append({"kind": "toy"})
    for _ in range(16 if quick else 150):
        out.append({"kind": "generated", "yaml": edge_variant_db(r)})
    # one build aligned with an insertion and a later deletion of the same length (gapped although both spans are equally long)
    for _ in range(5 if quick else 40):
        out.append({"kind": "generated", "yaml": gen_gene.with_balanced_gaps(r, gen_gene.gen_gene(r, offsets=(10000, 20000), pseudogene=r.random() < 0.5, scale=r.choice([1, 2, 2])))})
    return out


def edge_variant_db(r):
    """generated database; sometimes a SNP on the very last RefSeq base"""
    y = gen_gene.gen_gene(r, offsets=(10000, 20000), pseudogene=r.random() < 0.5, ascending38=r.random() < 0.4)
    if r.random() < 0.35:
        doc = yaml.safe_load(y)
        seq = doc["reference"]["seq"]
        L = len(seq)
        alt = r.choice([c for c in "ACGT" if c != seq[L - 1]])
        doc["alleles"][f"{doc['name']}*88.001"] = {"mutations": [[L, f"{seq[L - 1]}>{alt}", "-", "functional"]]}
        y = yaml.safe_dump(doc, sort_keys=False, default_flow_style=None)
    if r.random() < 0.9:
        # an insertion inside a tandem repeat of its own sequence (insCT in CTCT): aligners report it at the leftmost
        # position of the repeat, which is the catalogue position on one strand only
        doc = yaml.safe_load(y)
        seq = list(doc["reference"]["seq"])
        ents = [(an, e) for an, al in doc["alleles"].items() for e in al["mutations"] if isinstance(e[0], int)]
        ins = [e for an, e in ents if str(e[1]).startswith("ins")]
        r.shuffle(ins)
        for e in ins:
            unit = e[1][3:]
            lo_, hi_ = e[0] - 2 * len(unit) - 1, e[0] + 2 * len(unit) + 2
            if lo_ < 2 or hi_ >= len(seq) - 2:
                continue
            clash = False
            for an2, e2 in ents:
                if e2[0] == e[0] and e2[1] == e[1]:
                    continue
                w2 = len(e2[1].split(">")[0]) if ">" in e2[1] else (len(e2[1][3:].split("ins")[0]) if e2[1].startswith("del") else 1)
                if e2[0] + w2 >= lo_ and e2[0] <= hi_:
                    clash = True
                    break
            if clash:
                continue
            # bases after the anchor (1-based e[0]) become two copies of the unit, the anchor and the bases before it one copy
            for j in range(2 * len(unit)):
                seq[e[0] + j] = unit[j % len(unit)]
            for j in range(len(unit)):
                seq[e[0] - 1 - j] = unit[len(unit) - 1 - (j % len(unit))]
            doc["reference"]["seq"] = "".join(seq)
            y = yaml.safe_dump(doc, sort_keys=False, default_flow_style=None)
            break
    if True:
        # an allele (*95) with a SILENT insertion inside a tandem repeat and a core SNP a few bases away: reads span both,
        # the read-phase record has to name the insertion at the catalogue position on either strand
        doc = yaml.safe_load(y)
        seq = list(doc["reference"]["seq"])
        L = len(seq)
        ents = [e for al in doc["alleles"].values() for e in al["mutations"] if isinstance(e[0], int)]
        def span_(e):
            op_ = e[1]
            w_ = len(op_.split(">")[0]) if ">" in op_ else (len(op_[3:].split("ins")[0]) if op_.startswith("del") else 1)
            return range(e[0] - 2, e[0] + w_ + 2)
        used = {q for e in ents for q in span_(e)}
        lo = L // 2 + 8 if len(doc["structure"]["genes"]) > 1 else 8
        cand = [q for q in range(lo, L - 24) if all(x not in used for x in range(q - 6, q + 18))]
        if cand:
            p0 = r.choice(cand)
            a_, b_ = r.sample("ACGT", 2)
            unit = a_ + b_
            # ...xABAB|y: the repeat ends at the anchor base (1-based p0): the catalogue spells the insertion at the RefSeq-right
            # end of the repeat (HGVS 3' rule), the leftmost spelling on the - strand only
            for j_ in range(4):
                seq[p0 - 4 + j_] = unit[j_ % 2]
            seq[p0 - 5] = next(c for c in "ACGT" if c not in (unit[0], unit[1]))
            seq[p0] = next(c for c in "ACGT" if c not in (unit[0], unit[1]))
            q0 = p0 + 10
            alt = r.choice([c for c in "ACGT" if c != seq[q0 - 1]])
            # anchor base (1-based p0) must end a unit: seq[p0-1] == unit[1]
            doc["reference"]["seq"] = "".join(seq)
            if seq[p0 - 1] == unit[1] and seq[p0 - 2] == unit[0]:
                doc["alleles"][f"{doc['name']}*95.001"] = {"mutations": [[p0, "ins" + unit, "-"], [q0, f"{seq[q0 - 1]}>{alt}", "-", "functional"]]}
                y = yaml.safe_dump(doc, sort_keys=False, default_flow_style=None)
    if r.random() < 0.5:
        # a SNP on the first / last RefSeq base of a gene region (where a fused structure switches between gene and
        # pseudogene): both builds must assign it to the same region
        doc = yaml.safe_load(y)
        seq = doc["reference"]["seq"]
        regs = doc["structure"]["regions"]["hg19"]
        S = doc["reference"]["mappings"]["hg19"][1]
        def span_(e):
            op_ = e[1]
            w_ = len(op_.split(">")[0]) if ">" in op_ else (len(op_[3:].split("ins")[0]) if op_.startswith("del") else 1)
            return range(e[0] - 1, e[0] + w_ + 1)
        used = {q for a in doc["alleles"].values() for e in a["mutations"] if isinstance(e[0], int) for q in span_(e)}
        names = [n for n in regs if n not in ("up", "down")]
        k = 0
        for n in r.sample(names, min(len(names), 2)):
            a, b = regs[n][0], regs[n][1]          # gene copy: 1-based genome start, end (half-open) on the + strand build
            p = (a if r.random() < 0.6 else b - 1) - S + 1   # 1-based RefSeq position
            if p in used or not (1 <= p <= len(seq)):
                continue
            used.update((p - 1, p, p + 1))
            alt = r.choice([c for c in "ACGT" if c != seq[p - 1]])
            k += 1
            doc["alleles"][f"{doc['name']}*{90 + k}.001"] = {"mutations": [[p, f"{seq[p - 1]}>{alt}", "-", "functional"]]}
            # also on an existing allele, so that fusion partials of catalogued alleles carry it
            plain = [an for an, al in doc["alleles"].items() if al["mutations"] and all(isinstance(e[0], int) for e in al["mutations"]) and not an.endswith(f"*{90 + k}.001")]
            if plain:
                doc["alleles"][r.choice(plain)]["mutations"].append([p, f"{seq[p - 1]}>{alt}", "-", "functional"])
        y = yaml.safe_dump(doc, sort_keys=False, default_flow_style=None)
    return y


COMPL = {"A": "T", "C": "G", "G": "C", "T": "A", "N": "N"}


def transport_reads(reads, ga, gb):
    """express the same reads against the other build (mirror image when the strands differ)"""
    out = []
    for rd in reads:
        span = sum(n for op, n in rd["cigar"] if op in (0, 2, 7, 8))
        s, e = rd["pos"], rd["pos"] + span
        if s not in ga.chr_to_ref or (e - 1) not in ga.chr_to_ref:
            return None
        r0, r1 = ga.chr_to_ref[s], ga.chr_to_ref[e - 1]
        lo, hi = min(r0, r1), max(r0, r1)
        if lo not in gb.ref_to_chr or hi not in gb.ref_to_chr:
            return None
        same = ga.strand == gb.strand
        if same:
            out.append(dict(rd, pos=min(gb.ref_to_chr[lo], gb.ref_to_chr[hi])))
        else:
            out.append(dict(rd, pos=min(gb.ref_to_chr[lo], gb.ref_to_chr[hi]), cigar=list(reversed(rd["cigar"])),
                            seq="".join(COMPL[c] for c in reversed(rd["seq"]))))
    return out


def shiftable_indel(gene, m):
    """an insertion / deletion that has another spelling in its repeat (either direction)"""
    pos, op = m[0], m[1]
    if op.startswith("del") and "ins" not in op:
        n = len(op) - 3
        return gene[pos - 1] == gene[pos + n - 1] or gene[pos] == gene[pos + n]
    if op.startswith("ins"):
        x = op[3:]
        return gene[pos] == x[-1] or gene[pos + 1] == x[0]
    return False


def geometry_differs(genes):
    """region of every RefSeq base mapped in both builds, and the copy number a configuration gives it"""
    ga, gb = genes
    for p, ca in ga.ref_to_chr.items():
        cb = gb.ref_to_chr.get(p)
        if cb is None:
            continue
        ra, rb = ga.region_at(ca), gb.region_at(cb)
        if ra != rb:
            # bases of the alignment gaps aside, a RefSeq base lies in the same region whichever build is loaded
            return f"RefSeq base {p + 1} lies in region {ra} of {ga.genome} but in region {rb} of {gb.genome}"
    return None


def load_pair(gd):
    return [instances.load_gene({**gd, "genome": gm})[0] for gm in ("hg19", "hg38")]


def tie(ctx):
    from aldy.common import GRange, AldyException
    from aldy.genotype import genotype
    r = lib.rng("c13")
    quick = ctx["tier"] == "quick"
    pool = db_pool(r, quick)
    fam = {k: {"cases": 0, "disagreements": []} for k in ("major_models_isomorphic", "minor_models_isomorphic")}
    violations = []
    stats = collections.Counter()
    distinct = set()
    samples = []
    n = 240 if quick else 2500
    corr_reqs, corr_metas = [], []
    # ---- what the stages ask the database per RefSeq base is the same in both builds ------------------------------
    for gd in pool:
        if gd["kind"] == "shipped":
            continue    # the shipped databases annotate UTR / flank boundaries per build (data, not code): not compared
        genes = load_pair(gd)
        why = geometry_differs(genes)
        stats["geometry_pairs"] += 1
        if why:
            violations.append({"why": why, "input": {"db": gd}, "signature": "c13:region_map_differs"})
    for i in range(n):
        gd = pool[i % len(pool)]
        genes = load_pair(gd)
        ga = genes[0]
        structure = ["1", "1"] if r.random() < 0.6 else instances.random_structure(r, ga, max_copies=3)
        planted = instances.plant_alleles(r, ga, structure)
        tables = make_tables(r, genes, structure, planted, noise=r.random() < 0.7)
        if tables is None:
            stats["skipped_unmapped"] += 1
            continue
        pdesc = {"gap": r.choice(["0", "0", "0.1"])}
        if quick and gd["kind"] == "shipped":
            pdesc = {"gap": "0"}   # enumerating near-optimal combinations of a shipped catalogue is left to the thorough tier
        inp = {"db": gd if gd["kind"] != "generated" else gd, "structure": structure, "planted": planted, "profile": pdesc, "index": i}
        try:
            ra = run_stage(genes[0], tables[0], structure, pdesc)
            rb = run_stage(genes[1], tables[1], structure, pdesc)
        except Exception as e:
            violations.append({"why": f"stage raised {type(e).__name__}: {e}", "input": inp, "signature": "c13:crash"})
            continue
        va, vb = result_view(genes[0], ra), result_view(genes[1], rb)
        if ra.get("minst") and rb.get("minst"):
            # variants and sites of the two builds paired by RefSeq identity
            idb = {(v[3], v[4]): (q, o) for (q, o), v in genes[1].mutations.items()}
            pi = [[[q, o], list(idb[(v[3], v[4])])] for (q, o), v in genes[0].mutations.items() if (v[3], v[4]) in idb]
            rho = {}
            for (a_, b_) in pi:
                rho.setdefault(a_[0], b_[0])
            corr_reqs.append({"op": "major_corr", "I": ra["minst"], "J": rb["minst"], "pi": pi, "rho": [[a_, b_] for a_, b_ in rho.items()]})
            corr_metas.append((inp, va[0], vb[0]))
        stats["stage_pairs"] += 1
        stats["opposite_strand"] += genes[0].strand != genes[1].strand
        import c09
        boundary = bool(c09.boundary_insertions(genes[0]) | c09.boundary_insertions(genes[1]))
        btag = ":variant_on_region_boundary" if boundary else ""
        if va[0] != vb[0]:
            violations.append({"why": f"major solutions differ between builds: {va[0][:2]} vs {vb[0][:2]}", "input": inp, "signature": "c13:major_differs" + btag})
        elif va[1] != vb[1]:
            pending_minor = {"why": f"minor solutions differ between builds: {va[1][:1]} vs {vb[1][:1]}", "input": inp, "signature": "c13:minor_differs" + btag,
                             "tied": sorted(round(x[1], 3) for x in va[1]) == sorted(round(x[1], 3) for x in vb[1])}
        else:
            pending_minor = None
        if va[0] != vb[0]:
            pending_minor = None
        iso_before = len(fam["minor_models_isomorphic"]["disagreements"]) + len(fam["major_models_isomorphic"]["disagreements"])
        if ra["msnap"] is not None and rb["msnap"] is not None:
            fam["major_models_isomorphic"]["cases"] += 1
            diffs = lp.compare(canon_major(genes[0], ra["msnap"]), canon_major(genes[1], rb["msnap"]))
            if diffs:
                if boundary:
                    violations.append({"why": "major models of the two builds differ: " + diffs[0], "input": inp, "signature": "c13:major_differs" + btag})
                else:
                    fam["major_models_isomorphic"]["disagreements"].append({"why": "major models of the two builds are not renamings of each other: " + diffs[0], "input": inp})
        for ca, cb in zip(ra["calls"], rb["calls"]):
            if ca["snap"] is None or cb["snap"] is None or ca["major"] != cb["major"]:
                continue
            fam["minor_models_isomorphic"]["cases"] += 1
            a, b = canon_minor(genes[0], ca["snap"]), canon_minor(genes[1], cb["snap"])
            # objective: tie-breaker coefficients depend on construction order -> compare up to 1e-3
            oa, ob = a["obj"], b["obj"]
            a2 = dict(a, obj={})
            b2 = dict(b, obj={})
            diffs = lp.compare(a2, b2)
            if not diffs:
                for k in set(oa) | set(ob):
                    if abs(oa.get(k, 0) - ob.get(k, 0)) > 1e-3:
                        diffs.append(f"objective coefficient of {k}: {oa.get(k, 0)} vs {ob.get(k, 0)}")
                        break
            if diffs:
                if boundary:
                    violations.append({"why": "minor models of the two builds differ: " + diffs[0], "input": inp, "signature": "c13:minor_differs" + btag})
                else:
                    fam["minor_models_isomorphic"]["disagreements"].append({"why": "minor models of the two builds are not renamings of each other: " + diffs[0], "input": inp})
        if pending_minor:
            iso_after = len(fam["minor_models_isomorphic"]["disagreements"]) + len(fam["major_models_isomorphic"]["disagreements"])
            if pending_minor.pop("tied") and iso_after == iso_before:
                # the two models are renamings of each other (checked above) and the reported scores are equal: both
                # refinements are optima of both builds (`optimum_transport`); only the choice among them differs
                pending_minor["signature"] = "c13:equal_score_refinements_chosen_by_build"
                pending_minor["why"] = "EQUAL-SCORE " + pending_minor["why"]
            violations.append(pending_minor)
        distinct.add(lib.canon_hash([gd, structure, planted, i]))
        if len(samples) < 3 and va[0]:
            samples.append({"db": gd.get("name", gd["kind"]), "strands": [g.strand for g in genes], "structure": structure, "planted": planted, "major": va[0][:2]})
    # ---- spec level (Props/C13Spec): where the two inputs of the major stage correspond (`MajorCorr`, decided by Lean), every
    # multiset has the same admissibility and documented score in both builds, so the reported solutions must be the same
    fam["major_spec_correspondence"] = {"cases": 0, "disagreements": []}
    for (inp_, mja, mjb), o in zip(corr_metas, lib.driver_batch(corr_reqs)):
        fam["major_spec_correspondence"]["cases"] += 1
        if o["corr"]:
            stats["major_corr_holds"] += 1
            if mja != mjb:
                fam["major_spec_correspondence"]["disagreements"].append(
                    {"why": f"the major-stage inputs of the two builds correspond (spec_major_build_independent applies) but the reported solutions differ: {mja[:2]} vs {mjb[:2]}", "input": inp_})
        else:
            for c_ in o["failing"]:
                stats["major_corr_fails_" + c_] += 1
    # ---- full pipeline on alignments simulated against each build ----------------------------------------
    d = sim.scratch_dir()
    try:
        gens = [gd for gd in pool if gd["kind"] == "generated"]
        for k in range(24 if quick else 120):
            gd = gens[k % len(gens)]
            genes = load_pair(gd)
            ga = genes[0]
            tabs_ = [{a: sorted(al.minors) for a, al in g_.alleles.items()} for g_ in genes]
            if tabs_[0] != tabs_[1]:
                dif = sorted(set(tabs_[0].items() if False else [(a, tuple(v)) for a, v in tabs_[0].items()]) ^ set((a, tuple(v)) for a, v in tabs_[1].items()))[:4]
                import c09
                onb = bool(c09.boundary_insertions(genes[0]) | c09.boundary_insertions(genes[1]))
                violations.append({"why": f"the two builds of one database load different star-allele tables: {dif}", "input": {"db": gd},
                                   "signature": "c13:allele_table_differs" + (":variant_on_region_boundary" if onb and all("#" in str(x[0]) for x in dif) else "")})
                continue
            majors = [a for a, al in ga.alleles.items() if al.cn_config == "1"]
            copies = []
            for _ in range(2):
                a = r.choice(majors)
                copies.append((a, r.choice(list(ga.alleles[a].minors))))
            # prefer the edge-variant allele when there is one
            if "88" in ga.alleles and r.random() < 0.7:
                copies[0] = ("88", list(ga.alleles["88"].minors)[0])
            # every other sample: homozygous for an allele with an insertion (its left-aligned spelling depends on the strand
            # when it sits in a repeat; the read-phase record must name it at the catalogue position in both builds)
            if k % 2 == 0:
                with_ins = [(a, mi) for a in majors for mi in ga.alleles[a].minors if any(m[1].startswith("ins") for m in sim.copy_variants(ga, a, mi))]
                def in_repeat(m):
                    u = m[1][3:]
                    return m[1].startswith("ins") and (ga[m[0] + 1:m[0] + 1 + len(u)] == u or ga[m[0] - len(u) + 1:m[0] + 1] == u)
                rep_ins = [(a, mi) for a, mi in with_ins if any(in_repeat(m) for m in sim.copy_variants(ga, a, mi))]
                if "95" in ga.alleles:
                    rep_ins = [("95", sorted(ga.alleles["95"].minors)[0])]
                if rep_ins and ("95" in ga.alleles or r.random() < 0.8):
                    copies = [r.choice(rep_ins)] * 2
                elif with_ins:
                    copies = [r.choice(with_ins)] * 2
            elif k % 4 == 1:
                # ... or carrying an allele with a deletion of several bases (its text is reverse-complemented on the - strand)
                with_del = [(a, mi) for a in majors for mi in ga.alleles[a].minors
                            if any(m[1].startswith("del") and "ins" not in m[1] and len(m[1]) > 4 for m in sim.copy_variants(ga, a, mi))]
                if with_del:
                    copies = [r.choice(with_del), copies[1]]
            # a build aligned with a balanced pair of gaps: plant an allele with a variant BETWEEN the gaps (where every base of
            # that build sits at a shifted offset) when the catalogue has one
            if gd.get("yaml"):
                import re as _re
                for g_ in genes:
                    cg = yaml.safe_load(gd["yaml"])["reference"]["mappings"][g_.genome][4]
                    mm = _re.fullmatch(r"M(\d+) I(\d+) M(\d+) D(\d+) M(\d+)", cg)
                    if mm:
                        a0, k0, mid0 = int(mm.group(1)), int(mm.group(2)), int(mm.group(3))
                        Lr = len(g_.seq)
                        lo_, hi_ = (a0 + k0 + 1, a0 + k0 + mid0) if g_.strand > 0 else (Lr - (a0 + k0 + mid0) + 1, Lr - (a0 + k0))
                        inside = [(a, mi) for a in majors for mi in sorted(ga.alleles[a].minors)
                                  if any(lo_ <= ga.mutations[(m[0], m[1])][3] + 1 <= hi_ for m in sim.copy_variants(ga, a, mi) if (m[0], m[1]) in ga.mutations)]
                        if inside:
                            copies = [r.choice(inside), copies[1]]
                            stats["pipeline_variant_between_balanced_gaps"] += 1
            # an indel closer than 15 bases to the end of the stretch the reads tile cannot be placed by the realigner (the
            # reference aldy hands it is N-padded beyond the locus; same limit as in the C01 simulator) - and which end of
            # the locus that is depends on the strand: such alleles are not planted
            import c01
            if not all(c01.flanked(g_, a_, mi_) for g_ in genes for a_, mi_ in copies):
                stats["pipeline_repicked_indel_at_locus_edge"] += 1
                okc = [(a_, mi_) for a_ in majors for mi_ in sorted(ga.alleles[a_].minors) if all(c01.flanked(g_, a_, mi_) for g_ in genes)]
                oki = [c_ for c_ in okc if any(m[1][:3] in ("ins", "del") for m in sim.copy_variants(ga, *c_))]
                if not okc:
                    stats["pipeline_skipped_indel_at_locus_edge"] += 1
                    continue
                copies = [r.choice(oki)] * 2 if (oki and k % 2 == 0) else [r.choice(oki or okc), r.choice(okc)]
            outs = []
            indep_ = False
            prof_a = sim.simulate_reads(genes[0], [("1", "1.001"), ("1", "1.001")], depth=12)
            smp_a = sim.simulate_reads(genes[0], copies, depth=12)
            # (a build aligned with gaps: mirroring reads through the coordinate maps would not give what an aligner reports
            # for the reads that cross a gap - such databases always get independent alignments)
            gapped_ = any(("I" in str(c_) or "D" in str(c_)) for g_ in genes for c_ in [yaml.safe_load(gd["yaml"])["reference"]["mappings"][g_.genome][4]]) if gd.get("yaml") else False
            if k % 2 == 0 or gapped_:
                # alignments produced against the other build (the simulator writes indels at the leftmost position of
                # their repeat in the genome it aligns to, as aligners do)
                prof_b = sim.simulate_reads(genes[1], [("1", "1.001"), ("1", "1.001")], depth=12)
                smp_b = sim.simulate_reads(genes[1], copies, depth=12)
                stats["pipeline_independent_alignments"] += 1
                # the simulator tiles each build's locus on its own: the two read sets cover every base equally but are not
                # the same fragments, so which sites one fragment links differs between them. Read-phase evidence is
                # therefore not "the same sample" here and is switched off for both runs (the mirrored mode below keeps it)
                indep_ = True
            else:
                # the same alignments mirrored through the coordinate maps (not what an aligner would report for an indel
                # in a repeat on the other strand: such samples are left to the first mode)
                if any(shiftable_indel(genes[0], m) for a, mi in copies for m in sim.copy_variants(genes[0], a, mi)):
                    stats["pipeline_mirror_skipped_repeat_indel"] += 1
                    continue
                prof_b = transport_reads(prof_a, genes[0], genes[1])
                smp_b = transport_reads(smp_a, genes[0], genes[1])
            if prof_b is None or smp_b is None:
                stats["pipeline_skipped_unmapped"] += 1
                continue
            for gi, (g, genome, off, pr, sr) in enumerate(zip(genes, ("hg19", "hg38"), (60000, 70000), (prof_a, prof_b), (smp_a, smp_b))):
                cnr = GRange("20", off, off + 400)
                ypath = os.path.join(d, f"g{k}.yml")
                with open(ypath, "w") as f:
                    f.write(gd["yaml"])
                pb = os.path.join(d, f"p{k}_{gi}.bam")
                sb = os.path.join(d, f"s{k}_{gi}.bam")
                L = sim.chrom_length_for(g) + 80000
                sim.write_bam(pb, pr + sim.neutral_reads(cnr, 24), length=L)
                sim.write_bam(sb, sr + sim.neutral_reads(cnr, 24), length=L)
                try:
                    res = genotype(ypath, sb, pb, output_file=None, cn_region=cnr, genome=genome, **({"phase": "false"} if indep_ else {}))
                    sols = list(res.values())[0]
                    outs.append(sorted((s.get_major_diplotype(), round(s.score, 3), tuple(sorted((a.major, a.minor, tuple(sorted(rsid(g, m) for m in a.added)), tuple(sorted(rsid(g, m) for m in a.missing))) for a in s.solution)),
                                        tuple(sorted(s.major_solution.cn_solution.solution.items()))) for s in sols))
                except AldyException as e:
                    outs.append("ERROR " + str(e)[:60])
            stats["pipeline_pairs"] += 1
            if outs[0] != outs[1]:
                sig = "c13:pipeline_differs"
                import c01
                gap_ = c01.min_indel_gap(genes[0], copies)
                if gap_ is not None and gap_ <= c01.CLOSE_INDEL_GAP:
                    sig = "c13:pipeline_differs:close_indels"
                noscore = [[(x[0],) + tuple(x[2:]) for x in o] if isinstance(o, list) else o for o in outs]
                def norm_name(nm):
                    return " ".join("+".join([t.split("+")[0]] + sorted(t.split("+")[1:])) if "+" in t and len(t) > 1 else t for t in nm.split(" "))
                renamed = [[(norm_name(x[0]),) + tuple(x[1:]) for x in o] if isinstance(o, list) else o for o in outs]
                if sig.endswith("close_indels"):
                    pass
                elif renamed[0] == renamed[1]:
                    sig = "c13:order_of_added_variants_in_name"
                elif noscore[0] == noscore[1] and any(shiftable_indel(genes[0], m) for a, mi in copies for m in sim.copy_variants(genes[0], a, mi)):
                    sig = "c13:score_differs_indel_in_repeat"
                violations.append({"why": f"genotyping alignments against hg19 gives {str(outs[0])[:200]}, against hg38 {str(outs[1])[:200]}", "input": {"db": gd, "copies": copies}, "signature": sig})
        # ---- VCF input: the same sample called against the two builds; in one of them the reference genome carries the
        # variant base at the allele's sites (as hg19 does for CYP2D6*2): there the records are written with REF and ALT
        # exchanged - the same genotype, to be called the same
        import c16
        for k in range(10 if quick else 80):
            gd = gens[(3 * k + 1) % len(gens)]
            genes = load_pair(gd)
            names = [an for an, a in genes[0].alleles.items() if a.cn_config == "1" and an != "1" and a.func_muts and an in genes[1].alleles]
            r.shuffle(names)
            pick = None
            for an in names:
                mn = sorted(genes[0].alleles[an].minors)[0]
                if mn not in genes[1].alleles[an].minors:
                    continue
                mss = [sorted(set(g.alleles[an].func_muts) | set(g.alleles[an].minors[mn].neutral_muts)) for g in genes]
                if all(all(">" in m.op and len(m.op) == 3 for m in ms) and len({m.pos for m in ms}) == len(ms) for ms in mss) and len(mss[0]) == len(mss[1]):
                    pick = (an, mn, mss)
                    break
            if not pick or "1" not in genes[0].alleles:
                stats["vcf_pairs_skipped"] += 1
                continue
            an, mn, mss = pick
            hom = r.random() < 0.4
            swapped_build = r.choice([0, 1])
            outs = []
            for bi, (g, ms) in enumerate(zip(genes, mss)):
                recs = []
                for m in ms:
                    if bi == swapped_build:
                        recs.append((m.pos + 1, m.op[2], [m.op[0]], {"S0": "0/0" if hom else "0/1"}))
                    else:
                        recs.append((m.pos + 1, m.op[0], [m.op[2]], {"S0": "1/1" if hom else "0/1"}))
                path = os.path.join(d, f"v{k}_{bi}.vcf.gz")
                c16.write_vcf(path, recs, ["S0"])
                yp = os.path.join(d, f"v{k}_{bi}.yml")
                with open(yp, "w") as f:
                    f.write(gd["yaml"])
                try:
                    res = genotype(yp, path, None, output_file=None, genome=g.genome)
                    outs.append(sorted((s.get_major_diplotype(), round(s.score, 4)) for s in list(res.values())[0]))
                except AldyException as e:
                    outs.append("ERROR " + str(e)[:60])
            stats["vcf_pairs"] += 1
            if outs[0] != outs[1]:
                violations.append({"why": f"VCF of a sample {'homozygous' if hom else 'heterozygous'} for *{an}: called {str(outs[0])[:150]} against hg19 and {str(outs[1])[:150]} against hg38 "
                                          f"(records written with REF/ALT exchanged for {genes[swapped_build].genome})", "input": {"db": gd, "allele": an, "hom": hom, "swapped_build": swapped_build},
                                   "signature": "c13:vcf_pair_differs"})
    finally:
        shutil.rmtree(d, ignore_errors=True)
    firstv = {}
    for v in violations:
        firstv.setdefault(v["signature"], v)
    return {"families": fam, "violations": list(firstv.values()), "evaluations": stats["stage_pairs"] + stats["pipeline_pairs"] + stats["vcf_pairs"], "distinct_nontrivial": len(distinct),
            "rule": "pairs (hg19, hg38) of the same database - shipped (same strand, shifted coordinates), toy and generated (opposite strands, incl. a variant on the last RefSeq base) - with RefSeq-level evidence transported to both builds (planted 1-3 alleles, noise, spurious variants) through the real major and minor stages; plus alignments simulated against each build through the full pipeline, VCF pairs (records with REF/ALT exchanged in one build) and the region map per RefSeq base of generated databases; distinct by hash",
            "samples": samples, "stats": dict(stats)}


def search(ctx, hints):
    res = tie({**ctx, "tier": "quick"})
    return {"violations": res["violations"], "cases_searched": res["evaluations"]}
