#!/usr/bin/env python3
"""
Regenerates lean/Aldy/Generated/Constants.lean from /repo's *current* source.

Everything in the modelled code that is a literal is located by structural pattern
(function + shape of the enclosing expression, never by line number) with the stdlib
`ast` module.  A pattern that no longer matches raises ExtractorMismatch; the check
treats that like a broken correspondence (search for a failing input follows), it never
falls back to a default.
"""
import ast
import os
import sys
from fractions import Fraction

REPO = os.environ.get("ALDY_REPO", "/repo")


class ExtractorMismatch(Exception):
    pass


def parse(rel):
    with open(os.path.join(REPO, rel)) as f:
        return ast.parse(f.read(), rel)


def func(tree, *path):
    """find nested function/class by names"""
    node = tree
    for name in path:
        for ch in ast.walk(node):
            if isinstance(ch, (ast.FunctionDef, ast.ClassDef)) and ch.name == name and ch is not node:
                node = ch
                break
        else:
            raise ExtractorMismatch(f"no definition {'.'.join(path)}")
    return node


def num(node):
    """numeric literal (with optional unary minus) -> Fraction (exact decimal reading)"""
    if isinstance(node, ast.UnaryOp) and isinstance(node.op, ast.USub):
        return -num(node.operand)
    if isinstance(node, ast.Constant) and isinstance(node.value, (int, float)) and not isinstance(node.value, bool):
        return Fraction(repr(node.value)) if isinstance(node.value, float) else Fraction(node.value)
    raise ExtractorMismatch(f"not a numeric literal: {ast.dump(node)}")


def module_const(tree, name):
    for n in tree.body:
        if isinstance(n, ast.Assign) and len(n.targets) == 1 and isinstance(n.targets[0], ast.Name) and n.targets[0].id == name:
            return num(n.value)
    raise ExtractorMismatch(f"module constant {name} not found")


def local_const(fn, name):
    for n in ast.walk(fn):
        if isinstance(n, ast.Assign) and len(n.targets) == 1 and isinstance(n.targets[0], ast.Name) and n.targets[0].id == name:
            try:
                return num(n.value)
            except ExtractorMismatch:
                continue
    raise ExtractorMismatch(f"local constant {name} not found in {fn.name}")


def src(node):
    return ast.unparse(node)


def find_all(fn, pred):
    return [n for n in ast.walk(fn) if pred(n)]


def one(xs, what):
    if len(xs) != 1:
        raise ExtractorMismatch(f"{what}: expected exactly one match, found {len(xs)}")
    return xs[0]


def lean_rat(q: Fraction) -> str:
    q = Fraction(q)
    if q.denominator == 1:
        return f"({q.numerator} : Rat)"
    return f"(({q.numerator} : Rat) / {q.denominator})"


def lean_str(s: str) -> str:
    return '"' + s.replace("\\", "\\\\").replace('"', '\\"') + '"'


def _sec_lpinterface_common(out):
    """lpinterface / common"""
    lp = parse("aldy/lpinterface.py")
    common = parse("aldy/common.py")
    out["SOLVER_PRECISION"] = module_const(lp, "SOLVER_PRECISON")
    out["SOLUTION_PRECISION"] = module_const(common, "SOLUTION_PRECISION")
    # the constant actually used by the stop test of `solutions` and by VerifySolution
    consts = {}
    for t in (lp, common):
        for n in t.body:
            if isinstance(n, ast.Assign) and len(n.targets) == 1 and isinstance(n.targets[0], ast.Name):
                try:
                    consts[n.targets[0].id] = num(n.value)
                except ExtractorMismatch:
                    pass
    sol = func(lp, "Gurobi", "solutions")
    tests = find_all(sol, lambda n: isinstance(n, ast.Compare) and src(n.left) == "abs(obj - ub)" and isinstance(n.ops[0], ast.GtE))
    t = one(tests, "solutions: abs(obj - ub) >= EPS")
    c = t.comparators[0]
    if isinstance(c, ast.Name) and c.id in consts:
        out["STOP_EPS"] = consts[c.id]
    else:
        out["STOP_EPS"] = num(c)
    ubs = find_all(sol, lambda n: isinstance(n, ast.Assign) and src(n.targets[0]) == "ub")
    if src(one(ubs, "solutions: ub = (1 + gap) * best_obj").value) != "(1 + gap) * best_obj":
        raise ExtractorMismatch("solutions: ub = (1 + gap) * best_obj")
    cs = func(lp, "CBC", "solve")
    ver = one(find_all(cs, lambda n: isinstance(n, ast.Call) and isinstance(n.func, ast.Attribute) and n.func.attr == "VerifySolution"), "CBC.solve: VerifySolution")
    a0 = ver.args[0]
    out["VERIFY_TOL"] = consts[a0.id] if isinstance(a0, ast.Name) and a0.id in consts else num(a0)
    # escape_name: the chain of replace() calls and the [:200] cut
    esc = func(lp, "escape_name")
    reps = []
    for n in ast.walk(esc):
        if isinstance(n, ast.Call) and isinstance(n.func, ast.Attribute) and n.func.attr == "replace":
            reps.append((n.args[0].value, n.args[1].value))
    # ast.walk is outermost-first; the innermost replace is applied first
    reps = reps[::-1]
    if not reps:
        raise ExtractorMismatch("escape_name: no replace chain")
    out["ESCAPE_REPLACEMENTS"] = reps
    cut = one(find_all(esc, lambda n: isinstance(n, ast.Subscript) and isinstance(n.slice, ast.Slice)), "escape_name cut")
    out["ESCAPE_MAXLEN"] = int(num(cut.slice.upper))


def _sec_profile_defaults(out):
    """profile defaults"""
    prof = parse("aldy/profile.py")
    init = func(prof, "Profile", "__init__")
    params = []
    for st in init.body:
        if isinstance(st, ast.Assign) and len(st.targets) == 1:
            t = st.targets[0]
            if isinstance(t, ast.Attribute) and isinstance(t.value, ast.Name) and t.value.id == "self":
                v = st.value
                if isinstance(v, ast.Constant):
                    if v.value is None:
                        params.append((t.attr, "none", None))
                    elif isinstance(v.value, bool):
                        params.append((t.attr, "bool", v.value))
                    elif isinstance(v.value, int):
                        params.append((t.attr, "int", v.value))
                    elif isinstance(v.value, float):
                        params.append((t.attr, "float", Fraction(repr(v.value))))
                    elif isinstance(v.value, str):
                        params.append((t.attr, "str", v.value))
                    else:
                        raise ExtractorMismatch(f"Profile.{t.attr}: unsupported literal")
                elif isinstance(v, ast.Name):  # name / cn_region / data: constructor args
                    params.append((t.attr, "arg", v.id))
                else:
                    raise ExtractorMismatch(f"Profile.{t.attr}: not a literal")
    if not any(p[0] == "gap" for p in params):
        raise ExtractorMismatch("Profile.__init__: parameter table not found")
    out["PROFILE_PARAMS"] = params
    # false spellings of Profile.update
    upd = func(prof, "Profile", "update")
    lists = find_all(upd, lambda n: isinstance(n, ast.Compare) and len(n.ops) == 1 and isinstance(n.ops[0], ast.In)
                     and isinstance(n.comparators[0], (ast.List, ast.Tuple, ast.Set)))
    if len(lists) == 1:
        out["BOOL_FALSE_SPELLINGS"] = [e.value for e in lists[0].comparators[0].elts]
    else:
        out["BOOL_FALSE_SPELLINGS"] = None  # different parsing scheme (e.g. after a fix)


def _sec_genotype_py(out):
    """genotype.py"""
    gt = parse("aldy/genotype.py")
    g = func(gt, "genotype")
    out["SLACK"] = local_const(g, "SLACK")
    keys = find_all(g, lambda n: isinstance(n, ast.Call) and isinstance(n.func, ast.Name) and n.func.id == "int"
                    and isinstance(n.args[0], ast.BinOp) and isinstance(n.args[0].op, ast.Mult))
    ks = {num(k.args[0].left) for k in keys}
    if len(ks) != 1 or len(keys) != 3:
        raise ExtractorMismatch("genotype: sort-key scale int(K * score) not found three times with one K")
    out["SORT_SCALE"] = ks.pop()
    warn = find_all(g, lambda n: isinstance(n, ast.Compare) and isinstance(n.left, ast.Name) and n.left.id == "avg_cov"
                    and isinstance(n.ops[0], ast.Lt) and isinstance(n.comparators[0], ast.Constant))
    out["AVG_COV_WARN"] = num(one(warn, "avg_cov < 20").comparators[0])
    # the average-depth guard: `if [profile.cn_region and] avg_cov < profile.min_avg_coverage: ... raise`
    guards = [n for n in ast.walk(g) if isinstance(n, ast.If) and "avg_cov < profile.min_avg_coverage" in src(n.test)
              and any(isinstance(x, ast.Raise) for x in ast.walk(n))]
    gd = one(guards, "genotype: average-depth guard")
    t = gd.test
    if isinstance(t, ast.Compare) and src(t) == "avg_cov < profile.min_avg_coverage":
        out["GUARD_REQUIRES_CN_REGION"] = False
    elif isinstance(t, ast.BoolOp) and isinstance(t.op, ast.And) and sorted(src(v) for v in t.values) == ["avg_cov < profile.min_avg_coverage", "profile.cn_region"]:
        out["GUARD_REQUIRES_CN_REGION"] = True
    else:
        raise ExtractorMismatch("genotype: average-depth guard has an unknown condition " + src(t))
    outer = [n for n in ast.walk(g) if isinstance(n, ast.If) and gd in n.body]
    if len(outer) != 1 or src(outer[0].test) != "kind not in ['vcf', 'pscan']":
        raise ExtractorMismatch("genotype: average-depth guard is not under `kind not in ['vcf', 'pscan']`")
    exome = find_all(g, lambda n: isinstance(n, ast.Assign) and isinstance(n.targets[0], ast.Subscript)
                     and src(n.targets[0]) == "params['min_coverage']")
    out["EXOME_MIN_COVERAGE"] = num(one(exome, "exome min_coverage").value)


def _sec_cn_py(out):
    """cn.py"""
    cn = parse("aldy/cn.py")
    solve = func(cn, "solve_cn_model")
    pp = [n for n in ast.walk(solve) if isinstance(n, (ast.Assign, ast.AugAssign))
          and src(n.target if isinstance(n, ast.AugAssign) else n.targets[0]) == "PARSIMONY_PENALTY"]
    if len(pp) != 2 or not isinstance(pp[0], ast.Assign) or not isinstance(pp[1], ast.AugAssign):
        raise ExtractorMismatch("cn: PARSIMONY_PENALTY shape")
    if not (isinstance(pp[0].value, ast.BinOp) and isinstance(pp[0].value.op, ast.Div) and src(pp[0].value.right) == "len(gene.unique_regions)"):
        raise ExtractorMismatch("cn: PARSIMONY_PENALTY = K / len(unique_regions)")
    out["CN_PARSIMONY_BASE"] = num(pp[0].value.left) * num(pp[1].value)
    scale = one(find_all(solve, lambda n: isinstance(n, ast.Assign) and src(n.targets[0]) == "scale"), "cn scale")
    if not (isinstance(scale.value, ast.BinOp) and isinstance(scale.value.op, ast.Add) and src(scale.value.left) == "max(exp_cov0, exp_cov1)"):
        raise ExtractorMismatch("cn: scale = max(exp_cov0, exp_cov1) + K")
    out["CN_SCALE_ADD"] = num(scale.value.right)
    weak = find_all(solve, lambda n: isinstance(n, ast.Compare) and src(n.left) == "fusion_support[name]")
    w = one(weak, "cn weak fusion threshold")
    # 1 / (2 * max_cn)
    c = w.comparators[0]
    if not (isinstance(w.ops[0], ast.GtE) and isinstance(c, ast.BinOp) and isinstance(c.op, ast.Div) and src(c.right) == "2 * max_cn"):
        raise ExtractorMismatch("cn: fusion_support[name] >= 1 / (2 * max_cn)")
    out["CN_WEAK_FUSION_NUM"] = num(c.left)
    est = func(cn, "estimate_cn")
    low = one(find_all(est, lambda n: isinstance(n, ast.Compare) and src(n.left) == "total_cov"), "cn low coverage guard")
    c = low.comparators[0]
    if not (isinstance(low.ops[0], ast.Lt) and isinstance(c, ast.BinOp) and isinstance(c.op, ast.Div) and src(c.left) == "min_cov"):
        raise ExtractorMismatch("cn: total_cov < min_cov / K")
    out["CN_LOW_COV_DIV"] = num(c.right)
    pce = one(find_all(solve, lambda n: isinstance(n, ast.Dict) and len(n.keys) == 1 and isinstance(n.keys[0], ast.Constant)
                       and isinstance(n.keys[0].value, str) and n.keys[0].value.startswith("E_")), "cn pce coefficient key")
    out["CN_PCE_VAR"] = pce.keys[0].value


def _sec_major_py(out):
    """major.py"""
    mj = parse("aldy/major.py")
    sm = func(mj, "solve_major_model")
    aug = find_all(sm, lambda n: isinstance(n, ast.AugAssign) and src(n.target) == "objective" and isinstance(n.value, ast.BinOp)
                   and isinstance(n.value.op, ast.Mult) and isinstance(n.value.left, ast.Constant))
    out["MAJOR_NOVEL_EACH"] = num(one(aug, "major: objective += K * quicksum(VNEW)").value.left)
    fa = func(mj, "_filter_alleles", "filter_fns")
    half = find_all(fa, lambda n: isinstance(n, ast.BinOp) and isinstance(n.op, ast.Add) and "position_cn" in src(n.left))
    out["MAJOR_FILTER_CN_ADD"] = num(one(half, "major: position_cn + K").right)


def _sec_minor_py(out):
    """minor.py"""
    mi = parse("aldy/minor.py")
    smi = func(mi, "solve_minor_model")
    tb = find_all(smi, lambda n: isinstance(n, ast.BinOp) and isinstance(n.op, ast.Div) and src(n.left) == "cnt" and isinstance(n.right, ast.Constant))
    out["MINOR_TIEBREAK_DIV"] = num(one(tb, "minor: cnt / K").right)
    vo = find_all(smi, lambda n: isinstance(n, ast.BinOp) and isinstance(n.op, ast.Div) and src(n.left) == "coverage.profile.minor_add")
    out["MINOR_NOVEL_DIV"] = num(one(vo, "minor: minor_add / K").right)
    hz = find_all(smi, lambda n: isinstance(n, ast.Compare) and "max_cn()" in src(n.left) and isinstance(n.ops[0], ast.Gt))
    out["MINOR_HOMOZYGOUS_TOL"] = num(one(hz, "minor: abs(copies - max_cn) > K").comparators[0])
    # does the evidence filter of estimate_minor read the loop variable `major_sol` (structure of the last candidate)?
    emf = func(mi, "estimate_minor")
    dff = func(mi, "estimate_minor", "default_filter_fn")
    out["MINOR_FILTER_PER_STRUCTURE"] = not any(isinstance(n, ast.Name) and n.id == "major_sol" for n in ast.walk(dff))
    # operations the region test of the evidence filter lets through unconditionally (depth markers):
    # `mut.op != "_"` -> ["_"], `mut.op not in ("_", "-")` -> ["_", "-"]
    rt = [n for n in ast.walk(dff) if isinstance(n, ast.If) and "region_at" not in src(n.test) and "mutations" in src(n.test)]
    test = one(rt, "minor: region test of default_filter_fn").test
    cmpn = [n for n in ast.walk(test) if isinstance(n, ast.Compare) and src(n.left) == "mut.op"]
    c0 = one(cmpn, "minor: mut.op comparison in the region test")
    if isinstance(c0.ops[0], ast.NotEq) and isinstance(c0.comparators[0], ast.Constant):
        out["MINOR_FILTER_DEPTH_OPS"] = [c0.comparators[0].value]
    elif isinstance(c0.ops[0], ast.NotIn) and isinstance(c0.comparators[0], (ast.Tuple, ast.List, ast.Set)):
        out["MINOR_FILTER_DEPTH_OPS"] = [e.value for e in c0.comparators[0].elts]
    else:
        raise ExtractorMismatch("minor: region test of default_filter_fn has an unexpected shape")
    # is the considered-variant collection put into a canonical order before the model is built?
    srt = [n for n in ast.walk(smi) if isinstance(n, ast.Assign) and src(n.targets[0]) == "mutations" and src(n.value).startswith("sorted(")]
    out["MINOR_MUTATIONS_SORTED"] = len(srt) >= 1
    # are the pooled candidate alleles of estimate_minor put into a canonical order (independent of the order of the
    # major solutions they were pooled from) before they reach the model?
    csrt = [n for n in ast.walk(emf) if isinstance(n, ast.Assign) and src(n.targets[0]) == "alleles"
            and (src(n.value).startswith("natsorted(set(") or src(n.value).startswith("sorted(set("))]
    out["MINOR_CANDIDATES_SORTED"] = len(csrt) >= 1
    # SolvedAllele.mutations(): copy of the catalogue's core set, or alias?
    sol = parse("aldy/solutions.py")
    acc = func(sol, "SolvedAllele", "mutations")
    first = [n for n in acc.body if isinstance(n, ast.Assign)][0]
    v = first.value
    if isinstance(v, ast.Call) and src(v.func) in ("set", "copy.copy", "copy", "frozenset"):
        out["MUTATIONS_ACCESSOR_COPIES"] = True
    elif isinstance(v, ast.Call) and isinstance(v.func, ast.Attribute) and v.func.attr == "copy":
        out["MUTATIONS_ACCESSOR_COPIES"] = True
    elif isinstance(v, ast.Attribute):
        out["MUTATIONS_ACCESSOR_COPIES"] = False
    else:
        raise ExtractorMismatch("SolvedAllele.mutations: first assignment has an unknown shape " + src(v))
    em = dff
    half = find_all(em, lambda n: isinstance(n, ast.BinOp) and isinstance(n.op, ast.Add) and "position_cn" in src(n.left))
    out["MINOR_FILTER_CN_ADD"] = num(one(half, "minor: position_cn + K").right)


def _sec_name_order(out):
    """solutions.py: get_major_name"""
    # solutions.py: are the added variants of a name ordered by RefSeq position (a `key=` for the sort)?
    so = parse("aldy/solutions.py")
    gmn = func(so, "MinorSolution", "get_major_name")
    srt2 = [n for n in ast.walk(gmn) if isinstance(n, ast.Call) and src(n.func) == "sorted" and "added" in src(n.args[0])]
    out["NAME_ORDER_BY_REFSEQ"] = any(any(kw.arg == "key" for kw in n.keywords) for n in srt2)


def _sec_loader(out):
    """gene.py: process_mutation"""
    # gene.py: does the loader refuse variants whose replaced bases are not contiguous on the genome?
    ge = parse("aldy/gene.py")
    pm = func(ge, "Gene", "_init_alleles", "process_mutation")
    out["LOADER_CHECKS_CONTIGUITY"] = any(isinstance(n, ast.Call) and src(n.func).endswith("_is_contiguous") for n in ast.walk(pm))


def _sec_parse_read(out):
    """sam.py: _parse_read"""
    sam = parse("aldy/sam.py")
    bq = func(sam, "Sample", "_parse_read", "bin_quality")
    table = []
    for st in bq.body:
        if isinstance(st, ast.If):
            t = st.test
            if not (isinstance(t, ast.Compare) and isinstance(t.ops[0], ast.Lt) and src(t.left) == "q"):
                raise ExtractorMismatch("bin_quality: if q < K")
            r = st.body[0]
            if not isinstance(r, ast.Return):
                raise ExtractorMismatch("bin_quality: return")
            if isinstance(r.value, ast.Constant):
                table.append((num(t.comparators[0]), num(r.value)))
            elif src(r.value) == "int(q)":
                table.append((num(t.comparators[0]), None))
            else:
                raise ExtractorMismatch("bin_quality: return value")
        elif isinstance(st, ast.Return):
            out["BIN_QUALITY_TOP"] = num(st.value)
    if not table or "BIN_QUALITY_TOP" not in out:
        raise ExtractorMismatch("bin_quality table")
    out["BIN_QUALITY_TABLE"] = table
    pr = func(sam, "Sample", "_parse_read")
    out["PARSE_PREV_Q"] = local_const(pr, "prev_q")
    opsets = find_all(pr, lambda n: isinstance(n, ast.Compare) and src(n.left) == "op" and isinstance(n.ops[0], ast.In))
    out["PARSE_MATCH_OPS"] = [int(num(e)) for e in one(opsets, "_parse_read op in [...]").comparators[0].elts]
    eqs = {int(num(n.comparators[0])): n for n in find_all(pr, lambda n: isinstance(n, ast.Compare) and src(n.left) == "op" and isinstance(n.ops[0], ast.Eq))}
    if sorted(eqs) != [1, 2, 4]:
        raise ExtractorMismatch("_parse_read: op == 2 / 1 / 4 branches")


def _sec_depth_walkers(out):
    """sam.py / profile.py: depth walkers"""
    sam = parse("aldy/sam.py")
    cnr = func(sam, "Sample", "_load_cn_region")
    opsets = find_all(cnr, lambda n: isinstance(n, ast.Compare) and src(n.left) == "op" and isinstance(n.ops[0], ast.In))
    out["CNREGION_DEPTH_OPS"] = [int(num(e)) for e in one(opsets, "_load_cn_region op in [...]").comparators[0].elts]
    gp = func(parse("aldy/profile.py"), "Profile", "get_sam_profile_data")
    opsets = find_all(gp, lambda n: isinstance(n, ast.Compare) and src(n.left) == "op" and isinstance(n.ops[0], ast.In))
    out["PROFILE_MATCH_OPS"] = [int(num(e)) for e in one(opsets, "profile op in [...]").comparators[0].elts]


def _sec_load_vcf(out):
    """sam.py: _load_vcf"""
    sam = parse("aldy/sam.py")
    lv = func(sam, "Sample", "_load_vcf")
    mults = find_all(lv, lambda n: isinstance(n, ast.BinOp) and isinstance(n.op, ast.Mult) and isinstance(n.left, ast.List)
                     and src(n.left) == "[(40, 40)]")
    vals = sorted({int(num(m.right)) for m in mults})
    if len(vals) != 2:
        raise ExtractorMismatch("_load_vcf: [(40, 40)] * 20 and * 10")
    out["VCF_ALT_READS"], out["VCF_REF_READS"] = vals
    out["VCF_QUAL"] = 40
    cuts = find_all(lv, lambda n: isinstance(n, ast.Subscript) and isinstance(n.slice, ast.Slice) and n.slice.upper is not None
                    and isinstance(n.slice.upper, ast.UnaryOp))
    cv = {int(-num(c.slice.upper)) for c in cuts}
    if cv != {out["VCF_ALT_READS"]}:
        raise ExtractorMismatch("_load_vcf: [:-10] removals do not equal the per-copy support")
    # `for gt in g: pos, op = hgvs[gt]; if <skip>: continue` - are alleles of ignored shape (op None) skipped?
    skips = [n for n in ast.walk(lv) if isinstance(n, ast.If) and len(n.body) >= 1 and isinstance(n.body[0], ast.Continue) and "op" in src(n.test)
             and ("'_'" in src(n.test) or '"_"' in src(n.test))]
    sk = one(skips, "_load_vcf: skip test for reference alleles")
    out["VCF_SKIPS_NONE"] = "op is None" in src(sk.test) or "op == None" in src(sk.test) or "not op" in src(sk.test)


def _sec_sample_init(out):
    """sam.py: Sample.__init__"""
    sam = parse("aldy/sam.py")
    si = func(sam, "Sample", "__init__")
    dg = find_all(si, lambda n: isinstance(n, ast.Compare) and "diploid_avg_coverage" in src(n.left) and isinstance(n.ops[0], ast.Lt))
    out["DIPLOID_MIN_COV"] = num(one(dg, "Sample: diploid_avg_coverage() < K").comparators[0])


def _sec_coverage_py(out):
    """coverage.py"""
    cov = parse("aldy/coverage.py")
    ac = func(cov, "Coverage", "average_coverage")
    add = find_all(ac, lambda n: isinstance(n, ast.BinOp) and isinstance(n.op, ast.Add) and "len(self._coverage)" in src(n.left))
    out["AVG_COV_DENOM_ADD"] = num(one(add, "average_coverage: len + K").right)
    nc = func(cov, "Coverage", "_normalize_coverage")
    div = find_all(nc, lambda n: isinstance(n, ast.AugAssign) and src(n.target) == "p" and isinstance(n.op, ast.Div))
    out["PROFILE_COPIES"] = num(one(div, "_normalize_coverage: p /= K").value)


SECTIONS = [(_sec_lpinterface_common, "lpinterface / common"), (_sec_profile_defaults, "profile defaults"), (_sec_genotype_py, "genotype.py"), (_sec_cn_py, "cn.py"), (_sec_major_py, "major.py"), (_sec_minor_py, "minor.py"), (_sec_name_order, "solutions.py: get_major_name"), (_sec_loader, "gene.py: process_mutation"), (_sec_parse_read, "sam.py: _parse_read"), (_sec_depth_walkers, "sam.py / profile.py: depth walkers"), (_sec_load_vcf, "sam.py: _load_vcf"), (_sec_sample_init, "sam.py: Sample.__init__"), (_sec_coverage_py, "coverage.py")]


def extract():
    """every section on its own: a section whose source no longer has the expected shape is reported and
    keeps the values of the last good extraction (so that the Lean project still builds); only the checks
    that use one of its constants treat this as a broken obligation"""
    out, failed = {}, {}
    for fn, title in SECTIONS:
        part = {}
        try:
            fn(part)
            out.update(part)
        except ExtractorMismatch as e:
            failed[title] = str(e)
        except SyntaxError as e:
            failed[title] = f"source does not parse: {e}"
    return out, failed


def emit(c) -> str:
    L = []
    A = L.append
    A("/- GENERATED by harness/extract_constants.py from /repo's current source. Do not edit. -/")
    A("")
    A("namespace Aldy.Const")
    A("")
    for k in ["SOLVER_PRECISION", "SOLUTION_PRECISION", "STOP_EPS", "VERIFY_TOL", "SLACK", "SORT_SCALE", "AVG_COV_WARN", "EXOME_MIN_COVERAGE",
              "CN_PARSIMONY_BASE", "CN_SCALE_ADD", "CN_WEAK_FUSION_NUM", "CN_LOW_COV_DIV",
              "MAJOR_NOVEL_EACH", "MAJOR_FILTER_CN_ADD", "MINOR_TIEBREAK_DIV", "MINOR_NOVEL_DIV",
              "MINOR_HOMOZYGOUS_TOL", "MINOR_FILTER_CN_ADD", "PARSE_PREV_Q", "BIN_QUALITY_TOP",
              "DIPLOID_MIN_COV", "AVG_COV_DENOM_ADD", "PROFILE_COPIES"]:
        A(f"def {k} : Rat := {lean_rat(c[k])}")
    A("")
    for k in ["ESCAPE_MAXLEN", "VCF_ALT_READS", "VCF_REF_READS", "VCF_QUAL"]:
        A(f"def {k} : Nat := {c[k]}")
    A(f"def GUARD_REQUIRES_CN_REGION : Bool := {'true' if c['GUARD_REQUIRES_CN_REGION'] else 'false'}")
    A(f"def VCF_SKIPS_NONE : Bool := {'true' if c['VCF_SKIPS_NONE'] else 'false'}")
    A(f"def MINOR_FILTER_PER_STRUCTURE : Bool := {'true' if c['MINOR_FILTER_PER_STRUCTURE'] else 'false'}")
    A(f"def NAME_ORDER_BY_REFSEQ : Bool := {'true' if c['NAME_ORDER_BY_REFSEQ'] else 'false'}")
    A(f"def LOADER_CHECKS_CONTIGUITY : Bool := {'true' if c['LOADER_CHECKS_CONTIGUITY'] else 'false'}")
    A(f"def MINOR_MUTATIONS_SORTED : Bool := {'true' if c['MINOR_MUTATIONS_SORTED'] else 'false'}")
    A(f"def MINOR_CANDIDATES_SORTED : Bool := {'true' if c['MINOR_CANDIDATES_SORTED'] else 'false'}")
    A(f"def MUTATIONS_ACCESSOR_COPIES : Bool := {'true' if c['MUTATIONS_ACCESSOR_COPIES'] else 'false'}")
    A("def MINOR_FILTER_DEPTH_OPS : List String := [" + ", ".join(lean_str(x) for x in c["MINOR_FILTER_DEPTH_OPS"]) + "]")
    A(f"def CN_PCE_VAR : String := {lean_str(c['CN_PCE_VAR'])}")
    A("")
    A("/-- `escape_name`: replacements in application order. -/")
    A("def ESCAPE_REPLACEMENTS : List (String × String) := [" + ", ".join(f"({lean_str(a)}, {lean_str(b)})" for a, b in c["ESCAPE_REPLACEMENTS"]) + "]")
    A("")
    A("/-- `bin_quality`: `(upper bound, value)`; `none` = `int(q)`. -/")
    A("def BIN_QUALITY_TABLE : List (Rat × Option Rat) := [" + ", ".join(
        f"({lean_rat(a)}, {'none' if b is None else 'some ' + lean_rat(b)})" for a, b in c["BIN_QUALITY_TABLE"]) + "]")
    for k in ["PARSE_MATCH_OPS", "CNREGION_DEPTH_OPS", "PROFILE_MATCH_OPS"]:
        A(f"def {k} : List Nat := [" + ", ".join(str(x) for x in c[k]) + "]")
    A("")
    A("inductive PVal | none | bool (b : Bool) | int (n : Int) | float (q : Rat) | str (s : String) | arg (s : String)")
    A("deriving Repr, DecidableEq")
    A("")
    A("/-- `Profile.__init__`: attribute name and default, in source order. -/")
    A("def PROFILE_PARAMS : List (String × PVal) := [")
    rows = []
    for n, t, v in c["PROFILE_PARAMS"]:
        if t == "none":
            rows.append(f"  ({lean_str(n)}, .none)")
        elif t == "bool":
            rows.append(f"  ({lean_str(n)}, .bool {'true' if v else 'false'})")
        elif t == "int":
            rows.append(f"  ({lean_str(n)}, .int {v})" if v >= 0 else f"  ({lean_str(n)}, .int ({v}))")
        elif t == "float":
            rows.append(f"  ({lean_str(n)}, .float {lean_rat(v)})")
        elif t == "str":
            rows.append(f"  ({lean_str(n)}, .str {lean_str(v)})")
        else:
            rows.append(f"  ({lean_str(n)}, .arg {lean_str(v)})")
    A(",\n".join(rows))
    A("]")
    A("")
    fs = c["BOOL_FALSE_SPELLINGS"]
    A("/-- `Profile.update`: the literal list a boolean value is compared against (`none` when")
    A("the code parses booleans differently). -/")
    if fs is None:
        A("def BOOL_FALSE_SPELLINGS : Option (List String) := none")
    else:
        A("def BOOL_FALSE_SPELLINGS : Option (List String) := some [" + ", ".join(lean_str(s) for s in fs) + "]")
    A("")
    A("/-- Default of a numeric profile parameter. -/")
    A("def profileDefault (name : String) : Rat :=")
    A("  match PROFILE_PARAMS.lookup name with")
    A("  | some (.float q) => q")
    A("  | some (.int n) => n")
    A("  | _ => 0")
    A("")
    A("end Aldy.Const")
    return "\n".join(L) + "\n"


LAST_GOOD = os.path.join(os.path.dirname(os.path.abspath(__file__)), "constants_last_good.json")


def _enc(x):
    if isinstance(x, Fraction):
        return {"__frac__": f"{x.numerator}/{x.denominator}"}
    if isinstance(x, (list, tuple)):
        return [_enc(v) for v in x]
    if isinstance(x, dict):
        return {"__dict__": [[_enc(k), _enc(v)] for k, v in x.items()]}
    return x


def _dec(x):
    if isinstance(x, dict) and "__frac__" in x:
        return Fraction(x["__frac__"])
    if isinstance(x, dict) and "__dict__" in x:
        return {(_dec(k) if not isinstance(_dec(k), list) else tuple(_dec(k))): _dec(v) for k, v in x["__dict__"]}
    if isinstance(x, list):
        return [_dec(v) for v in x]
    return x


def main():
    import json
    dst = sys.argv[1] if len(sys.argv) > 1 else os.path.join(os.path.dirname(__file__), "..", "lean", "Aldy", "Generated", "Constants.lean")
    out, failed = extract()
    status = {"failed": {}, "stale_constants": []}
    if failed:
        try:
            with open(LAST_GOOD) as f:
                good = _dec(json.load(f))
        except Exception as e:
            print(f"extractor-mismatch: {failed}; no last good extraction to fall back on ({e})")
            sys.exit(4)
        stale = [k for k in good if k not in out]
        for k in stale:
            out[k] = good[k]
        status = {"failed": failed, "stale_constants": stale}
    text = emit(out)
    old = None
    if os.path.exists(dst):
        with open(dst) as f:
            old = f.read()
    if old != text:
        with open(dst, "w") as f:
            f.write(text)
        print("constants: regenerated (changed)")
    else:
        print("constants: unchanged")
    st = os.path.join(os.path.dirname(dst), "..", "..", ".lake", "extract_status.json")
    os.makedirs(os.path.dirname(st), exist_ok=True)
    with open(st, "w") as f:
        json.dump(status, f)
    if failed:
        for sec, msg in failed.items():
            print(f"extractor-mismatch [{sec}]: {msg}")
        sys.exit(3)
    if os.environ.get("VERIF_UPDATE_LAST_GOOD") == "1":
        with open(LAST_GOOD, "w") as f:
            json.dump(_enc(out), f, indent=0, sort_keys=True)


if __name__ == "__main__":
    main()
