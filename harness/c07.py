"""C07 - copy-number signal is depth-normalised: a two-copy reference reads as 2.0.

Ties:
  normalize   : `Coverage.region_coverage` of the real `Sample` (profile loaded from a BAM through
                `Profile.load` / `get_sam_profile_data`, neutral depth through `_load_cn_region`)
                == Lean `regionCoverage` over the three modelled depth walkers, on simulated read
                sets with mixed flags (secondary, duplicate, supplementary, hard-clipped), custom
                neutral regions, either strand, with/without pseudogene
  profile_yml : the same through a profile YAML written from `get_sam_profile_data` and loaded again
Oracle (always on; the search): metamorphic clauses on the real code - k-fold duplication
invariance (k in 2..5), gene-only linearity, self-profile = 2.0 in every covered region (read
sets every walker accepts), empty neutral region rejected.
"""
import collections
import os
import shutil
from fractions import Fraction

import c06
import gen_gene
import instances
import lib
import sim

PID = "C07"
PROPS = ["Aldy.Props.C07"]
TRUSTED_EXTRA = ["pysam/htslib", "the read simulator", "PyYAML"]
ASSUMPTIONS = ["exact 2.0 / invariance are claimed for read sets all three depth walkers accept (no supplementary, hard-clipped or sequence-less reads); mixed sets are compared model vs implementation"]


def gene_reads(r, gene, clean, n):
    reads = []
    i = 0
    while len(reads) < n:
        rd = c06.gen_read(r, gene, i, force_eligible=clean)
        i += 1
        if clean and any(op == 5 for op, _ in rd["cigar"]):
            continue
        if rd["qual"] is None:
            rd["qual"] = [30] * len(rd["seq"])
        reads.append(rd)
    return reads


def neutral_reads_random(r, cnr, n, clean):
    reads = []
    for i in range(n):
        start = r.randint(cnr.start - 30, cnr.end + 5)
        cig = [(0, r.randint(5, 40))]
        if r.random() < 0.3:
            cig += [(2, r.randint(1, 5)), (0, r.randint(3, 20))]
        if r.random() < 0.2:
            cig = [(4, 3)] + cig
        if r.random() < 0.2:
            cig += [(1, 2), (0, 4)]
        qlen = sum(nn for op, nn in cig if op in (0, 1, 4))
        flag = 0
        if not clean:
            x = r.random()
            flag = 2048 if x < 0.1 else 256 if x < 0.2 else 0
        reads.append({"name": f"n{i}", "pos": start, "cigar": cig, "seq": "A" * qlen, "qual": [30] * qlen, "mapq": 60, "flag": flag})
    return reads


def to_dread(rd):
    return {"pos": rd["pos"], "cigar": [list(c) for c in rd["cigar"]], "supplementary": bool(rd["flag"] & 2048),
            "hard_clipped": any(op == 5 for op, _ in rd["cigar"]), "has_seq": bool(rd["seq"])}


def write(path, reads, gene):
    c06.write_bam(path, [dict(r_) for r_ in reads], length=sim.chrom_length_for(gene) + 70000)


def region_values(smp, gene):
    return {(gi, reg): smp.coverage.region_coverage(gi, reg) for gi, g in enumerate(gene.regions) for reg in g}


class AldyCrash(Exception):
    pass


class ThirdParty(Exception):
    pass


def tie(ctx):
    from aldy.common import GRange, AldyException
    from aldy.profile import Profile
    from aldy.sam import Sample
    import yaml
    r = lib.rng("c07")
    quick = ctx["tier"] == "quick"
    fam = {k: {"cases": 0, "disagreements": []} for k in ("normalize", "profile_yml")}
    violations = []
    stats = collections.Counter()
    reqs, metas = [], []
    d = sim.scratch_dir()
    samples = []
    distinct = set()
    try:
        for k in range(16 if quick else 150):
            n_req, n_meta, n_viol = len(reqs), len(metas), len(violations)
            try:
                # every fourth locus is a few kilobases long (longer than the padding of the profile builder's scan windows)
                y = gen_gene.gen_gene(r, offsets=(10000, 20000), pseudogene=r.random() < 0.6, allow_mnp=False, scale=12 if k % 4 == 0 else 1)
                genome = r.choice(["hg19", "hg38"])
                gene = gen_gene.load(y, genome)
                a = r.randint(50000, 60000)
                ln = r.randint(100, 500)
                if r.random() < 0.5:
                    # a neutral region next to the locus (gap of a few hundred bases, either side): the profile builder
                    # scans both with padded windows, reads must not be counted twice
                    lo = min(rg.start for g_ in gene.regions for rg in g_.values())
                    hi = max(rg.end for g_ in gene.regions for rg in g_.values())
                    gap_ = r.randint(300, 900)
                    a = hi + gap_ if r.random() < 0.5 else lo - gap_ - ln
                cnr = GRange("20", a, a + ln)
                clean = k % 2 == 0
                g_reads = gene_reads(r, gene, clean, 120)
                n_reads = neutral_reads_random(r, cnr, 60, clean)
                base = g_reads + n_reads
                pbam = os.path.join(d, f"p{k}.bam")
                write(pbam, base, gene)
                regions = [{"gi": gi, "name": reg, "a": rng.start, "b": rng.end} for gi, g in enumerate(gene.regions) for reg, rng in g.items()]
                inp = {"gene_yaml": y, "genome": genome, "cn_region": [cnr.start, cnr.end], "clean": clean}

                def run(sample_reads, tag, profile_path=pbam, use_cnr=True, params=None):
                    # every variant of a case is a file called `sample.bam` in a directory of its own: the same sample
                    # name (and the same neutral region) must not make one file stand in for another
                    os.makedirs(os.path.join(d, f"s{k}_{tag}"), exist_ok=True)
                    sb = os.path.join(d, f"s{k}_{tag}", "sample.bam")
                    write(sb, sample_reads, gene)
                    try:
                        prof = Profile.load(gene, profile_path, cnr if use_cnr else None, **(params or {}))
                        smp = Sample(gene, prof, sb)
                        return region_values(smp, gene), None
                    except AldyException as e:
                        return None, str(e)
                    except Exception as e:
                        import traceback
                        if "indelpost" in "".join(traceback.format_tb(e.__traceback__)):
                            # the third-party realigner gives up on this random read set (e.g. ZeroDivisionError in its contig QC)
                            raise ThirdParty(f"{type(e).__name__} inside indelpost")
                        raise AldyCrash(f"{type(e).__name__}: {e} (in {traceback.extract_tb(e.__traceback__)[-1].name})")

                # (1) self profile
                vals, err = run(base, "self")
                metas.append(("self", inp, vals, err, regions))
                reqs.append({"op": "normalize", "reads": [to_dread(x) for x in base], "profile_reads": [to_dread(x) for x in base],
                             "regions": regions, "cn_region": [cnr.start, cnr.end]})
                if clean and vals is not None:
                    bad = {kk: v for kk, v in vals.items() if abs(v - 2.0) > 1e-9 and v != 0.0}
                    if bad:
                        violations.append({"why": f"sample normalised against its own profile reads {list(bad.items())[:3]} instead of 2.0", "input": inp, "signature": "c07:self_not_two"})
                # (1b) ONE profile object serving two samples in a row (a cohort loop over the API): normalising a sample
                # must not wear the profile out
                if k % 2 == 0:
                    try:
                        prof_shared = Profile.load(gene, pbam, cnr)
                        sb_ = os.path.join(d, f"s{k}_self", "sample.bam")
                        first = region_values(Sample(gene, prof_shared, sb_), gene)
                        second = region_values(Sample(gene, prof_shared, sb_), gene)
                        stats["shared_profile_pairs"] += 1
                        bad = [q for q in first if abs(first[q] - second[q]) > 1e-9]
                        if bad:
                            violations.append({"why": f"the same sample normalised twice against ONE profile object reads {first[bad[0]]} and then {second[bad[0]]} in region {bad[0]}", "input": inp, "signature": "c07:profile_changed_by_use"})
                    except AldyException:
                        pass
                # (2) k-fold duplication
                kk = r.randint(2, 5)
                vals_k, err_k = run(base * kk, "k")
                metas.append(("kfold", inp, vals_k, err_k, regions))
                reqs.append({"op": "normalize", "reads": [to_dread(x) for x in base * kk], "profile_reads": [to_dread(x) for x in base],
                             "regions": regions, "cn_region": [cnr.start, cnr.end]})
                if vals is not None and vals_k is not None:
                    bad = [kk2 for kk2 in vals if abs(vals[kk2] - vals_k[kk2]) > 1e-9]
                    if bad:
                        violations.append({"why": f"{kk}-fold duplicated sample reads {vals_k[bad[0]]} in region {bad[0]}, the original reads {vals[bad[0]]}", "input": inp, "signature": "c07:not_scale_invariant"})
                # (3) gene reads only multiplied
                vals_g, err_g = run(g_reads * kk + n_reads, "g")
                metas.append(("gene_only", inp, vals_g, err_g, regions))
                reqs.append({"op": "normalize", "reads": [to_dread(x) for x in g_reads * kk + n_reads], "profile_reads": [to_dread(x) for x in base],
                             "regions": regions, "cn_region": [cnr.start, cnr.end]})
                if vals is not None and vals_g is not None:
                    # gene reads may reach into the neutral window only by construction error; regions far apart here
                    bad = [kk2 for kk2 in vals if abs(vals[kk2] * kk - vals_g[kk2]) > 1e-9]
                    if bad:
                        violations.append({"why": f"gene reads x{kk}: region {bad[0]} reads {vals_g[bad[0]]}, expected {vals[bad[0]] * kk}", "input": inp, "signature": "c07:not_linear"})
                # (3b) far more gene copies than the structure model will ever explain (x12 against the default cn_max of 20), or a
                # small cn_max given by the user: the normalised depth is a measurement and stays linear in the gene reads
                if k % 2 == 1:
                    big, prm = (12, None) if k % 4 == 1 else (kk, {"cn_max": r.choice([2, 3])})
                    vals_b, err_b = run(g_reads * big + n_reads, "b", params=prm)
                    metas.append(("gene_only_large", inp, vals_b, err_b, regions))
                    reqs.append({"op": "normalize", "reads": [to_dread(x) for x in g_reads * big + n_reads], "profile_reads": [to_dread(x) for x in base],
                                 "regions": regions, "cn_region": [cnr.start, cnr.end]})
                    if vals is not None and vals_b is not None:
                        bad = [kk2 for kk2 in vals if abs(vals[kk2] * big - vals_b[kk2]) > 1e-7]
                        if bad:
                            violations.append({"why": f"gene reads x{big}{' with ' + str(prm) if prm else ''}: region {bad[0]} reads {vals_b[bad[0]]}, expected {vals[bad[0]] * big}", "input": inp, "signature": "c07:not_linear"})
                # (4) empty neutral region
                vals_e, err_e = run(g_reads, "e")
                metas.append(("empty_neutral", inp, vals_e, err_e, regions))
                reqs.append({"op": "normalize", "reads": [to_dread(x) for x in g_reads], "profile_reads": [to_dread(x) for x in base],
                             "regions": regions, "cn_region": [cnr.start, cnr.end]})
                if vals_e is not None or "has no reads" not in (err_e or ""):
                    violations.append({"why": f"sample without reads in the neutral region is not rejected ({err_e})", "input": inp, "signature": "c07:empty_neutral_accepted"})
                # (5) profile written to YAML and loaded again
                regs = {(gene.name, reg, gi): rng for gi, g in enumerate(gene.regions) for reg, rng in g.items()}
                data = Profile.get_sam_profile_data(pbam, regions=regs, genome=genome, cn_region=cnr)
                # one path for every sample of the run, as when a profile is regenerated in place: the file must be re-read
                ypath = os.path.join(d, "profile.yml")
                with open(ypath, "w") as f:
                    f.write(yaml.dump(data, default_flow_style=None))
                fam["profile_yml"]["cases"] += 1
                vals_y, err_y = run(base * kk, "y", profile_path=ypath, use_cnr=False)
                if (vals_y is None) != (vals_k is None) or (vals_y is not None and any(abs(vals_y[q] - vals_k[q]) > 1e-9 for q in vals_y)):
                    fam["profile_yml"]["disagreements"].append({"why": f"profile loaded from the written YAML gives {vals_y and list(vals_y.items())[:2]} (err {err_y}), from the BAM {vals_k and list(vals_k.items())[:2]}", "input": inp})
                    violations.append({"why": f"a sample normalised against the profile file just written for it (same path as the previous sample's profile) reads {vals_y and list(vals_y.items())[:2]} (err {err_y}), against the same profile taken from the BAM {vals_k and list(vals_k.items())[:2]}",
                                       "input": inp, "signature": "c07:profile_file_not_reread"})
                stats["read_sets"] += 1
                stats["reads"] += len(base)
                distinct.add(lib.canon_hash([y, cnr.start, cnr.end]))
                if len(samples) < 2 and vals is not None:
                    samples.append({"clean": clean, "cn_region": [cnr.start, cnr.end], "self_profile_values": {f"{a_}:{b_}": v for (a_, b_), v in list(vals.items())[:6]}, "k": kk})
            except AldyCrash as e:
                # normalising a sample / loading a profile must end in a result or an AldyException, never in a crash
                del reqs[n_req:], metas[n_meta:], violations[n_viol:]
                violations.append({"why": f"loading / normalising the sample raised {e}", "input": {"gene_yaml": y, "genome": genome, "cn_region": [cnr.start, cnr.end]}, "signature": "c07:crash"})
                continue
            except ThirdParty as e:
                del reqs[n_req:], metas[n_meta:], violations[n_viol:]
                stats["read_sets_skipped_third_party_crash"] += 1
                continue
    finally:
        shutil.rmtree(d, ignore_errors=True)
    outs = lib.driver_batch(reqs)
    for (tag, inp, vals, err, regions), o in zip(metas, outs):
        fam["normalize"]["cases"] += 1
        stats["case_" + tag] += 1
        mvals = {(e["gi"], e["name"]): e["value"] for e in o["regions"]}
        if vals is None:
            exp = "empty_neutral" if "has no reads" in (err or "") else "invalid_profile" if "Invalid CN-neutral" in (err or "") else "low:" + (err or "")[:40]
            if exp.startswith("low:"):
                stats["low_neutral_depth"] += 1
                continue
            if not all(v == exp for v in mvals.values()):
                fam["normalize"]["disagreements"].append({"why": f"[{tag}] implementation raised {exp}, model gives {list(mvals.items())[:2]}", "input": inp})
            continue
        bad = []
        for key, v in vals.items():
            mv = mvals.get(key)
            if isinstance(mv, str) and mv in ("empty_neutral", "invalid_profile"):
                bad.append((key, v, mv))
            elif abs(float(Fraction(mv)) - v) > 1e-9 * max(1.0, abs(v)):
                bad.append((key, v, float(Fraction(mv))))
        if bad:
            fam["normalize"]["disagreements"].append({"why": f"[{tag}] region_coverage{bad[0][0]} = {bad[0][1]} but the model gives {bad[0][2]}", "input": inp})
    return {"families": fam, "violations": violations, "evaluations": len(metas), "distinct_nontrivial": len(distinct),
            "rule": "generated genes (either strand, with/without pseudogene) x random read sets (120 locus reads with indels/clips + 60 neutral-region reads with deletions/insertions/clips; every other set with secondary/duplicate/supplementary/hard-clipped reads) x custom neutral regions (half of them a few hundred bases beside the locus; every fourth locus several kilobases long); four metamorphic variants each (self, k-fold k in 2..5, gene-only k-fold, empty neutral) + profile YAML round trip; distinct by hash",
            "samples": samples, "stats": dict(stats)}


def search(ctx, hints):
    res = tie({**ctx, "tier": "quick"})
    return {"violations": res["violations"], "cases_searched": res["evaluations"]}
