"""C11 - the diplotype is a faithful arrangement of the called alleles.

Ties:
  arrangement : real `estimate_diplotype` (index lists) and `get_major_diplotype()` (text) ==
                Lean `estimateDiplotype` / `renderDiplotype` on multisets of 0-6 copies in every
                (or many) production order(s), with novel added variants on some copies
  names       : `get_major_name(i)` == Lean `majorName`
  natsort_key : natsort's key of every rendered name == Lean `natKey`
Oracle (always on; the search): every copy exactly once, both haplotypes non-empty for n >= 2,
deletion placeholders exactly for missing haplotypes, names are the called majors (+ novel core
variants), tandems adjacent for n > 2, order independence for n <= 2.
"""
import collections
import itertools
import re

import instances
import lib

PID = "C11"
PROPS = ["Aldy.Props.C11", "Aldy.Props.C11Order", "Aldy.Props.C11Tandem"]
TRUSTED_EXTRA = ["natsort (the order clauses only; its key function is compared with the model on every name)"]
ASSUMPTIONS = ["major allele names contain at least one character before any '#' (empty names make the code raise IndexError)"]


def build_solution(gene, copies):
    """copies: list of (major, minor, added[list of (pos, op)])"""
    from aldy.gene import Mutation
    from aldy.solutions import CNSolution, MajorSolution, MinorSolution, SolvedAllele
    sa = [SolvedAllele(gene, ma, mi, [Mutation(*m) for m in added], []) for ma, mi, added in copies]
    cn_sol = CNSolution(gene, 0, [gene.alleles[ma].cn_config for ma, _, _ in copies])
    major_sol = MajorSolution(0, collections.Counter(SolvedAllele(gene, ma) for ma, _, _ in copies), cn_sol, [])
    return MinorSolution(0, sa, major_sol)


def run_real(gene, copies):
    from aldy.diplotype import estimate_diplotype
    sol = build_solution(gene, copies)
    d = estimate_diplotype(gene, sol)
    names = [sol.get_major_name(i) for i in range(len(copies))]
    return {"diplotype": [list(x) for x in d], "text": sol.get_major_diplotype(), "names": names}


def real_key(major):
    n = major.split("#")[0]
    c = re.split(r"(\d+)", n)
    return c[0] if c[0] != "" else c[1]


def oracle(gene, copies, real, perm_texts=None):
    why = []
    n = len(copies)
    d = real["diplotype"]
    flat = [i for h in d for i in h]
    dele = gene.deletion_allele()
    placeholders = max(0, 2 - n) if dele else 0
    if sorted(i for i in flat if i >= 0) != list(range(n)):
        why.append(f"copies {sorted(i for i in flat if i >= 0)} shown, expected each of 0..{n - 1} exactly once")
    if sum(1 for i in flat if i < 0) != placeholders:
        why.append(f"{sum(1 for i in flat if i < 0)} deletion placeholders shown, expected {placeholders}")
    if n >= 2 and (len(d) != 2 or any(len(h) == 0 for h in d)):
        why.append(f"a haplotype is empty although {n} copies are called: {d}")
    # names shown
    shown = sorted(x.strip().lstrip("*") for h in real["text"].split(" / ") for x in h.split(" + ") if x.strip())
    exp = []
    for ma, mi, added in copies:
        nm = ma.split("#")[0]
        # the order inside a name is by RefSeq position (the same name whatever strand the build uses)
        fn = sorted(((p, o) for p, o in added if gene.is_functional((p, o), False)), key=lambda m: (gene.chr_to_ref.get(m[0], m[0]), m[1]))
        exp.append("+".join([nm] + [gene.get_rsid((p, o)) for p, o in fn]))
    exp += [dele] * placeholders
    if shown != sorted(exp):
        why.append(f"names shown {shown} differ from the called major alleles {sorted(exp)}")
    if n > 2:
        keys = [real_key(ma) for ma, _, _ in copies]
        cnt = collections.Counter(keys)
        for ta, tb in gene.common_tandems:
            if ta != tb and cnt[ta] and cnt[tb]:
                adj = any(h[i] >= 0 and h[i + 1] >= 0 and keys[h[i]] == ta and keys[h[i + 1]] == tb for h in d for i in range(len(h) - 1))
                if not adj:
                    why.append(f"common tandem {ta}+{tb} is not placed on one haplotype next to each other: {real['text']}")
                break
    # natural order: of the two haplotypes, and of the alleles inside a haplotype (tandem pairs move as a unit: only
    # checked when no listed tandem is among the called alleles)
    import re as _re

    def nkey(x):
        return [int(c) if c.isdigit() else c for c in _re.split(r"(\d+)", x)]
    haps = [[x.strip().lstrip("*") for x in h.split(" + ") if x.strip()] for h in real["text"].split(" / ")]
    if len(haps) == 2:
        ka, kb = [nkey(x) for x in haps[0]], [nkey(x) for x in haps[1]]
        if ka > kb:
            why.append(f"haplotypes are not in natural order: {real['text']}")
    keys_called = {real_key(ma) for ma, _, _ in copies}
    tandem_called = n > 2 and any(ta in keys_called and tb in keys_called for ta, tb in gene.common_tandems)
    if not tandem_called:
        for h in haps:
            if [nkey(x) for x in h] != sorted(nkey(x) for x in h):
                why.append(f"alleles of a haplotype are not in natural order: {real['text']}")
                break
    if perm_texts is not None and n <= 2 and len(set(perm_texts)) > 1:
        why.append(f"diplotype string depends on the production order: {sorted(set(perm_texts))}")
    return why


def gen_copies(r, gene, n):
    majors = list(gene.alleles)
    dele = gene.deletion_allele()
    pool = [m for m in majors if m != dele] or majors
    tand = [x for t in gene.common_tandems for x in t]
    copies = []
    allm = list(gene.mutations)
    # tandems that share a member (CYP2D6: 13/76 with 1, 77/78/79 with 2, 36/57 with 10): both partners and fewer
    # copies of the shared allele than partners - a copy must be consumed by the first tandem only
    forced = []
    shared = [(t1, t2) for t1 in gene.common_tandems for t2 in gene.common_tandems if t1 != t2 and set(t1) & set(t2)]
    if shared and n >= 3 and r.random() < 0.4:
        t1, t2 = r.choice(shared)
        keys = list(dict.fromkeys(list(t1) + list(t2)))
        if r.random() < 0.5:
            keys += [r.choice(keys)]
        for key in keys[:n]:
            cands = [m for m in pool if real_key(m) == key]
            if cands:
                forced.append(r.choice(cands))
    for k_ in range(n):
        if k_ < len(forced):
            ma = forced[k_]
        elif tand and r.random() < 0.35:
            key = r.choice(tand)
            cands = [m for m in pool if real_key(m) == key] or pool
            ma = r.choice(cands)
        elif r.random() < 0.3 and copies:
            ma = r.choice(copies)[0]
        else:
            ma = r.choice(pool)
        mi = r.choice(list(gene.alleles[ma].minors))
        added = []
        if allm and r.random() < 0.25:
            have = set(gene.alleles[ma].func_muts) | set(gene.alleles[ma].minors[mi].neutral_muts)
            cand = [m for m in allm if m not in have]
            if cand:
                added = [list(m) for m in r.sample(cand, min(len(cand), r.randint(1, 2)))]
        copies.append((ma, mi, added))
    # the whole-gene-deletion allele itself among the called alleles (the CN stage calls one allele per configuration):
    # it counts as a called copy for every rule of the heuristic
    if dele and n >= 3 and r.random() < 0.25:
        j = r.randrange(len(forced), n) if len(forced) < n else n - 1
        copies[j] = (dele, r.choice(list(gene.alleles[dele].minors)), [])
        if r.random() < 0.3 and n >= 4:
            copies[(j + 1) % n] = (dele, r.choice(list(gene.alleles[dele].minors)), [])
    return copies


def wire(gene, copies):
    return {"op": "diplotype",
            "copies": [{"major": ma, "added": [{"pos": p, "op": o, "rsid": gene.mutations[(p, o)][1] if (p, o) in gene.mutations else "-",
                                                  "functional": bool(gene.is_functional((p, o), False)), "ref_pos": gene.chr_to_ref.get(p, p)} for p, o in added]} for ma, mi, added in copies],
            "del": gene.deletion_allele(), "tandems": [[str(a), str(b)] for a, b in gene.common_tandems]}


def gene_pool(r, quick):
    pool = [{"kind": "toy", "genome": "hg19"}]
    for nme in ["cyp2d6", "cyp2a6", "cyp2c19", "gstm1"]:
        pool.append({"kind": "shipped", "name": nme, "genome": "hg19"})
    import gen_gene
    for _ in range(6 if quick else 40):
        pool.append({"kind": "generated", "genome": "hg19", "yaml": gen_gene.gen_gene(r, pseudogene=True, fusions=r.randint(1, 2))})
    return pool


def tie(ctx):
    from natsort import natsort_keygen
    r = lib.rng("c11")
    quick = ctx["tier"] == "quick"
    pool = gene_pool(r, quick)
    groups = []  # (gene desc, base copies, permutations)
    extra = []
    if ctx.get("replay") and "violation" in ctx["replay"] and "copies" in (ctx["replay"]["violation"].get("input") or {}):
        extra.append(ctx["replay"]["violation"]["input"])
    for fn, cj in lib.load_corpus(PID):
        extra.append(cj)
    for e in extra:
        groups.append((e["gene"], [tuple(c) for c in e["copies"]], None))
    # directed: three to five copies that all have ONE allele number, and that number is a member of a common tandem (the
    # tandem step then finds a partner list that is empty: the copies still have to end up on two haplotypes)
    for gd in pool:
        gene, _ = instances.load_gene(gd)
        members = list(dict.fromkeys(str(x) for t in gene.common_tandems for x in t))
        r.shuffle(members)
        for key in members[:(3 if quick else 12)]:
            cands = [m for m in gene.alleles if real_key(m) == key and m != gene.deletion_allele()]
            if not cands:
                continue
            n = r.choice([3, 3, 4, 5])
            groups.append((gd, [(ma, r.choice(list(gene.alleles[ma].minors)), []) for ma in (r.choice(cands) for _ in range(n))], None))
    # directed: one or two called copies around the whole-gene-deletion allele - the deletion allele called alone (the
    # missing haplotype gets a placeholder, the called copy stays), an allele that shares the deletion allele's number
    # called alone, the deletion allele next to another allele
    for gd in pool:
        gene, _ = instances.load_gene(gd)
        dele = gene.deletion_allele()
        if not dele:
            continue
        one = lambda ma: (ma, r.choice(list(gene.alleles[ma].minors)), [])
        groups.append((gd, [one(dele)], None))
        groups.append((gd, [one(dele), one(dele)], None))
        others = [m for m in gene.alleles if m != dele]
        if others:
            groups.append((gd, [one(dele), one(r.choice(others))], None))
            groups.append((gd, [one(r.choice(others))], None))
        for ma in [m for m in others if real_key(m) == real_key(dele)][:2]:
            groups.append((gd, [one(ma)], None))
            groups.append((gd, [one(ma), one(dele)], None))
    # directed: partial (fusion-derived) alleles whose background sub-allele has a dotted identifier (`13#4.021`): the name
    # shown is the part before `#`
    for gd in pool:
        gene, _ = instances.load_gene(gd)
        dotted = sorted(m for m in gene.alleles if "#" in m and "." in m.split("#", 1)[1])
        for ma in (r.sample(dotted, min(len(dotted), 2 if quick else 10))):
            others = [m for m in gene.alleles if m != gene.deletion_allele()]
            cps = [(ma, r.choice(list(gene.alleles[ma].minors)), [])] + [(o, r.choice(list(gene.alleles[o].minors)), []) for o in r.sample(others, r.choice([0, 1, 2]))]
            groups.append((gd, cps, None))
    nbase = 90 if quick else 1500
    for i in range(nbase):
        gd = pool[i % len(pool)]
        gene, _ = instances.load_gene(gd)
        n = r.choice([0, 1, 1, 2, 2, 2, 3, 3, 4, 5, 6])
        groups.append((gd, gen_copies(r, gene, n), None))
    reqs, runs = [], []
    names_seen = set()
    for gd, copies, _ in groups:
        gene, _ = instances.load_gene(gd)
        perms = list(itertools.permutations(range(len(copies))))
        if len(perms) > (24 if quick else 720):
            perms = [perms[0]] + r.sample(perms[1:], (23 if quick else 719))
        texts = []
        grp = []
        for p in perms:
            cp = [copies[i] for i in p]
            real = run_real(gene, cp)
            texts.append(real["text"])
            grp.append((cp, real, len(reqs)))
            reqs.append(wire(gene, cp))
            names_seen.update(real["names"])
        runs.append((gd, gene, grp, texts))
    names_list = sorted(names_seen)
    key_req_index = len(reqs)
    reqs.append({"op": "natkey", "names": names_list})
    outs = lib.driver_batch(reqs)
    fam = {k: {"cases": 0, "disagreements": []} for k in ("arrangement", "names", "natsort_key")}
    violations = []
    stats = collections.Counter()
    distinct = set()
    samples = []
    for gd, gene, grp, texts in runs:
        for cp, real, i in grp:
            o = outs[i]
            inp = {"gene": gd, "copies": [list(c) for c in cp]}
            fam["arrangement"]["cases"] += 1
            if o["diplotype"] != real["diplotype"] or o["text"] != real["text"]:
                fam["arrangement"]["disagreements"].append({"why": f"estimate_diplotype gives {real['diplotype']} / {real['text']!r}, model gives {o['diplotype']} / {o['text']!r}", "input": inp})
            fam["names"]["cases"] += 1
            if o["names"] != real["names"]:
                fam["names"]["disagreements"].append({"why": f"get_major_name gives {real['names']}, model gives {o['names']}", "input": inp})
            why = oracle(gene, cp, real, texts)
            if why:
                violations.append({"why": why[0], "all": why[:5], "input": inp, "observed": real, "signature": "c11:" + why[0].split(" ")[0] + "_" + why[0].split(" ")[1]})
            stats[f"copies_{len(cp)}"] += 1
            if len(cp) == 2:
                # hypothesis of the theorem diplotype_two_order_independent, decided by Lean on this input
                stats["two_copies_order_theorem_applies" if o.get("keys_distinct") else "two_copies_equal_keys_for_different_names"] += 1
            stats["with_tandem_pair"] += any(isinstance(x, tuple) for x in ()) or 0
            stats["with_added"] += any(c[2] for c in cp)
            stats["with_placeholder"] += any(i2 < 0 for h in real["diplotype"] for i2 in h)
            if len(cp) >= 2:
                distinct.add(lib.canon_hash(inp))
        if len(samples) < 4 and len(grp[0][0]) >= 3:
            samples.append({"gene": gd.get("name", gd["kind"]), "copies": [[c[0], c[1]] for c in grp[0][0]], "text": grp[0][1]["text"], "orders_tried": len(grp), "distinct_texts": len(set(texts))})
    kg = natsort_keygen()
    fam["natsort_key"]["cases"] = len(names_list)
    for nm, lk in zip(names_list, outs[key_req_index]):
        if tuple(lk) != tuple(kg(nm)):
            fam["natsort_key"]["disagreements"].append({"why": f"natsort key of {nm!r} is {kg(nm)}, model key is {lk}"})
    return {"families": fam, "violations": violations, "evaluations": sum(len(g[2]) for g in runs), "distinct_nontrivial": len(distinct),
            "rule": "multisets of 0-6 called copies (toy, CYP2D6, CYP2A6, CYP2C19, GSTM1, generated genes with tandems; repeated majors, tandem partners, the deletion allele itself among the called copies, novel added variants) in all (<= 24 quick / 720 thorough) production orders; non-trivial = at least two copies; distinct by hash of (gene, ordered copies)",
            "samples": samples, "stats": dict(stats)}


def search(ctx, hints):
    r = lib.rng("c11-search")
    pool = gene_pool(r, True)
    violations = []
    tried = 0
    cands = []
    for h in hints:
        if "copies" in (h.get("input") or {}):
            cands.append((h["input"]["gene"], [tuple(c) for c in h["input"]["copies"]]))
    while tried < 1500 and len(violations) < 3:
        if tried < len(cands):
            gd, copies = cands[tried]
        else:
            gd = pool[tried % len(pool)]
            gene, _ = instances.load_gene(gd)
            copies = gen_copies(r, gene, r.choice([0, 1, 2, 2, 3, 3, 4, 5]))
        tried += 1
        gene, _ = instances.load_gene(gd)
        perms = list(itertools.permutations(range(len(copies))))[:24]
        texts, reals = [], []
        try:
            for p in perms:
                real = run_real(gene, [copies[i] for i in p])
                texts.append(real["text"])
                reals.append(([copies[i] for i in p], real))
        except Exception as e:
            violations.append({"why": f"estimate_diplotype raised {type(e).__name__}: {e}", "input": {"gene": gd, "copies": [list(c) for c in copies]}, "signature": "c11:crash"})
            continue
        for cp, real in reals:
            why = oracle(gene, cp, real, texts)
            if why:
                violations.append({"why": why[0], "all": why[:5], "input": {"gene": gd, "copies": [list(c) for c in cp]}, "observed": real,
                                   "signature": "c11:" + why[0].split(" ")[0] + "_" + why[0].split(" ")[1]})
                break
    return {"violations": violations, "cases_searched": tried}
