"""Fill the detection matrix of DESIGN.md section 10.6 from a log of harness/seed_matrix.sh.
usage: python3 harness/design_matrix.py <matrix log> [more logs]"""
import collections
import json
import os
import re
import sys

HERE = os.path.dirname(os.path.abspath(__file__))
VERIF = os.path.dirname(HERE)


def main():
    rows = collections.defaultdict(dict)
    lines = [l for f in sys.argv[1:] for l in open(f)]
    for l in lines:
        m = re.match(r"seed=(\S+) check=(C\d+) rc=(\d+) violation=(\d) nofail=(\d) (\d+)s", l)
        if m:
            s, c, rc, v, nf, t = m.groups()
            rows[s][c] = "V" if v == "1" and nf == "0" else "n" if v == "1" else "T" if rc == "2" else "."
    checks = [f"C{i:02d}" for i in range(1, 20)]
    out = ["| seeded change | what it changes | " + " | ".join(c[1:] for c in checks) + " |", "|---|---|" + "---|" * len(checks)]

    def key(s):
        m_ = re.match(r"round(\d+)-", s)
        return (int(m_.group(1)) if m_ else 1, s)
    for s in sorted(rows, key=key):
        d = os.path.join(VERIF, "seeded", s.replace("-", "/"))
        try:
            meta = json.load(open(os.path.join(d, "meta.json")))
            summ = (meta.get("summary") or "")
            files = ",".join(os.path.basename(f) for f in (meta.get("files") or []))
        except Exception:
            summ, files = "", ""
        short = re.sub(r"\s+", " ", summ)[:110].replace("|", "/")
        out.append(f"| {s} ({files}) | {short}... | " + " | ".join(rows[s].get(c, "?") for c in checks) + " |")
    p = os.path.join(VERIF, "DESIGN.md")
    t = open(p).read()
    a = t.index("<!-- MATRIX:BEGIN")
    b = t.index("<!-- MATRIX:END -->")
    head = t[a:t.index("-->", a) + 3]
    t = t[:a] + head + "\n" + "\n".join(out) + "\n" + t[b:]
    open(p, "w").write(t)
    own_missed = [s for s in rows if rows[s].get(s.split("-")[-1]) not in ("V", "n")]
    print(f"{len(rows)} seeded changes; own property not flagged for: {own_missed}")


if __name__ == "__main__":
    main()
