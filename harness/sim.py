"""Error-free read simulator and BAM/VCF writers (pysam).

A sample is a list of *copies*; each copy is (major allele, minor allele) of a gene and brings,
for gene index gi and region r, `cn_config.cn[gi][r]` layers of reads over that region.  Within
a run of consecutive retained regions every layer *partitions* the run into consecutive chunks
(reads) of length <= read_len with a layer-specific phase, so the depth is exactly `layers` at
every position.  Reads carry the copy's variants (substitutions, MNPs, insertions, deletions)
with CIGAR M/I/D; chunk boundaries avoid indel sites.
"""
import os
import tempfile

import pysam

COMP = {"A": "T", "C": "G", "G": "C", "T": "A", "N": "N"}


def copy_variants(gene, major, minor):
    a = gene.alleles[major]
    ms = set(a.func_muts)
    if minor:
        ms |= set(a.minors[minor].neutral_muts)
    return sorted(ms)


def runs_of(gene, cfg, gi):
    """maximal runs [start, end) of consecutive (in genome order) regions of gene gi, per layer"""
    regs = sorted(gene.regions[gi].items(), key=lambda x: x[1].start)
    cn = gene.cn_configs[cfg].cn
    if gi >= len(cn):
        return []
    maxk = max([cn[gi].get(r, 0) for r, _ in regs] + [0])
    out = []
    for layer in range(1, maxk + 1):
        cur = None
        for r, rng in regs:
            if rng.end <= rng.start:
                continue
            if cn[gi].get(r, 0) >= layer:
                if cur and cur[1] == rng.start:
                    cur[1] = rng.end
                else:
                    if cur:
                        out.append(tuple(cur))
                    cur = [rng.start, rng.end]
            else:
                if cur:
                    out.append(tuple(cur))
                cur = None
        if cur:
            out.append(tuple(cur))
    return out


_COMP = {"A": "T", "C": "G", "G": "C", "T": "A", "N": "N"}


def ref_base(gene, p):
    """base of the genome the reads come from, derived from the RefSeq record and the coordinate map (not from the
    loader's own lookup string `gene[p]`: the reads are input, they must not inherit what the loader made of the reference)"""
    if p in gene.chr_to_ref:
        b = gene.seq[gene.chr_to_ref[p]]
        b = _COMP.get(b, "N") if gene.strand < 0 else b
    else:
        b = "N"
    return b if b != "N" else "A"


def make_read(gene, s, e, variants):
    """read covering reference [s, e) with the given variants (genome coordinates).
    returns (seq, cigartuples)"""
    seq = []
    cig = []

    def add(op, n):
        if n <= 0:
            return
        if cig and cig[-1][0] == op:
            cig[-1] = (op, cig[-1][1] + n)
        else:
            cig.append((op, n))

    subs = {}
    dels = {}
    ins = {}
    for m in variants:
        pos, op = m[0], m[1]
        if ">" in op:
            l, r = op.split(">")
            for i, (x, y) in enumerate(zip(l, r)):
                if x != ".":
                    subs[pos + i] = y
        elif op.startswith("ins"):
            # catalogue convention (also what `_realign_indels` hands to indelpost): inserted AFTER genome base `pos`;
            # written the way an aligner reports it: shifted to the leftmost equivalent position
            x, q = op[3:], pos
            while LEFT_ALIGN and q - 1 >= s and ref_base(gene, q) == x[-1]:
                x = x[-1] + x[:-1]
                q -= 1
            ins[q + 1] = x
        elif op.startswith("del"):
            body = op[3:]
            if "ins" in body:
                d, i2 = body.split("ins")
                dels[pos] = len(d)
                ins[pos + len(d)] = i2
            else:
                q, n = pos, len(body)
                while LEFT_ALIGN and q - 1 > s and ref_base(gene, q - 1) == ref_base(gene, q + n - 1):
                    q -= 1
                dels[q] = n
    p = s
    while p < e:
        if p in ins and p > s:
            seq.append(ins[p])
            add(1, len(ins[p]))
        if p in dels and p > s and p + dels[p] < e:
            add(2, dels[p])
            p += dels[p]
            continue
        seq.append(subs.get(p, ref_base(gene, p)))
        add(0, 1)
        p += 1
    return "".join(seq), cig


LEFT_ALIGN = True   # indels in repeats are written at their leftmost position, as aligners do
MARGIN = 10   # no read starts or ends this close to an indel of its haplotype (indelpost cannot place it there)
PAD = 0       # (padding past the locus would put bases against the N-filled part of the reference aldy hands to indelpost)


def avoid(positions, x):
    """shift a chunk boundary so it is not within MARGIN bp of an indel site"""
    while any(a - MARGIN <= x <= b + MARGIN for a, b in positions):
        x += 1
    return x


def padded(gene, a, b):
    """extend [a, b) by PAD on each side where that does not run into any region of the locus"""
    regs = [(rr.start, rr.end) for g in gene.regions for rr in g.values() if rr.end > rr.start]
    lo, hi = a - PAD, b + PAD
    if any(s < a and e > lo for s, e in regs):
        lo = a
    if any(s < hi and e > b for s, e in regs):
        hi = b
    return lo, hi


def simulate_reads(gene, copies, depth=20, read_len=60, extra_pseudo=0, name_prefix="r", weak_extra=True):
    """copies: list of (major, minor or None).  `depth` layers per structural copy.
    returns list of dicts(name, pos, seq, cigar, mapq, qual)"""
    reads = []
    n = 0
    depths = depth if isinstance(depth, (list, tuple)) else [depth] * len(copies)
    # aldy's structure semantics: exactly two copies are *complete* (bring the pseudogene regions of their
    # configuration); fusion / deletion configurations are always complete, default copies fill what is left
    # and every further default copy is a pseudogene-free duplication
    kinds = [gene.cn_configs[gene.alleles[mj].cn_config].kind.name for mj, _ in copies]
    free = 2 - sum(1 for kd in kinds if kd != "DEFAULT")
    weak = []
    for kd in kinds:
        if kd == "DEFAULT":
            weak.append(free <= 0)
            free -= 1
        else:
            weak.append(False)
    # no read of the sample starts or ends next to an indel (or multi-substitution) of ANY copy, so that every
    # read either spans such a site with flanks on both sides or does not reach it
    all_spans = []
    for mj, mn in copies:
        for m in copy_variants(gene, mj, mn):
            if m[1].startswith("ins"):
                all_spans.append((m[0], m[0] + 2))
            elif m[1].startswith("del"):
                all_spans.append((m[0] - 1, m[0] + len(m[1]) - 3 + 1))
            elif len(m[1]) > 3:
                all_spans.append((m[0], m[0] + len(m[1].split(">")[0])))
    for ci, (major, minor) in enumerate(copies):
        depth = depths[ci]
        cfg = gene.alleles[major].cn_config
        variants = [m for m in copy_variants(gene, major, minor)]
        indel_spans = all_spans
        for gi in range(len(gene.regions)):
            # copies beyond the two complete haplotypes are pseudogene-free duplications
            if gi > 0 and weak_extra and weak[ci]:
                continue
            for (a0, b0) in runs_of(gene, cfg, gi):
                vs = [m for m in variants if gi == 0 and gene.has_coverage(major, m[0]) and a0 <= m[0] < b0]
                a, b = padded(gene, a0, b0)
                for layer in range(depth):
                    phase = (layer * 7919) % read_len
                    s = a
                    first = True
                    while s < b:
                        e = s + (phase if first and phase else read_len)
                        first = False
                        e = min(b, avoid(indel_spans, e))
                        if b - e < 3:
                            e = b
                        seq, cig = make_read(gene, s, e, vs)
                        reads.append({"name": f"{name_prefix}{ci}_{n}", "pos": s, "seq": seq, "cigar": cig, "mapq": 60})
                        n += 1
                        s = e
    # extra pseudogene-only copies
    if extra_pseudo and len(gene.regions) > 1:
        regs = sorted(gene.regions[1].values(), key=lambda x: x.start)
        a, b = regs[0].start, regs[-1].end
        for k in range(extra_pseudo):
            for layer in range(depths[0] if depths else 0):
                phase = (layer * 7919) % read_len
                s, first = a, True
                while s < b:
                    e = min(b, s + (phase if first and phase else read_len))
                    first = False
                    seq, cig = make_read(gene, s, e, [])
                    reads.append({"name": f"{name_prefix}p{k}_{n}", "pos": s, "seq": seq, "cigar": cig, "mapq": 60})
                    n += 1
                    s = e
    return reads


def neutral_reads(chrom_region, layers, read_len=60, name_prefix="n", overhang=False):
    """uniform reads over a copy-number-neutral region (sequence irrelevant); with `overhang` whole reads that start before
    the region and end after it (as real reads do) instead of reads clipped to the region"""
    _, a, b = chrom_region
    reads = []
    n = 0
    for layer in range(layers):
        phase = (layer * 7919) % read_len
        s, first = (a - (read_len - phase) % read_len if overhang else a), True
        while s < b:
            e = (s + read_len) if overhang else min(b, s + (phase if first and phase else read_len))
            first = False
            reads.append({"name": f"{name_prefix}{n}", "pos": s, "seq": "A" * (e - s), "cigar": [(0, e - s)], "mapq": 60})
            n += 1
            s = e
    return reads


def write_bam(path, reads, chrom="20", length=300000, header_extra=None, sort=True):
    header = {"HD": {"VN": "1.6", "SO": "unsorted"}, "SQ": [{"SN": chrom, "LN": length}] + (header_extra or [])}
    tmp = path + ".unsorted.bam"
    with pysam.AlignmentFile(tmp, "wb", header=header) as f:
        for r in reads:
            a = pysam.AlignedSegment()
            a.query_name = r["name"]
            a.query_sequence = r["seq"]
            a.flag = r.get("flag", 0)
            a.reference_id = r.get("ref_id", 0)
            a.reference_start = r["pos"]
            a.mapping_quality = r.get("mapq", 60)
            a.cigartuples = r["cigar"]
            q = r.get("qual")
            a.query_qualities = pysam.qualitystring_to_array("".join(chr(33 + x) for x in q)) if q else pysam.qualitystring_to_array("I" * len(r["seq"]))
            for k, v in r.get("tags", []):
                a.set_tag(k, v)
            f.write(a)
    pysam.sort("-o", path, tmp)
    os.unlink(tmp)
    pysam.index(path)
    return path


def chrom_length_for(gene):
    return max(r.end for g in gene.regions for r in g.values()) + 100000


def scratch_dir():
    d = os.environ.get("VERIF_SCRATCH") or tempfile.mkdtemp(prefix="aldy_verif_")
    os.makedirs(d, exist_ok=True)
    return d
