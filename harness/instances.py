"""Structured instance generators for the stage-level checks (genes, structures, evidence tables).
Every instance is fully described by a JSON-able `desc` from which it can be rebuilt (replay)."""
import collections
import os
from fractions import Fraction

import gen_gene
import lib

_GENE_CACHE = {}


def load_gene(gdesc):
    key = lib.canon_hash(gdesc)
    if key not in _GENE_CACHE:
        from aldy.gene import Gene
        if gdesc["kind"] == "toy":
            g = Gene(os.path.join(lib.REPO, "aldy/tests/resources/toy.yml"), genome=gdesc["genome"])
        elif gdesc["kind"] == "shipped":
            g = Gene(os.path.join(lib.REPO, f"aldy/resources/genes/{gdesc['name']}.yml"), genome=gdesc["genome"])
        else:
            g = gen_gene.load(gdesc["yaml"], gdesc["genome"], gdesc.get("name", "GEN"))
        _GENE_CACHE[key] = (g, "g" + key)
    return _GENE_CACHE[key]


SMALL_SHIPPED = ["cyp2c19", "cyp2c9", "tpmt", "nat1", "gstm1", "cyp2a6", "cyp3a5", "nudt15", "slco1b1", "cyp2b6"]


def gene_pool(r, quick=True, n_generated=None):
    pool = [{"kind": "toy", "genome": "hg19"}, {"kind": "toy", "genome": "hg38"}]
    n_generated = n_generated if n_generated is not None else (24 if quick else 150)
    for i in range(n_generated):
        pool.append({"kind": "generated", "genome": r.choice(["hg19", "hg38"]), "yaml": gen_gene.with_delins(r, gen_gene.gen_gene(r)) if i % 2 else gen_gene.gen_gene(r)})
    ship = SMALL_SHIPPED if quick else SMALL_SHIPPED + ["cyp2d6", "dpyd", "cyp1a2", "cyp2e1", "ugt1a1", "g6pd", "vkorc1"]
    for nme in (r.sample(ship, 3) if quick else ship):
        if os.path.exists(os.path.join(lib.REPO, f"aldy/resources/genes/{nme}.yml")):
            pool.append({"kind": "shipped", "name": nme, "genome": r.choice(["hg19", "hg38"])})
    return pool


def gene_short(gdesc):
    if gdesc["kind"] == "generated":
        return gdesc
    return dict(gdesc)


PROFILE_CHOICES = {
    "threshold": ["0.5", "0.5", "0.3", "0.7"],
    "min_coverage": ["2", "2", "1", "5"],
    "gap": ["0", "0", "0.1", "0.5"],
    "major_novel": ["21", "21", "2", "0.5"],
    "cn_max": ["20", "20", "4"],
}


def gen_profile_desc(r, keys=("threshold", "min_coverage", "gap", "major_novel", "cn_max")):
    return {k: r.choice(PROFILE_CHOICES[k]) for k in keys if r.random() < 0.5}


def make_profile(pdesc, **extra):
    from aldy.profile import Profile
    kw = {k: v for k, v in pdesc.items()}
    kw.update(extra)
    return Profile("test", **kw)


def random_structure(r, gene, max_copies=4):
    configs = list(gene.cn_configs)
    n = r.choice([1, 2, 2, 2, 2, 3, 3, 4][:max(1, 2 * max_copies)])
    return sorted(r.choice(configs) if r.random() < 0.35 else "1" for _ in range(n))


def _boundary(cov_obj, prof, gene, cn_sol, half):
    """true if some table entry sits exactly on a threshold of the two-step filter (float hazard)"""
    from aldy.gene import Mutation
    thr = Fraction(repr(float(prof.threshold)))
    mc = Fraction(repr(float(prof.min_coverage)))
    for pos, ops in cov_obj._coverage.items():
        for op in ops:
            m = Mutation(pos, op)
            tot = Fraction(cov_obj.total(m))
            c = Fraction(cov_obj.coverage(m))
            cns = [Fraction(repr(float(prof.cn_max)))]
            if op != "_":
                cns.append(Fraction(cn_sol.position_cn(pos)) + half)
            for cn in cns:
                t = tot * thr / (cn if cn != 0 else 1)
                if t > mc and abs(c - t) < Fraction(1, 10**7):
                    return True
    return False


def major_from_desc(desc):
    from aldy.coverage import Coverage
    from aldy.solutions import CNSolution
    gene, gid = load_gene(desc["gene"])
    prof = make_profile(desc["profile"])
    cn_sol = CNSolution(gene, 0, list(desc["structure"]))
    table = collections.defaultdict(dict)
    for pos, op, quals in desc["table"]:
        table[pos][op] = [(q[0], q[1]) for q in quals for _ in range(q[2] if len(q) > 2 else 1)]
    indel = None
    if desc.get("indel_table"):
        indel = {(p, o): (n, y) for p, o, n, y in desc["indel_table"]}
    cov = Coverage(gene, prof, None, table, indel, {})
    return {"gene": gene, "gene_id": gid, "gene_desc": desc["gene"], "cov": cov, "cn_sol": cn_sol, "profile": prof,
            "structure": list(desc["structure"]), "planted": desc.get("planted"), "table_desc": desc["table"],
            "indel_desc": desc.get("indel_table"), "profile_desc": desc["profile"],
            "positions": sorted({p for p, _, _ in desc["table"]})}


def plant_table(r, gene, cn_sol, planted, with_minors=False, noise=True, low_quality=False):
    """evidence table for planted (major, minor) alleles: counts d*copies with noise.
    returns list of (pos, op, quals)"""
    from aldy.gene import Mutation
    d = r.choice([10, 12, 20, 30])
    carried = collections.Counter()
    for maj, mino in planted:
        a = gene.alleles[maj]
        ms = set(a.func_muts)
        if with_minors and mino:
            ms |= set(a.minors[mino].neutral_muts)
        for m in ms:
            if gene.has_coverage(maj, m.pos):
                carried[m] += 1
    sites = {m.pos for m in carried}
    # extra catalogued sites (reference only, or spurious variants)
    allm = [Mutation(*m) for m in gene.mutations]
    extra = r.sample(allm, min(len(allm), r.randint(0, 4)))
    spurious = {}
    for m in extra:
        sites.add(m.pos)
        if noise and r.random() < 0.4 and m not in carried:
            spurious[m] = r.choice([1, 2, d // 2, d])
    rows = {}
    for pos in sorted(sites):
        pc = cn_sol.position_cn(pos)
        tot = d * max(pc, 0)
        var_here = 0
        for m in list(carried) + list(spurious):
            if m.pos != pos:
                continue
            c = d * carried[m] if m in carried else spurious[m]
            if noise and r.random() < 0.5:
                c = max(0, int(round(c * r.uniform(0.6, 1.4))))
            if noise and m in carried and r.random() < 0.05:
                c = 0
            if c > 0:
                rows[(pos, m.op)] = c
                if m.op[:3] != "ins":
                    var_here += c
        refc = max(0, tot - var_here)
        if noise and r.random() < 0.3:
            refc = max(0, int(round(refc * r.uniform(0.7, 1.3))))
        if pc == 0 and noise and r.random() < 0.5:
            refc = r.choice([0, 1, 3])
        if refc > 0:
            rows[(pos, "_")] = refc
    out = []
    for (pos, op), c in sorted(rows.items()):
        quals = [[60, 60, c]]
        if low_quality and r.random() < 0.5:
            quals = quals + [[r.choice([0, 5, 9]), 60, r.randint(1, 6)], [60, r.choice([0, 6]), r.randint(1, 4)]]
        out.append([pos, op, quals])
    if low_quality:
        # a variant seen only in low-quality reads
        for m in r.sample(allm, min(len(allm), 2)):
            if (m.pos, m.op) not in rows:
                out.append([m.pos, m.op, [[r.choice([0, 5]), 60, r.randint(2, 8)], [60, 6, r.randint(1, 3)]]])
    return out


def plant_alleles(r, gene, structure):
    planted = []
    for cfg in structure:
        cands = [an for an, a in gene.alleles.items() if a.cn_config == cfg]
        if not cands:
            continue
        maj = r.choice(cands)
        mino = r.choice(list(gene.alleles[maj].minors))
        planted.append([maj, mino])
    return planted


def major_instance(r, gdesc, low_quality=False):
    gene, gid = load_gene(gdesc)
    from aldy.solutions import CNSolution
    structure = random_structure(r, gene)
    cn_sol = CNSolution(gene, 0, structure)
    planted = plant_alleles(r, gene, structure)
    table = plant_table(r, gene, cn_sol, planted, with_minors=False, noise=r.random() < 0.8, low_quality=low_quality)
    indel_table = None
    indels = [(p, o) for (p, o) in gene.mutations if o[:3] in ("ins", "del")]
    if indels and r.random() < 0.4:
        indel_table = []
        tab = {(p, o): sum(x[2] for x in q) for p, o, q in table}
        for (p, o) in indels:
            y = tab.get((p, o), 0)
            n = r.choice([10, 20, 30])
            indel_table.append([p, o, n, y if r.random() < 0.8 else 0])
    desc = {"gene": gene_short(gdesc), "structure": structure, "planted": planted, "table": table,
            "indel_table": indel_table, "profile": gen_profile_desc(r)}
    inst = major_from_desc(desc)
    if _boundary(inst["cov"], inst["profile"], gene, cn_sol, Fraction(1, 2)):
        return None
    return inst
