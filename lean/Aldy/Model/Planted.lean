import Aldy.Model.Major
import Aldy.Model.Minor

/-!
C01: the *planted* points of the major and minor models - the assignments that call exactly the
simulated alleles with no error, nothing novel, nothing lost - and boolean evaluators, so that
the driver can decide on the real stage inputs of a simulated sample whether the hypotheses of
the C01 theorems hold (`plantedB` is proved equivalent to `Planted` in `Props/C01`).
-/

namespace Aldy

/-! ### evaluation of a model at a point -/

def Kind.okB (k : Kind) (x : Rat) : Bool :=
  match k with
  | .bin => x == 0 || x == 1
  | .cont lb ub =>
    (match lb with | some l => decide (l ≤ x) | none => true) &&
    (match ub with | some u => decide (x ≤ u) | none => true)
  | .int ub => x.den == 1 && decide (0 ≤ x) && decide (x ≤ (ub : Rat))

def LinCon.holdsB {V : Type} (c : LinCon V) (σ : V → Rat) : Bool := decide (c.holds σ)

/-- constraints of the model violated at `σ` (indices), and variables outside their kind -/
def Ilp.violated {V : Type} (m : Ilp V) (σ : V → Rat) : List Nat × List Nat :=
  ((m.cons.zipIdx.filter fun ci => !ci.1.holdsB σ).map (·.2),
   (m.vars.zipIdx.filter fun vi => !vi.1.2.okB (σ vi.1.1)).map (·.2))

/-! ### major stage -/

/-- the planted assignment: the first `k a` copy selectors of allele `a` are on, no error, no
novel variant; `OR m` is on iff a planted allele carries `m` -/
def plantedσ (I : MajorInst) (k : String → Nat) : MVar → Rat
  | .A a i => if i < k a then 1 else 0
  | .OR m => if I.alleles.any (fun a => a.func.contains m && decide (0 < k a.name)) then 1 else 0
  | .XOR _ => 1
  | _ => 0

def plantedSum (k : String → Nat) (as : List MajorA) : Rat := (as.map fun a => (k a.name : Rat)).sum

/-- the five clauses of `Planted`, decided -/
def plantedClauses (I : MajorInst) (k : String → Nat) : List (String × Bool) :=
  [("fits", I.alleles.all fun a => decide (k a.name ≤ max 1 (I.cn.count a.cnConfig))),
   ("fills", I.cn.solution.all fun cc =>
      decide (plantedSum k (I.alleles.filter fun a => a.cnConfig == cc.1) = (cc.2 : Rat))),
   ("variants", I.funcMuts.all fun m =>
      decide (I.observed m = plantedSum k (I.alleles.filter fun a => a.func.contains m))),
   ("carried", I.funcMuts.all fun m => I.alleles.any fun a => a.func.contains m && decide (0 < k a.name)),
   ("reference", I.positions.all fun pos =>
      decide (I.observed (refMut pos) =
        plantedSum k (I.alleles.filter fun a =>
          I.gene.hasCoverage a.name pos && !(a.func.any fun ma => ma.pos == pos && !ma.isIns))))]

def plantedB (I : MajorInst) (k : String → Nat) : Bool := (plantedClauses I k).all (·.2)

/-- rows whose observed copy number differs from the planted one (for the report) -/
def plantedMismatch (I : MajorInst) (k : String → Nat) : List (Mut × Rat × Rat) :=
  (I.funcMuts.filterMap fun m =>
    let e := plantedSum k (I.alleles.filter fun a => a.func.contains m)
    if I.observed m = e then none else some (m, I.observed m, e)) ++
  (I.positions.filterMap fun pos =>
    let e := plantedSum k (I.alleles.filter fun a =>
      I.gene.hasCoverage a.name pos && !(a.func.any fun ma => ma.pos == pos && !ma.isIns))
    if I.observed (refMut pos) = e then none else some (refMut pos, I.observed (refMut pos), e))

namespace MajorInst

/-! ### major stage, spec level: the documented score of an allele multiset -/

def absQ (x : Rat) : Rat := if x < 0 then -x else x

/-- some called copy carries the core variant `m` -/
def carriedB (I : MajorInst) (k : String → Nat) (m : Mut) : Bool :=
  I.alleles.any fun a => a.func.contains m && decide (0 < k a.name)

/-- observed core variants that no called copy carries: they must be flagged novel -/
def novelOf (I : MajorInst) (k : String → Nat) : List Mut := I.funcMuts.filter fun m => !carriedB I k m

def carriersCount (I : MajorInst) (k : String → Nat) (m : Mut) : Rat :=
  plantedSum k (I.alleles.filter fun a => a.func.contains m)

def refCount (I : MajorInst) (k : String → Nat) (pos : Int) : Rat :=
  plantedSum k (I.alleles.filter fun a =>
    I.gene.hasCoverage a.name pos && !(a.func.any fun ma => ma.pos == pos && !ma.isIns))

/-- **the documented score** of calling `k a` copies of every candidate allele `a`: absolute
difference between observed and called copies for every observed core variant (a variant nobody
carries is called once, as novel) and every reference row, plus the novelty penalties -/
def specMajor (I : MajorInst) (k : String → Nat) : Rat :=
  (I.funcMuts.map fun m => absQ (I.observed m - (I.carriersCount k m + (if carriedB I k m then 0 else 1)))).sum +
  (I.positions.map fun pos => absQ (I.observed (refMut pos) - I.refCount k pos)).sum +
  I.majorNovel * (if (I.novelOf k).isEmpty then 0 else 1) +
  Const.MAJOR_NOVEL_EACH * ((I.novelOf k).length : Rat)

/-- `k` is an admissible decision of the major model: it fits and fills the structure and leaves
at most one uncarried non-insertion variant per site -/
def admissibleB (I : MajorInst) (k : String → Nat) : Bool :=
  (I.alleles.all fun a => decide (k a.name ≤ max 1 (I.cn.count a.cnConfig))) &&
  (I.cn.solution.all fun cc =>
      decide (plantedSum k (I.alleles.filter fun a => a.cnConfig == cc.1) = (cc.2 : Rat))) &&
  (I.positions.all fun pos =>
      decide (((I.novelOf k).filter fun m => m.pos == pos && !m.isIns).length ≤ 1))


/-! ### correspondence of two major-stage instances (two builds of one sample), decided -/

def piOf (l : List (Mut × Mut)) (m : Mut) : Mut := (l.lookup m).getD m
def rhoOf (l : List (Int × Int)) (p : Int) : Int := (l.lookup p).getD p

def sameAlleleB (π : Mut → Mut) (a b : MajorA) : Bool :=
  b.name == a.name && b.cnConfig == a.cnConfig && b.func.isPerm (a.func.map π)

def zipAll {α : Type} (r : α → α → Bool) : List α → List α → Bool
  | [], [] => true
  | a :: as, b :: bs => r a b && zipAll r as bs
  | _, _ => false

/-- the clauses of `MajorCorr` (Props/C13Spec), decided -/
def majorCorrClauses (I J : MajorInst) (πl : List (Mut × Mut)) (ρl : List (Int × Int)) : List (String × Bool) :=
  let π := piOf πl
  let ρ := rhoOf ρl
  [("alleles", zipAll (sameAlleleB π) I.alleles J.alleles),
   ("cn", J.cn.solution == I.cn.solution),
   ("novelPenalty", decide (J.majorNovel = I.majorNovel)),
   ("funcs", J.funcMuts.isPerm (I.funcMuts.map π)),
   ("sites", J.positions.isPerm (I.positions.map ρ)),
   ("carries", I.alleles.all fun a => I.funcMuts.all fun m => (a.func.map π).contains (π m) == a.func.contains m),
   ("atSite", I.alleles.all fun a => I.positions.all fun p =>
      ((a.func.map π).any fun ma => ma.pos == ρ p && !ma.isIns) == (a.func.any fun ma => ma.pos == p && !ma.isIns)),
   ("mutSite", I.funcMuts.all fun m => I.positions.all fun p =>
      ((π m).pos == ρ p && !(π m).isIns) == (m.pos == p && !m.isIns)),
   ("obsVar", I.funcMuts.all fun m => decide (J.observed (π m) = I.observed m)),
   ("obsRef", I.positions.all fun p => decide (J.observed (refMut (ρ p)) = I.observed (refMut p))),
   ("copies", I.alleles.all fun a => I.positions.all fun p =>
      J.gene.hasCoverage a.name (ρ p) == I.gene.hasCoverage a.name p)]

def majorCorrB (I J : MajorInst) (πl : List (Mut × Mut)) (ρl : List (Int × Int)) : Bool :=
  (majorCorrClauses I J πl ρl).all (·.2)

end MajorInst

/-! ### minor stage -/

namespace MinorInst

def absR (x : Rat) : Rat := if x < 0 then -x else x

/-- the planted point of the minor model: `copies (major, minor)` copies of every candidate are
selected (lowest indices first), every definition variant with gene copies at its position is
kept, nothing is added; error terms take the value the coverage equations force; every phase
pattern is given to the selected slot it contradicts least -/
structure PlantedPoint where
  selected : MSlot → Bool
  chosen : List (Nat × Nat)            -- (ai, ri) of the phase cells switched on

def baseσ (I : MinorInst) (sel : MSlot → Bool) : NVar → Rat
  | .A s => if sel s then 1 else 0
  | .K m s =>
    if sel s && I.gene.hasCoverage s.major m.pos then 1 else 0
  | .MULK m s => if sel s && I.gene.hasCoverage s.major m.pos then 1 else 0
  | _ => 0

def cellErr (σ : NVar → Rat) (c : PhaseCell) : Rat :=
  (c.pos.map fun v => 1 - σ v).sum + (c.neg.map fun v => σ v).sum

def choosePhase (I : MinorInst) (allCells : List PhaseCell) (sel : MSlot → Bool) : List (Nat × Nat) :=
  let σ := I.baseσ sel
  (List.range I.phases.length).filterMap fun ri =>
    let cells := (allCells.filter fun c => c.ri == ri && sel c.slot)
    match cells with
    | [] => none
    | c0 :: rest =>
      let best := rest.foldl (fun b c => if cellErr σ c < cellErr σ b then c else b) c0
      some (best.ai, best.ri)

def plantedσ (I : MinorInst) (copies : String → String → Nat) : NVar → Rat :=
  let sel : MSlot → Bool := fun s => decide (s.idx < copies s.major s.minor)
  let b := I.baseσ sel
  let allCells := I.phaseCells
  let chosen := I.choosePhase allCells sel
  let cellOf := fun (ai ri : Nat) => allCells.find? fun c => c.ai == ai && c.ri == ri
  let ph : Nat → Nat → Rat := fun ai ri => if chosen.contains (ai, ri) then 1 else 0
  fun v =>
    match v with
    | .E m =>
      if m.op == "_" then I.observed m - evalTerms b (I.refTerms m.pos) else I.observed m - evalTerms b (I.varTerms m)
    | .ABS m =>
      absR (if m.op == "_" then I.observed m - evalTerms b (I.refTerms m.pos) else I.observed m - evalTerms b (I.varTerms m))
    | .PH ai ri => ph ai ri
    | .PH2 ai ri i =>
      (match cellOf ai ri with
       | some c => (match c.pos[i]? with | some w => ph ai ri * b w | none => 0)
       | none => 0)
    | .PH3 ai ri i =>
      (match cellOf ai ri with
       | some c => (match c.neg[i]? with | some w => ph ai ri * b w | none => 0)
       | none => 0)
    | w => b w

/-! ### minor stage, closed form: the zero-error point and the clauses under which it is feasible
(`Props/C01Minor.lean` proves: clauses ⇒ feasible with objective 0, for every instance) -/

/-- the closed-form planted point: the first `copies (major, minor)` copy selectors of every
candidate are on, every definition variant of a selected copy is kept, nothing is added, no
error; phase pattern `ri` is given to the cell `(choose ri, ri)` -/
def zeroσ (copies : String → String → Nat) (choose : Nat → Option Nat) : NVar → Rat
  | .A s => if s.idx < copies s.major s.minor then 1 else 0
  | .K _ s => if s.idx < copies s.major s.minor then 1 else 0
  | .MULK _ s => if s.idx < copies s.major s.minor then 1 else 0
  | .PH ai ri => if choose ri = some ai then 1 else 0
  | .PH2 ai ri _ => if choose ri = some ai then 1 else 0
  | _ => 0

/-- planted copies weighted by a per-candidate quantity -/
def weight (I : MinorInst) (copies : String → String → Nat) (F : MinorCand → Rat) : Rat :=
  (I.cands.map fun c => (copies c.major c.minor : Rat) * F c).sum

def ind (b : Bool) : Rat := if b then 1 else 0

/-- planted carriers of a considered variant -/
def carriersOf (I : MinorInst) (copies : String → String → Nat) (m : Mut) : Rat :=
  I.weight copies fun c => ind (c.defMuts.contains m)

/-- the clauses of `PlantedMinor`, decided -/
def plantedMinorClauses (I : MinorInst) (copies : String → String → Nat) (choose : Nat → Option Nat) :
    List (String × Bool) :=
  let σ := zeroσ copies choose
  [("fits", I.cands.all fun c => decide (copies c.major c.minor ≤ I.count c.major)),
   ("fills", I.majorSol.all fun mc => decide (I.weight copies (fun c => ind (c.major == mc.1)) = (mc.2 : Rat))),
   ("total", decide (I.weight copies (fun _ => 1) ≤ (((I.majorSol.map (·.2)).sum : Nat) : Rat))),
   ("covered", I.cands.all fun c => decide (copies c.major c.minor = 0) || c.defMuts.all fun m => I.hasCov c m.pos),
   ("variants", I.mutations.all fun m => decide (I.observed m = I.carriersOf copies m)),
   ("reference", I.positions.all fun pos =>
      decide (I.observed (refMut' pos) = I.weight copies fun c => ind (I.hasCov c pos && (presentAt c pos).isEmpty))),
   ("single", I.cands.all fun c => decide (copies c.major c.minor = 0) ||
      I.positions.all fun pos => decide ((keptAt c pos).length ≤ 1)),
   ("supported", I.mutations.all fun m =>
      if I.cn.positionCn I.gene m.pos == 0 || I.cov.coverage m == 0 then decide (I.carriersOf copies m = 0)
      else decide (1 ≤ I.carriersOf copies m) && decide (I.carriersOf copies m ≤ I.cov.coverage m)),
   ("room", I.positions.all fun pos =>
      decide (I.weight copies (fun c => ((I.addAt c pos).length : Rat)) ≤ I.rule6Rhs pos)),
   ("phaseChosen", (List.range I.phases.length).all fun ri =>
      (I.phaseCells.filter (·.ri == ri)).isEmpty ||
      I.phaseCells.any fun c => c.ri == ri && decide (choose ri = some c.ai)),
   ("phaseAgrees", I.phaseCells.all fun c =>
      !decide (choose c.ri = some c.ai) ||
      (decide (c.slot.idx < copies c.slot.major c.slot.minor) &&
       c.pos.all (fun v => decide (σ v = 1)) && c.neg.all (fun v => decide (σ v = 0))))]

def plantedMinorB (I : MinorInst) (copies : String → String → Nat) (choose : Nat → Option Nat) : Bool :=
  (I.plantedMinorClauses copies choose).all (·.2)

end MinorInst

end Aldy
