import Aldy.Generated.Constants

/-!
`aldy/lpinterface.py: escape_name` (lines 18-28) and the shared name counter of the CBC
wrapper (`self.names`, used by `addVar` *and* `addConstr`).
-/

namespace Aldy

/-- `s.replace(".", "").replace("-", "m").replace("#", "__").replace(">", "")[:200]`
with the replacement chain and the cut taken from the generated constants. -/
def escapeBase (s : String) : String :=
  ((Const.ESCAPE_REPLACEMENTS.foldl (fun (acc : String) r => acc.replace r.1 r.2) s).take
    Const.ESCAPE_MAXLEN).toString

/-- One call `escape_name(s, d)`: bump the counter of the escaped name, append `_k` from the
second use on.  Returns the new counter table and the final name. -/
def escapeStep (d : List (String × Nat)) (s : String) : List (String × Nat) × String :=
  let b := escapeBase s
  let k := (d.lookup b).getD 0 + 1
  let d' := (b, k) :: d.filter (fun e => e.1 != b)
  (d', if k > 1 then b ++ "_" ++ toString k else b)

/-- The names a sequence of `addVar`/`addConstr` calls ends up with, in call order. -/
def escapeSeq (raw : List String) : List String :=
  (raw.foldl (fun (acc : List (String × Nat) × List String) s =>
    let r := escapeStep acc.1 s
    (r.1, r.2 :: acc.2)) ([], [])).2.reverse

end Aldy
