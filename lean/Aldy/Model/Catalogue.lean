import Aldy.Model.Gene
import Aldy.Model.Coords
import Aldy.Model.Diplotype

/-!
Model of the catalogue construction of `aldy/gene.py`:
`_init_regions` (443-494), `_init_alleles` (496-752) and `_init_partials` (754-863),
on top of the coordinate model (`Model/Coords.lean`).
-/

namespace Aldy

/-- one entry of an allele's `mutations` list in the YAML database -/
inductive RawEntry
  | variant (pos1 : Int) (op : String) (rsid : String) (function : Option String)
  | geneOp (target : String) (op : String)        -- `[GENE, deletion]`, `[PSEUDO, e2+]`, `[GENE, deletion:e1,i1]`, group refs
  | ignored
deriving Repr

structure RawAllele where
  rawName : String
  label : Option String
  ignored : Bool
  entries : List RawEntry
deriving Repr

structure RawDb where
  name : String
  seq : List Char
  start : Int
  endP : Int
  strand : Int
  cigar : List CigOp
  genes : List String                               -- gene, pseudogenes
  regionCoords : List (String × List Int)           -- `structure.regions[genome]` in file order
  cnRegions : List String
  tandems : List (String × String)
  random : List RawEntry
  groups : List (String × List RawEntry)
  alleles : List RawAllele
deriving Repr

/-- `allele_name`: text after the first `*`, `/` -> `_` -/
def alleleName (x : String) : String :=
  let cs := x.toList
  let body := if cs.contains '*' then (cs.dropWhile (· != '*')).drop 1 else cs
  String.ofList (body.map fun c => if c == '/' then '_' else c)

/-! ### regions -/

structure Region where
  name : String
  start : Int
  stop : Int
deriving Repr, DecidableEq

def isExonName (n : String) : Bool :=
  match n.toList with
  | 'e' :: rest => !rest.isEmpty && rest.all isDig
  | _ => false

def regionLt (a b : Region) : Bool := a.start < b.start || (a.start == b.start && a.stop < b.stop)

/-- regions of gene `i` (0 = main gene): listed regions, derived introns, ordered along the
gene's strand -/
def regionsOf (db : RawDb) (i : Nat) : List Region :=
  let listed := db.regionCoords.map fun (n, co) => (⟨n, co.getD (2 * i) 0 - 1, co.getD (2 * i + 1) 0 - 1⟩ : Region)
  let nEx := (db.regionCoords.filter fun nc => isExonName nc.1).length
  let introns := ((List.range nEx).filter (· ≥ 1)).filter (· < nEx) |>.filterMap fun e =>
    match listed.find? (·.name == s!"e{e}"), listed.find? (·.name == s!"e{e + 1}") with
    | some a, some b =>
      let (x, y) := if db.strand > 0 then (a, b) else (b, a)
      some (⟨s!"i{e}", x.stop, y.start⟩ : Region)
    | _, _ => none
  -- an intron with the name of a listed region overwrites it (dict assignment)
  let all := (listed.filter fun r => !introns.any (·.name == r.name)) ++ introns
  let sorted := sortStable regionLt all
  if db.strand > 0 then sorted else sorted.reverse

def allRegions (db : RawDb) : List (List Region) := (List.range db.genes.length).map (regionsOf db)

/-- `region_at(pos)`: later genes/regions win where ranges overlap -/
def regionAtDb (regs : List (List Region)) (pos : Int) : Option (Nat × String) :=
  (regs.zipIdx.flatMap fun gi => gi.1.map fun r => (gi.2, r)).foldl
    (fun acc gr => if gr.2.start ≤ pos ∧ pos < gr.2.stop then some (gr.1, gr.2.name) else acc) none

/-! ### mutation intake -/

structure MutMeta where
  m : Mut
  function : Option String
  rsid : String
  pos0 : Int            -- converted 0-based RefSeq position
  origPos0 : Int        -- written position - 1
  origOp : String
deriving Repr

/-- `process_mutation` for a variant entry: loaded mutation and its metadata, `none` when the
position is unmapped, outside every named region or (when the loader checks it) the replaced bases
are not contiguous on the genome -/
def processVariant (db : RawDb) (maps : Maps) (regs : List (List Region)) (pos1 : Int) (op rsid : String)
    (function : Option String) : Option MutMeta :=
  let k := parseOp op.toList
  let (p, k') := if db.strand < 0 then convertRev pos1 k else (pos1, k)
  match maps.refToChr (p - 1) with
  | none => none
  | some g =>
    if (regionAtDb regs g).isNone then none
    else if Const.LOADER_CHECKS_CONTIGUITY && !spanContiguous maps (p - 1) g k' then none
    else some ⟨⟨g, String.ofList (renderOp k')⟩, function, rsid, p - 1, pos1 - 1, op⟩

/-- first-wins metadata table (`self.mutations.setdefault`) -/
def addMeta (tab : List MutMeta) (x : MutMeta) : List MutMeta :=
  if tab.any (fun t => t.m == x.m) then tab else tab ++ [x]

inductive Special
  | none | deletion | fusionLeft (brk : String) | fusionRight (brk : String) | custom (regions : List String)
deriving Repr, DecidableEq

structure ParsedAllele where
  name : String
  altName : Option String
  muts : List Mut
  special : Special
deriving Repr

def splitComma (s : String) : List String := s.splitOn ","

/-- walk the entries of one allele -/
def parseAllele (db : RawDb) (maps : Maps) (regs : List (List Region)) (groupNames : List String)
    (tab : List MutMeta) (a : RawAllele) : List MutMeta × ParsedAllele :=
  let name := alleleName a.rawName
  let isDel := a.entries.any fun e => match e with
    | .geneOp t o => t == db.name && o == "deletion"
    | _ => false
  let init : List MutMeta × List Mut × Special := (tab, [], if isDel then Special.deletion else Special.none)
  let res := if isDel then init else a.entries.foldl (fun (acc : List MutMeta × List Mut × Special) e =>
    match e with
    | .ignored => acc
    | .geneOp t o =>
      if t == db.name && groupNames.contains o then acc
      else if t == db.name && o.startsWith "deletion:" then (acc.1, acc.2.1, Special.custom (splitComma (o.drop 9).toString))
      else if (db.genes.drop 1).contains t then
        (if o.endsWith "-" then (acc.1, acc.2.1, Special.fusionLeft (o.dropEnd 1).toString)
         else (acc.1, acc.2.1, Special.fusionRight (if o.endsWith "+" then (o.dropEnd 1).toString else o)))
      else acc
    | .variant p o rs fn =>
      match processVariant db maps regs p o rs fn with
      | none => acc
      | some mm => (addMeta acc.1 mm, if acc.2.1.contains mm.m then acc.2.1 else acc.2.1 ++ [mm.m], acc.2.2)) init
  (res.1, ⟨name, a.label.map alleleName, res.2.1, res.2.2⟩)

/-! ### structural configurations -/

def rankOf (order : List String) (r : String) : Nat := (order.findIdx? (· == r)).getD 0

/-- `freezekey`: copy numbers in the order of region *names*, gene then pseudogene -/
def freezeKey (cn : List (List (String × Int))) : List Int :=
  cn.flatMap fun g => (sortStable (fun (a b : String × Int) => a.1 < b.1) g).map (·.2)

structure CfgAcc where
  configs : List CNConf            -- keyed by first allele name, in creation order
  inverse : List (List Int × String)

def addConfig (acc : CfgAcc) (a : String) (cn : List (List (String × Int))) (kind : CNKind) (desc : String) : CfgAcc :=
  let key := freezeKey cn
  match acc.inverse.lookup key with
  | some owner => { acc with configs := acc.configs.map fun c => if c.name == owner then { c with alleles := c.alleles ++ [a] } else c }
  | none => { configs := acc.configs ++ [⟨a, kind, cn, [a]⟩], inverse := acc.inverse ++ [(key, a)] }

def strMin (l : List String) : String := l.foldl (fun acc s => if s < acc then s else acc) (l.headD "")

/-- group items by key, keys in order of first appearance, members in order (Python:
`d = defaultdict(list/set); for x in items: d[key(x)].add(x)`) -/
def groupFold {κ α : Type} [DecidableEq κ] (key : α → κ) (items : List α) : List (κ × List α) :=
  items.foldl (fun acc x =>
    if acc.any (fun e => e.1 = key x) then acc.map fun e => if e.1 = key x then (e.1, e.2 ++ [x]) else e
    else acc ++ [(key x, [x])]) []

structure Catalogue where
  mutations : List MutMeta
  alleles : List MajorA
  cnConfigs : List CNConf
  removed : List (String × String)
  regions : List (List Region)
deriving Repr

def mutLtK (a b : Mut) : Bool := Mut.lt a b

def sortMuts (l : List Mut) : List Mut := sortStable mutLtK l

/-- natural order of names (natsort) -/
def natLt (a b : String) : Bool := keyLt (natKey a) (natKey b)

/-- minor alleles of one major allele with the same variant set are merged under the smallest name -/
def dedupMinors (majors : List MajorA) : List MajorA :=
  majors.map fun a =>
    let gs : List (List Mut × List String) := (groupFold (fun (s : MinorA) => s.neutral) a.minors).map fun g => (g.1, g.2.map (·.name))
    { a with minors := gs.map fun g =>
        let keep := strMin g.2
        { name := keep, altName := (a.minors.find? (·.name == keep)).bind (·.altName), neutral := g.1 } }

/-- One step of the unique-name assignment of `_init_alleles` (gene.py): the group takes the
prefix `n0` of its smallest member if that is free, else the fallback `fb` (label or full name);
if that is taken too, the name gets the suffix `:k` with `k` the incremented counter of that
name.  `used` is the dictionary `used_names` (name, counter). -/
def nameStep (used : List (String × Nat)) (n0 fb : String) : List (String × Nat) × String :=
  let n1 := if used.any (·.1 == n0) then fb else n0
  if used.any (·.1 == n1) then
    let k := ((used.lookup n1).getD 0) + 1
    let nn := n1 ++ ":" ++ toString k
    ((used.map fun e => if e.1 == n1 then (e.1, k) else e) ++ [(nn, 1)], nn)
  else (used ++ [(n1, 1)], n1)

/-- names given, in order, to groups described by (prefix, fallback) -/
def assignNames : List (String × String) → List (String × Nat) → List String
  | [], _ => []
  | c :: rest, used => (nameStep used c.1 c.2).2 :: assignNames rest (nameStep used c.1 c.2).1

def buildCatalogue (db : RawDb) : Catalogue :=
  let maps := mkMaps db.seq db.start db.endP db.strand db.cigar
  let regs := allRegions db
  let order := (regs.headD []).map (·.name)
  let pseudoRegs := regs.getD 1 []
  -- intake: random, groups, alleles (metadata is first-wins in this order)
  let tab0 := db.random.foldl (fun tab e => match e with
    | .variant p o rs fn => (match processVariant db maps regs p o rs fn with | some mm => addMeta tab mm | none => tab)
    | _ => tab) []
  let tab1 := db.groups.foldl (fun tab g => g.2.foldl (fun tab e => match e with
    | .variant p o rs fn => (match processVariant db maps regs p o rs fn with | some mm => addMeta tab mm | none => tab)
    | _ => tab) tab) tab0
  let groupNames := db.groups.map (·.1)
  let (tab, parsedRev) := (db.alleles.filter (!·.ignored)).foldl (fun (acc : List MutMeta × List ParsedAllele) a =>
    let r := parseAllele db maps regs groupNames acc.1 a
    (r.1, r.2 :: acc.2)) (tab1, [])
  -- a repeated allele name overwrites the earlier entry but keeps its position (dict assignment)
  let parsedAll := parsedRev.reverse
  let parsed := parsedAll.zipIdx.filterMap fun pi =>
    if (parsedAll.take pi.2).any (·.name == pi.1.name) then none
    else (parsedAll.reverse.find? (·.name == pi.1.name))
  let functional (m : Mut) : Bool := match tab.find? (·.m == m) with
    | some t => t.function.isSome
    | none => false
  -- configurations
  let lefts := parsed.filterMap fun a => match a.special with | .fusionLeft b => some (a.name, b) | _ => none
  let rights := parsed.filterMap fun a => match a.special with | .fusionRight b => some (a.name, b) | _ => none
  let customs := parsed.filterMap fun a => match a.special with | .custom rs => some (a.name, rs) | _ => none
  let delName := (parsed.reverse.find? fun a => a.special == .deletion).map (·.name)
  let acc0 : CfgAcc := ⟨[], []⟩
  let acc1 := lefts.foldl (fun acc ab =>
    addConfig acc ab.1 [order.map (fun r => (r, if rankOf order r ≥ rankOf order ab.2 then 1 else 0)),
                        pseudoRegs.map (fun r => (r.name, if rankOf order r.name < rankOf order ab.2 then 1 else 0))]
      .leftFusion "") acc0
  let acc2 : CfgAcc := match delName with
    | some d => { acc1 with configs := (acc1.configs.filter (·.name != d)) ++
        [⟨d, .deletion, [order.map (fun r => (r, 0))] ++ (if db.genes.length > 1 then [pseudoRegs.map fun r => (r.name, 1)] else []), [d]⟩] }
    | none => acc1
  let acc3 := rights.foldl (fun acc ab =>
    addConfig acc ab.1 [order.map (fun r => (r, if rankOf order r < rankOf order ab.2 then 1 else 0)),
                        pseudoRegs.map (fun r => (r.name, 1 + (if rankOf order r.name ≥ rankOf order ab.2 then 1 else 0)))]
      .rightFusion "") acc2
  let acc4 := customs.foldl (fun acc ab =>
    addConfig acc ab.1 ([order.map (fun r => (r, if ab.2.contains r then 0 else 1))] ++
                        (if regs.length > 1 then [pseudoRegs.map fun r => (r.name, 1)] else []))
      .custom "") acc3
  let used := acc4.configs.flatMap (·.alleles)
  let renamed := acc4.configs.map fun c => { c with name := strMin c.alleles }
  -- dict comprehension: equal keys keep the first position, the last value
  let renamedD := renamed.zipIdx.filterMap fun ci =>
    if (renamed.take ci.2).any (·.name == ci.1.name) then none else renamed.reverse.find? (·.name == ci.1.name)
  let hasPseudo := db.genes.length > 1
  let defaultCfg : CNConf := ⟨"1", .default,
    [order.map (fun r => (r, 1))] ++ (if hasPseudo then [pseudoRegs.map fun r => (r.name, 1)] else []),
    (parsed.map (·.name)).filter fun n => !used.contains n⟩
  let cfgs0 := if renamedD.any (·.name == "1") then renamedD.map (fun c => if c.name == "1" then defaultCfg else c)
               else renamedD ++ [defaultCfg]
  -- zero-length regions have copy number 0
  let zeroLen (gi : Nat) (r : String) : Bool :=
    match (regs.getD gi []).find? (·.name == r) with
    | some rg => decide (rg.stop - rg.start ≤ 0)
    | none => false
  let cfgs := cfgs0.map fun c => { c with cn := c.cn.zipIdx.map fun gi => gi.1.map fun (rv : String × Int) => (rv.1, bif zeroLen gi.2 rv.1 then (0 : Int) else rv.2) }
  -- grouping into majors
  let majorKey (a : ParsedAllele) : String × List Mut :=
    (((cfgs.find? fun c => c.alleles.contains a.name).map (·.name)).getD "?", sortMuts (a.muts.filter functional))
  let groups : List ((String × List Mut) × List String) :=
    (groupFold majorKey parsed).map fun g => (g.1, g.2.map (·.name))
  -- unique names (`assignNames`), then the configurations renamed along
  let candOf (g : (String × List Mut) × List String) : String × String :=
    let an := strMin g.2
    let alt := ((parsed.find? (·.name == an)).bind (·.altName))
    (String.ofList (an.toList.takeWhile (· != '.')), match alt with | some x => if x.isEmpty then an else x | none => an)
  let names := assignNames (groups.map candOf) []
  let named := (groups.zip names).foldl (fun (acc : List (((String × List Mut) × List String) × String) × List (String × String) × List CNConf) gn =>
    let (out, changed, cf) := acc
    let g := gn.1
    let n2 := gn.2
    let an := strMin g.2
    let (changed', cf') :=
      if cf.any (·.name == an) && an != n2 then
        (changed ++ [(an, n2)],
         -- `self.cn_configs[name] = self.cn_configs[an]; del self.cn_configs[an]`
         (let moved := (cf.find? (·.name == an)).map fun c => { c with name := n2 }
          let rest := cf.filter (·.name != an)
          match moved with
          | some c => if rest.any (·.name == n2) then rest.map (fun x => if x.name == n2 then c else x) else rest ++ [c]
          | none => rest))
      else (changed, cf)
    (out ++ [(g, n2)], changed', cf')) ([], [], cfgs)
  let (namedGroups, changed, cfgsN) := named
  let majors0 : List MajorA := namedGroups.map fun gn =>
    let key := gn.1.1
    { name := gn.2, cnConfig := (changed.lookup key.1).getD key.1, func := key.2,
      minors := (sortStable natLt gn.1.2).map fun sa =>
        let pa := parsed.find? (·.name == sa)
        { name := sa, altName := pa.bind (·.altName),
          neutral := sortMuts (((pa.map (·.muts)).getD []).filter fun m => !key.2.contains m) } }
  -- dict: equal major names overwrite (keep first position, last value)
  let majors1 := majors0.zipIdx.filterMap fun mi =>
    if (majors0.take mi.2).any (·.name == mi.1.name) then none else majors0.reverse.find? (·.name == mi.1.name)
  -- partial alleles for left fusions
  let cfgAt (f : String) (gi : Nat) (r : String) : Int :=
    (((cfgsN.find? (·.name == f)).map (·.cn)).getD []).getD gi [] |>.lookup r |>.getD 0
  let preserved (f : String) (ms : List Mut) : List Mut :=
    ms.filter fun m => match regionAtDb regs m.pos with
      | some (gi, r) => decide (cfgAt f gi r > 0)
      | none => false
  let leftFs := (cfgsN.filter (·.kind == .leftFusion)).map (·.name)
  let majors2 := leftFs.foldl (fun (als : List MajorA) f =>
    match als.find? (·.name == f) with
    | none => als
    | some fa =>
      if !fa.func.isEmpty then als
      else
        let add := als.foldl (fun (acc : List MajorA) a =>
          if a.cnConfig != "1" then acc
          else
            let newMuts := sortMuts (preserved f a.func)
            let newMinors := a.minors.map fun sa => ({ name := f ++ "#" ++ sa.name, altName := none, neutral := sortMuts (preserved f sa.neutral) } : MinorA)
            if acc.any (·.func == newMuts) then
              acc.map fun x => if x.func == newMuts then
                { x with minors := (x.minors.filter fun y => !newMinors.any (·.name == y.name)) ++ newMinors } else x
            else acc ++ [{ name := f ++ "#" ++ a.name, cnConfig := f, func := newMuts, minors := newMinors }]) []
        let rest := als.filter (·.name != f)
        add.foldl (fun r a => if r.any (·.name == a.name) then r.map (fun x => if x.name == a.name then a else x) else r ++ [a]) rest) majors1
  -- duplicate minors
  let removed := majors2.flatMap fun a =>
    let gs : List (List Mut × List String) := (groupFold (fun (s : MinorA) => s.neutral) a.minors).map fun g => (g.1, g.2.map (·.name))
    gs.flatMap fun g => if g.2.length > 1 then
      (g.2.filter fun s => s != strMin g.2 && !s.toList.contains '#').map fun s => (s, strMin g.2) else []
  let majors3 := dedupMinors majors2
  let cfgsF := cfgsN.map fun c => { c with alleles := (majors3.filter (·.cnConfig == c.name)).map (·.name) }
  { mutations := tab, alleles := majors3, cnConfigs := cfgsF, removed := removed, regions := regs }

end Aldy
