import Aldy.Generated.Constants
/-!
Model of the coordinate handling of `aldy/gene.py`:
* `mkMaps`        = RefSeq <-> genome maps from the alignment string (`_init_basic`, lines 407-427)
* `lookupSeq`     = genome-oriented lookup sequence (428-438) and `gene[pos]` (362-379)
* `convertMut`    = per-kind strand conversion of a database variant (`process_mutation`, 524-554)
* `reverseOp`     = `_reverse_op` (244-253)
* `applyRefseq` / `applyGenome` = what a variant *denotes* on the RefSeq / genome-oriented
  sequence: substitutions and deletions at `pos`; an insertion `(pos, insX)` lies **after**
  base `pos` (the anchoring `_realign_indels` hands to indelpost: anchor base `gene[pos]`).

No imports: used by the executable driver.  Sequences are `List Char`.
-/

namespace Aldy

def compBase (c : Char) : Char :=
  if c == 'A' then 'T' else if c == 'T' then 'A' else if c == 'C' then 'G' else if c == 'G' then 'C' else c

/-- `rev_comp` -/
def revComp (s : List Char) : List Char := (s.map compBase).reverse

inductive CigOp | M (n : Nat) | I (n : Nat) | D (n : Nat)
deriving Repr, DecidableEq

/-- walk the alignment string: list of `(genome pos, refseq pos)` pairs of the M blocks -/
def mkPairs (start : Int) (strand : Int) (seqLen : Nat) (cigar : List CigOp) : List (Int × Int) :=
  let rec go (posRef posChr : Int) : List CigOp → List (Int × Int)
    | [] => []
    | .M n :: rest =>
      ((List.range n).map fun (i : Nat) => (posChr + (i : Int), posRef + (i : Int) * strand)) ++
        go (posRef + (n : Int) * strand) (posChr + (n : Int)) rest
    | .I n :: rest => go (posRef + (n : Int) * strand) posChr rest
    | .D n :: rest => go posRef (posChr + (n : Int)) rest
  go (if strand > 0 then 0 else (seqLen : Int) - 1) (start - 1) cigar

structure Maps where
  pairs : List (Int × Int)          -- (genome, refseq)
  strand : Int
  lookupStart : Int
  lookupEnd : Int
  lookup : List Char

def Maps.chrToRef (m : Maps) (g : Int) : Option Int := (m.pairs.find? fun p => p.1 == g).map (·.2)
def Maps.refToChr (m : Maps) (r : Int) : Option Int := (m.pairs.find? fun p => p.2 == r).map (·.1)

/-- bases of the lookup sequence block by block (linear time): M blocks give the (complemented,
on the reverse strand) RefSeq bases, D blocks give `N` -/
def lookupBlocks (seq : List Char) (strand : Int) (cigar : List CigOp) : List Char :=
  let rec go (posRef : Int) : List CigOp → List Char
    | [] => []
    | .M n :: rest =>
      (if strand > 0 then (seq.drop posRef.toNat).take n
       else ((seq.take (posRef.toNat + 1)).reverse.take n).map compBase) ++
        go (posRef + (n : Int) * strand) rest
    | .I n :: rest => go (posRef + (n : Int) * strand) rest
    | .D n :: rest => List.replicate n 'N' ++ go posRef rest
  go (if strand > 0 then 0 else (seq.length : Int) - 1) cigar

/-- `_lookup_seq`: for every genome position of `[start-1, end-1)` the (complemented, when on
the reverse strand) RefSeq base, `N` where unmapped -/
def mkMaps (seq : List Char) (start endP : Int) (strand : Int) (cigar : List CigOp) : Maps :=
  let pairs := mkPairs start strand seq.length cigar
  let lo := start - 1
  let hi := endP - 1
  let n := (hi - lo).toNat
  let blocks := (lookupBlocks seq strand cigar).take n
  { pairs := pairs, strand := strand, lookupStart := lo, lookupEnd := hi,
    lookup := blocks ++ List.replicate (n - blocks.length) 'N' }

/-- `gene[i]` -/
def Maps.base (m : Maps) (i : Int) : Char :=
  if m.lookupStart ≤ i ∧ i < m.lookupEnd then m.lookup.getD (i - m.lookupStart).toNat 'N' else 'N'

/-! ### variants -/

inductive VKind
  | sub (l r : List Char)            -- `l>r` (dots = unchanged positions)
  | ins (x : List Char)
  | del (x : List Char)
  | delins (d i : List Char)
  | other
deriving Repr, DecidableEq

def splitOnStr (s : List Char) (pat : List Char) : Option (List Char × List Char) :=
  let rec go (pre : List Char) : List Char → Option (List Char × List Char)
    | [] => none
    | c :: cs => if (c :: cs).take pat.length == pat then some (pre.reverse, (c :: cs).drop pat.length) else go (c :: pre) cs
  go [] s

def parseOp (op : List Char) : VKind :=
  if op.contains '>' then
    match splitOnStr op ['>'] with
    | some (l, r) => .sub l r
    | none => .other
  else if op.take 3 == ['i', 'n', 's'] then .ins (op.drop 3)
  else if op.take 3 == ['d', 'e', 'l'] then
    match splitOnStr (op.drop 3) ['i', 'n', 's'] with
    | some (d, i) => .delins d i
    | none => .del (op.drop 3)
  else .other

def renderOp : VKind → List Char
  | .sub l r => l ++ ['>'] ++ r
  | .ins x => ['i', 'n', 's'] ++ x
  | .del x => ['d', 'e', 'l'] ++ x
  | .delins d i => ['d', 'e', 'l'] ++ d ++ ['i', 'n', 's'] ++ i
  | .other => []

/-- `process_mutation` for the reverse strand: new 1-based RefSeq position and operation -/
def convertRev (pos : Int) : VKind → Int × VKind
  | .sub l r => (pos + (l.length : Int) - 1, .sub (revComp l) (revComp r))
  | .ins x => (pos + 1, .ins (revComp x))
  | .delins d i => (pos + (d.length : Int) - 1, .delins (revComp d) (revComp i))
  | .del x => (pos + (x.length : Int) + 3 - 4, .del (revComp x))
  | .other => (pos, .other)

/-- number of reference bases a variant replaces -/
def spanLen : VKind → Nat
  | .sub l _ => l.length
  | .del x => x.length
  | .delins d _ => d.length
  | _ => 1

/-- `_is_contiguous`: the replaced RefSeq bases (walking with the strand from the 0-based RefSeq
position `r0` that maps to genome `g`) occupy consecutive genome positions -/
def spanContiguous (m : Maps) (r0 g : Int) (k : VKind) : Bool :=
  (List.range (spanLen k)).all fun (i : Nat) => m.refToChr (r0 + (i : Int) * m.strand) == some (g + (i : Int))

/-- the loaded variant: 0-based genome position and genome-strand operation; `none` when the
RefSeq position is not mapped -/
def convertMut (m : Maps) (pos1 : Int) (k : VKind) : Option (Int × VKind) :=
  let (p, k') := if m.strand < 0 then convertRev pos1 k else (pos1, k)
  (m.refToChr (p - 1)).bind fun g =>
    if Const.LOADER_CHECKS_CONTIGUITY && !spanContiguous m (p - 1) g k' then none else some (g, k')

/-- `_reverse_op` -/
def reverseOp : VKind → VKind
  | .sub l r => .sub (revComp l) (revComp r)
  | .ins x => .ins (revComp x)
  | .del x => .del (revComp x)
  | k => k

/-! ### what a variant denotes -/

/-- overwrite `s` from index `i` with `r`, keeping positions where `r` has a dot -/
def overlay (s : List Char) (i : Nat) (r : List Char) : List Char :=
  s.take i ++ ((r.zip ((s.drop i).take r.length)).map fun p => if p.1 == '.' then p.2 else p.1) ++ s.drop (i + r.length)

/-- apply to a sequence whose element 0 has coordinate `origin`; substitutions/deletions start
at `pos`, an insertion goes after the base at `pos` -/
def applyAt (s : List Char) (origin pos : Int) (k : VKind) : List Char :=
  let i := (pos - origin).toNat
  match k with
  | .sub _ r => overlay s i r
  | .ins x => s.take (i + 1) ++ x ++ s.drop (i + 1)
  | .del x => s.take i ++ s.drop (i + x.length)
  | .delins d x => s.take i ++ x ++ s.drop (i + d.length)
  | .other => s

/-- the variant as written in the database applied to the RefSeq sequence (1-based position) -/
def applyRefseq (seq : List Char) (pos1 : Int) (k : VKind) : List Char := applyAt seq 1 pos1 k

/-- the loaded variant applied to the genome-oriented lookup sequence -/
def applyGenome (m : Maps) (g : Int) (k : VKind) : List Char := applyAt m.lookup m.lookupStart g k

/-- the reference allele the variant claims, versus the sequence -/
def refMatches (s : List Char) (origin pos : Int) (k : VKind) : Bool :=
  let i := (pos - origin).toNat
  match k with
  | .sub l _ => ((l.zip ((s.drop i).take l.length)).all fun p => p.1 == '.' || p.1 == p.2) && decide (i + l.length ≤ s.length)
  | .del x => (s.drop i).take x.length == x
  | .delins d _ => (s.drop i).take d.length == d
  | _ => true

/-- orient a genome-oriented sequence to the gene's strand -/
def orient (strand : Int) (s : List Char) : List Char := if strand < 0 then revComp s else s

end Aldy
