import Aldy.Model.Ilp
import Aldy.Model.Coverage

/-!
Model of `aldy/minor.py: solve_minor_model` (lines 146-471): the refinement ILP
(allele copies tied to the major solution, keep/add selectors with their products, coverage
equations, rules 1-6, read-phase block, objective with construction-order tie-breaker and
novel-core penalty), and of the read-out (476-514).
-/

namespace Aldy

/-- a candidate minor allele with its definition (core ∪ silent variants) -/
structure MinorCand where
  major : String
  minor : String
  defMuts : List Mut
deriving Repr, DecidableEq

/-- slot = candidate × copy index -/
structure MSlot where
  major : String
  minor : String
  idx : Nat
deriving Repr, DecidableEq

inductive NVar
  | A (s : MSlot)
  | K (m : Mut) (s : MSlot)
  | MULK (m : Mut) (s : MSlot)
  | N (m : Mut) (s : MSlot)
  | MULN (m : Mut) (s : MSlot)
  | E (m : Mut)                      -- reference rows use op `_`
  | ABS (m : Mut)
  | VNEWOR (m : Mut)
  | PH (ai ri : Nat)
  | PH2 (ai ri i : Nat)
  | PH3 (ai ri i : Nat)
deriving DecidableEq, Repr

def slotSuffix (s : MSlot) : String := s!"{s.major}_{s.minor}_{s.idx}"

def minorEName (m : Mut) : String :=
  if m.op == "_" then s!"E_{m.pos}_REF" else s!"E_{m.pos}_{m.op}"

def NVar.rawName : NVar → String
  | .A s => s!"A_{slotSuffix s}"
  | .K m s => s!"K_{m.pos}_{m.op}_{slotSuffix s}"
  | .MULK m s => s!"MUL_K_{m.pos}_{m.op}_{slotSuffix s}"
  | .N m s => s!"N_{m.pos}_{m.op}_{slotSuffix s}"
  | .MULN m s => s!"MUL_N_{m.pos}_{m.op}_{slotSuffix s}"
  | .E m => minorEName m
  | .ABS m => s!"ABS_{escapeBase (minorEName m)}"
  | .VNEWOR m => s!"VNEWOR_{m.pos}_{m.op}"
  | .PH ai ri => s!"PH_{ai}_{ri}"
  | .PH2 ai ri i => s!"PHASE2_{ai}_{ri}_{i}"
  | .PH3 ai ri i => s!"PHASE3_{ai}_{ri}_{i}"

def NVar.name (v : NVar) : String := escapeBase v.rawName

/-- insertion into a list sorted by Python's tuple order -/
def insertMut (x : Mut) : List Mut → List Mut
  | [] => [x]
  | y :: ys => if x.lt y then x :: y :: ys else y :: insertMut x ys

/-- the order in which `solve_minor_model` walks the considered variants: `sorted(mutations)` when
the source sorts them (`Const.MINOR_MUTATIONS_SORTED`, regenerated), else the caller's order -/
def constructionOrder (muts : List Mut) : List Mut :=
  if Const.MINOR_MUTATIONS_SORTED then muts.foldl (fun acc x => insertMut x acc) [] else muts

structure MinorInst where
  gene : GeneView
  cov : Cov                                   -- filtered coverage handed to `solve_minor_model`
  cn : CNSol
  majorSol : List (String × Nat)              -- called major alleles with multiplicity
  cands : List MinorCand                      -- `alleles_list` (distinct), in order
  mutations : List Mut                        -- considered variants in the iteration order used
  minorMiss : Rat
  minorAdd : Rat
  minorPhase : Rat
  phases : List (List (Int × String) × Nat)   -- distinct phase patterns with multiplicity (after down-sampling)

namespace MinorInst

def count (I : MinorInst) (major : String) : Nat := (I.majorSol.lookup major).getD 0

/-- slots in dictionary order: copy 0 of every candidate first, then the extra copies
`1 .. count-1` candidate by candidate -/
def slots (I : MinorInst) : List (MinorCand × MSlot) :=
  I.cands.map (fun c => (c, (⟨c.major, c.minor, 0⟩ : MSlot))) ++
  I.cands.flatMap fun c =>
    ((List.range (I.count c.major)).filter (· ≥ 1)).map fun i => (c, (⟨c.major, c.minor, i⟩ : MSlot))

def hasCov (I : MinorInst) (c : MinorCand) (pos : Int) : Bool := I.gene.hasCoverage c.major pos

/-- variants that can be *added* to a slot: considered, the allele has copies there, not in its definition -/
def newMuts (I : MinorInst) (c : MinorCand) : List Mut :=
  I.mutations.filter fun m => I.hasCov c m.pos && !c.defMuts.contains m

def positions (I : MinorInst) : List Int := (I.mutations.map (·.pos)).eraseDups

def refMut' (pos : Int) : Mut := ⟨pos, "_"⟩

def eqc (terms : List (Rat × NVar)) (rhs : Rat) : List (LinCon NVar) := [⟨terms, .ge, rhs⟩, ⟨terms, .le, rhs⟩]

def one (v : NVar) : Rat × NVar := (1, v)
def neg (v : NVar) : Rat × NVar := (-1, v)

def consCORD (I : MinorInst) : List (LinCon NVar) :=
  (I.slots.filter fun cs => cs.2.idx > 0).map fun cs => leVar (.A cs.2) (.A { cs.2 with idx := cs.2.idx - 1 })

def consCCNT (I : MinorInst) : List (LinCon NVar) :=
  (I.majorSol.flatMap fun mc =>
    let vs := (I.slots.filter fun cs => cs.1.major == mc.1).map fun cs => one (.A cs.2)
    [⟨vs, .le, (mc.2 : Rat)⟩, ⟨vs, .ge, (mc.2 : Rat)⟩]) ++
  [⟨I.slots.map (fun cs => one (.A cs.2)), .le, ((I.majorSol.map (·.2)).sum : Nat)⟩]

/-- products: only for considered variants -/
def consPROD (I : MinorInst) : List (LinCon NVar) :=
  I.mutations.flatMap fun m => I.slots.flatMap fun cs =>
    if cs.1.defMuts.contains m then prodCons (.MULK m cs.2) [.A cs.2, .K m cs.2]
    else if I.hasCov cs.1 m.pos then prodCons (.MULN m cs.2) [.A cs.2, .N m cs.2]
    else []

def varTerms (I : MinorInst) (m : Mut) : List (Rat × NVar) :=
  I.slots.filterMap fun cs =>
    if cs.1.defMuts.contains m then some (one (.MULK m cs.2))
    else if I.hasCov cs.1 m.pos then some (one (.MULN m cs.2))
    else none

def presentAt (c : MinorCand) (pos : Int) : List Mut := c.defMuts.filter fun m => m.pos == pos && !m.isIns

def newAt (I : MinorInst) (c : MinorCand) (pos : Int) : List Mut := (I.newMuts c).filter fun m => m.pos == pos && !m.isIns

def refTerms (I : MinorInst) (pos : Int) : List (Rat × NVar) :=
  I.slots.flatMap fun cs =>
    if !I.hasCov cs.1 pos then []
    else match presentAt cs.1 pos with
      | p :: _ => [one (.A cs.2), neg (.MULK p cs.2)] ++ (I.newAt cs.1 pos).map fun m => neg (.MULN m cs.2)
      | [] => one (.A cs.2) :: (I.newAt cs.1 pos).map fun m => neg (.MULN m cs.2)

def consCONE (I : MinorInst) : List (LinCon NVar) :=
  I.positions.flatMap fun pos => I.slots.filterMap fun cs =>
    if I.hasCov cs.1 pos && (presentAt cs.1 pos).isEmpty then
      some ⟨(I.newAt cs.1 pos).map fun m => one (.N m cs.2), .le, 1⟩
    else none

def observed (I : MinorInst) (m : Mut) : Rat :=
  let sc := I.cov.singleCopy I.gene I.cn m
  if sc > 0 then I.cov.coverage m / sc else 0

def consCCOV (I : MinorInst) : List (LinCon NVar) :=
  (I.mutations.flatMap fun m => eqc (I.varTerms m ++ [one (.E m)]) (I.observed m)) ++
  (I.positions.flatMap fun pos => eqc (I.refTerms pos ++ [one (.E (refMut' pos))]) (I.observed (refMut' pos)))

def consRULE1 (I : MinorInst) : List (LinCon NVar) :=
  (I.slots.flatMap fun cs => cs.1.defMuts.map fun m => leVar (.K m cs.2) (.A cs.2)) ++
  (I.slots.flatMap fun cs => (I.newMuts cs.1).map fun m => leVar (.N m cs.2) (.A cs.2))

def consRULE2 (I : MinorInst) : List (LinCon NVar) :=
  I.slots.flatMap fun cs => (cs.1.defMuts.filter I.gene.isFunctional).map fun m =>
    (⟨[one (.K m cs.2), neg (.A cs.2)], .ge, 0⟩ : LinCon NVar)

def consRULE3 (I : MinorInst) : List (LinCon NVar) :=
  I.slots.flatMap fun cs => (cs.1.defMuts.filter fun m => !I.hasCov cs.1 m.pos).map fun m =>
    (⟨[one (.K m cs.2)], .le, 0⟩ : LinCon NVar)

def keptAt (c : MinorCand) (pos : Int) : List Mut := c.defMuts.filter fun m => m.pos == pos
def addAt (I : MinorInst) (c : MinorCand) (pos : Int) : List Mut := (I.newMuts c).filter fun m => m.pos == pos

def consRULE4 (I : MinorInst) : List (LinCon NVar) :=
  I.positions.flatMap fun pos => I.slots.flatMap fun cs =>
    let mp := (keptAt cs.1 pos).map fun m => one (.MULK m cs.2)
    let ma := (I.addAt cs.1 pos).map fun m => one (.MULN m cs.2)
    (if ma.length > 1 then [(⟨ma, .le, 1⟩ : LinCon NVar)] else []) ++
    (if ma.length + mp.length > 1 then [(⟨mp ++ ma, .le, 1⟩ : LinCon NVar)] else [])

def carrierTerms (I : MinorInst) (m : Mut) : List (Rat × NVar) :=
  (I.slots.filterMap fun cs => if cs.1.defMuts.contains m then some (one (.MULK m cs.2)) else none) ++
  (I.slots.filterMap fun cs => if (I.newMuts cs.1).contains m then some (one (.MULN m cs.2)) else none)

def consRULE5 (I : MinorInst) : List (LinCon NVar) :=
  I.mutations.flatMap fun m =>
    if I.cn.positionCn I.gene m.pos == 0 || I.cov.coverage m == 0 then [⟨I.carrierTerms m, .le, 0⟩]
    else [⟨I.carrierTerms m, .le, I.cov.coverage m⟩, ⟨I.carrierTerms m, .ge, 1⟩]

/-- rule 6, per slot: number of kept / addable variants at the site and the terms
`len * A - sum(kept and added products)` -/
def rule6Per (I : MinorInst) (pos : Int) : List (Nat × List (Rat × NVar)) :=
  I.slots.map fun cs =>
    let e := (keptAt cs.1 pos).map (fun m => NVar.MULK m cs.2) ++ (I.addAt cs.1 pos).map (fun m => NVar.MULN m cs.2)
    (e.length, ((e.length : Rat), NVar.A cs.2) :: e.map neg)

/-- rule 6, right-hand side: 0 without copies at the site, else `max(max(copies, reference reads), most variants of a slot)` -/
def rule6Rhs (I : MinorInst) (pos : Int) : Rat :=
  let maxMut : Nat := (I.rule6Per pos).foldl (fun acc p => if p.1 > acc then p.1 else acc) 0
  let pc := I.cn.positionCn I.gene pos
  if pc == 0 then 0
  else
    let c := I.cov.coverage (refMut' pos)
    let b : Rat := if (pc : Rat) ≥ c then (pc : Rat) else c
    if b ≥ (maxMut : Rat) then b else (maxMut : Rat)

def consRULE6 (I : MinorInst) : List (LinCon NVar) :=
  if I.slots.isEmpty then [] else
  I.positions.map fun pos => ⟨(I.rule6Per pos).flatMap (·.2), .le, I.rule6Rhs pos⟩

/-! ### phase block -/

/-- selectors of slot `cs` that agree (`pos`) / disagree (`neg`) with a phase pattern -/
def phaseSel (I : MinorInst) (cs : MinorCand × MSlot) (r : List (Int × String)) : List NVar × List NVar :=
  I.mutations.foldl (fun (acc : List NVar × List NVar) m =>
    match r.lookup m.pos with
    | none => acc
    | some o =>
      if !I.hasCov cs.1 m.pos then acc
      else
        let v? : Option NVar :=
          if cs.1.defMuts.contains m then some (.K m cs.2)
          else if (I.newMuts cs.1).contains m then some (.N m cs.2) else none
        match v? with
        | none => acc
        | some v => if m.op == o then (acc.1 ++ [v], acc.2) else (acc.1, acc.2 ++ [v])) ([], [])

structure PhaseCell where
  ai : Nat
  ri : Nat
  slot : MSlot
  pos : List NVar
  neg : List NVar
  cnt : Nat

def phaseCells (I : MinorInst) : List PhaseCell :=
  (I.phases.zipIdx).flatMap fun rc => (I.slots.zipIdx).filterMap fun ca =>
    let sel := I.phaseSel ca.1 rc.1.1
    if sel.1.length + sel.2.length > 1 then some ⟨ca.2, rc.2, ca.1.2, sel.1, sel.2, rc.1.2⟩ else none

def consPHASE (I : MinorInst) : List (LinCon NVar) :=
  let cells := I.phaseCells
  (cells.flatMap fun c =>
    leVar (.PH c.ai c.ri) (.A c.slot) ::
    ((c.pos.zipIdx).flatMap fun vi => prodCons (.PH2 c.ai c.ri vi.2) [.PH c.ai c.ri, vi.1]) ++
    ((c.neg.zipIdx).flatMap fun vi => prodCons (.PH3 c.ai c.ri vi.2) [.PH c.ai c.ri, vi.1])) ++
  ((List.range I.phases.length).flatMap fun ri =>
    let vs := (cells.filter (·.ri == ri)).map fun c => one (.PH c.ai c.ri)
    if vs.isEmpty then [] else [⟨vs, .le, 1⟩, ⟨vs, .ge, 1⟩])

def phaseObj (I : MinorInst) : List (Rat × NVar) :=
  I.phaseCells.flatMap fun c =>
    ((c.pos.zipIdx).flatMap fun vi => [(I.minorPhase * (c.cnt : Rat), NVar.PH c.ai c.ri), (-(I.minorPhase * (c.cnt : Rat)), NVar.PH2 c.ai c.ri vi.2)]) ++
    ((c.neg.zipIdx).map fun vi => (I.minorPhase * (c.cnt : Rat), NVar.PH3 c.ai c.ri vi.2))

/-! ### objective -/

def errRows (I : MinorInst) : List Mut := I.mutations ++ I.positions.map refMut'

def consABS (I : MinorInst) : List (LinCon NVar) := I.errRows.flatMap fun m => absCons (.ABS m) (.E m)

/-- all add selectors in construction order (slot by slot, variants in iteration order) -/
def newSelectors (I : MinorInst) : List (Mut × MSlot) :=
  I.slots.flatMap fun cs => (I.newMuts cs.1).map fun m => (m, cs.2)

/-- add selectors of a functional variant that is not a core variant of the slot's major allele -/
def novelCoreSel (I : MinorInst) (m : Mut) : List NVar :=
  I.slots.filterMap fun cs =>
    if (I.newMuts cs.1).contains m && I.gene.isFunctional m &&
       !(((I.gene.allele? cs.1.major).map (·.func)).getD []).contains m then some (.N m cs.2) else none

def novelMuts (I : MinorInst) : List Mut := I.mutations.filter fun m => !(I.novelCoreSel m).isEmpty

def consVNEWOR (I : MinorInst) : List (LinCon NVar) :=
  I.novelMuts.flatMap fun m => orCons (.VNEWOR m) (I.novelCoreSel m)

def build (I : MinorInst) : Ilp NVar where
  vars :=
    I.slots.map (fun cs => (NVar.A cs.2, Kind.bin)) ++
    I.slots.flatMap (fun cs => cs.1.defMuts.flatMap fun m => [(NVar.K m cs.2, Kind.bin), (NVar.MULK m cs.2, Kind.bin)]) ++
    I.slots.flatMap (fun cs => (I.newMuts cs.1).flatMap fun m => [(NVar.N m cs.2, Kind.bin), (NVar.MULN m cs.2, Kind.bin)]) ++
    I.errRows.map (fun m => (NVar.E m, Kind.cont none none)) ++
    I.errRows.map (fun m => (NVar.ABS m, Kind.cont (some 0) none)) ++
    I.novelMuts.map (fun m => (NVar.VNEWOR m, Kind.bin)) ++
    I.phaseCells.flatMap (fun c =>
      (NVar.PH c.ai c.ri, Kind.bin) :: ((c.pos.zipIdx).map fun vi => (NVar.PH2 c.ai c.ri vi.2, Kind.bin)) ++
        ((c.neg.zipIdx).map fun vi => (NVar.PH3 c.ai c.ri vi.2, Kind.bin)))
  cons := I.consCORD ++ I.consCCNT ++ I.consPROD ++ I.consCONE ++ I.consCCOV ++ I.consRULE1 ++ I.consRULE2 ++
    I.consRULE3 ++ I.consRULE4 ++ I.consRULE5 ++ I.consRULE6 ++ I.consPHASE ++ I.consABS ++ I.consVNEWOR
  obj :=
    I.errRows.map (fun m => ((1 : Rat), NVar.ABS m)) ++
    I.slots.map (fun cs => (I.minorMiss * (cs.1.defMuts.length : Rat), NVar.A cs.2)) ++
    I.slots.flatMap (fun cs => cs.1.defMuts.map fun m => (-I.minorMiss, NVar.MULK m cs.2)) ++
    (I.newSelectors.zipIdx.map fun e => (I.minorAdd * (1 + (e.2 : Rat) / Const.MINOR_TIEBREAK_DIV), NVar.N e.1.1 e.1.2)) ++
    I.novelMuts.map (fun m => (I.minorAdd / Const.MINOR_NOVEL_DIV, NVar.VNEWOR m)) ++
    I.phaseObj

end MinorInst

end Aldy

namespace Aldy

/-! ### phase patterns (`modes`) and their down-sampling (minor.py 371-392) -/

def insertPair (x : Int × String) : List (Int × String) → List (Int × String)
  | [] => [x]
  | y :: ys => if x.1 < y.1 || (x.1 == y.1 && x.2 < y.2) then x :: y :: ys else y :: insertPair x ys

def sortPairs (l : List (Int × String)) : List (Int × String) := l.foldr insertPair []

/-- distinct patterns (restricted to considered positions, at least two sites) with counts,
in order of first appearance -/
def phaseModes (mutPos : List Int) (frags : List (List (Int × String))) : List (List (Int × String) × Nat) :=
  frags.foldl (fun acc rv =>
    let c := sortPairs (rv.filter fun kv => mutPos.contains kv.1)
    if c.length > 1 then
      (if acc.any (fun e => e.1 == c) then acc.map fun e => if e.1 == c then (e.1, e.2 + 1) else e else acc ++ [(c, 1)])
    else acc) []

/-- keep every `int(skip)`-th pattern when there are more than `minor_phase_vars / #slots` -/
def downsample (modes : List (List (Int × String) × Nat)) (nSlots : Nat) (phaseVars : Rat) :
    List (List (Int × String) × Nat) :=
  let n : Rat := modes.length
  if n * (nSlots : Rat) > phaseVars then
    let maxSample := n * (phaseVars / (n * (nSlots : Rat)))
    let skip := n / maxSample
    if maxSample < n then
      let step := skip.floor.toNat
      if step == 0 then modes else (modes.zipIdx.filter fun e => e.2 % step == 0).map (·.1)
    else modes
  else modes

/-! ### read-out (minor.py 476-514) -/

structure CalledMinor where
  major : String
  minor : String
  added : List Mut
  missing : List Mut
deriving Repr, DecidableEq

/-- one called allele per active slot: lost = definition variants whose keep selector is 0;
added = set add selectors, plus (homozygous hack) every addable variant whose observed copy
number equals the total copy number -/
def readOut (I : MinorInst) (active : NVar → Bool) : List CalledMinor :=
  I.slots.filterMap fun cs =>
    if !active (.A cs.2) then none
    else
      let missing := cs.1.defMuts.filter fun m => !active (.K m cs.2)
      let added := (I.newMuts cs.1).filter fun m =>
        active (.N m cs.2) ||
        (let d := I.observed m - (I.cn.maxCn : Rat)
         decide ((if d < 0 then -d else d) ≤ Const.MINOR_HOMOZYGOUS_TOL))
      some ⟨cs.1.major, cs.1.minor, added, missing⟩

end Aldy
