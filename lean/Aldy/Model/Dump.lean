import Aldy.Model.Minor

/-!
Model of the debug dump of `aldy/sam.py`: `_dump_alignments` (427-444) compresses the
observation list of every site into a counter; `_load_dump` (297-334) expands it again; the
phase table keeps only fragments with more than one site and renames them.
-/

namespace Aldy

/-- `Counter(l)`: distinct observations with multiplicity, in order of first appearance -/
def compressObs (l : List Obs) : List (Obs × Nat) :=
  l.foldl (fun acc o =>
    if acc.any (fun e => e.1 == o) then acc.map fun e => if e.1 == o then (e.1, e.2 + 1) else e
    else acc ++ [(o, 1)]) []

/-- `[q for q, n in c.items() for _ in range(n)]` -/
def expandObs (c : List (Obs × Nat)) : List Obs := c.flatMap fun e => List.replicate e.2 e.1

/-- phase records written to the dump -/
def dumpPhases (frags : List (List (Int × String))) : List (List (Int × String)) := frags.filter fun v => v.length > 1

end Aldy
