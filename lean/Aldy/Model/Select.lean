import Aldy.Generated.Constants
import Aldy.Model.Diplotype

/-!
Model of the solution selection in `aldy/genotype.py` (lines 237-335) together with the score
carry of `aldy/minor.py: estimate_minor` (lines 89-110).

A candidate is reduced to what the selection reads: its score, its `_solution_nice()` string
(second sort key) and the index of the candidate it was derived from.
-/

namespace Aldy
open Const

structure Cand where
  score : Rat
  nice : String
  parent : Nat := 0
deriving Repr, DecidableEq

/-- `int(1000 * score)`: truncation towards zero -/
def truncKey (q : Rat) : Int := if q ≥ 0 then (SORT_SCALE * q).floor else -((-(SORT_SCALE * q)).floor)

/-- sort key `(int(1000 * score), nice)` compared as a Python tuple -/
def candLt (a b : Cand) : Bool :=
  truncKey a.score < truncKey b.score || (truncKey a.score == truncKey b.score && a.nice < b.nice)

def minScore (cs : List Cand) : Option Rat :=
  cs.foldl (fun acc c => match acc with
    | none => some c.score
    | some m => some (if c.score < m then c.score else m)) none

/-- keep the candidates within `gap + precision` of the best, sorted by the key -/
def selectStage (cs : List Cand) (gap : Rat) : List Cand :=
  match minScore cs with
  | none => []
  | some m => sortStable candLt (cs.filter fun c => decide (c.score - m - gap < SOLUTION_PRECISION))

inductive SelErr | noStructures | noMajor | noMinor
deriving Repr, DecidableEq

/-- structure stage: sorted (no filtering) -/
def sortStructures (cn : List Cand) : List Cand := sortStable candLt cn

/-- major stage: every major candidate inherits `cn.score - min_cn_score` of its structure -/
def carryMajor (cnSorted : List Cand) (majors : List (List Cand)) : List Cand :=
  match minScore cnSorted with
  | none => []
  | some mcn =>
    (cnSorted.zip majors).zipIdx.flatMap fun e =>
      e.1.2.map fun m => { m with score := m.score + (e.1.1.score - mcn), parent := e.2 }

/-- `estimate_minor`: every refined candidate inherits `major.score - min(major scores)` -/
def carryMinorStage (majorsSel : List Cand) (minorRaw : Cand) : Rat :=
  match minScore majorsSel with
  | none => minorRaw.score
  | some mm => minorRaw.score + ((majorsSel.getD minorRaw.parent ⟨0, "", 0⟩).score - mm)

/-- `genotype`: rescale by the structure score `(cn.score + SLACK) / (min_cn + SLACK)` -/
def rescaleMinor (cnSorted : List Cand) (majorsSel : List Cand) (m : Cand) : Rat :=
  match minScore cnSorted with
  | none => m.score
  | some mcn =>
    let maj := majorsSel.getD m.parent ⟨0, "", 0⟩
    let cn := cnSorted.getD maj.parent ⟨0, "", 0⟩
    m.score * ((cn.score + SLACK) / (mcn + SLACK))

end Aldy
