import Aldy.Model.Gene
import Aldy.Model.Diplotype

/-!
Model of `aldy/diplotype.py: write_decomposition` (lines 38-98) and `write_vcf` (lines 101-210),
*as written* - including the shared per-variant table of the VCF writer
(`[collections.defaultdict(int)] * len(minors)` is one dict object referenced n times), the
REF/ALT spelling of indels and the fact that `missing` variants are not subtracted there.
-/

namespace Aldy

/-- one called copy of a solution -/
structure CopyV where
  major : String
  minor : String
  defMuts : List Mut          -- func_muts ∪ neutral_muts of (major, minor)
  added : List Mut
  missing : List Mut
deriving Repr

structure SolV where
  copies : List CopyV
  diplotype : String          -- `get_major_diplotype().replace(" ", "")`
deriving Repr

/-- per-variant strings the writers print (computed by the gene / coverage objects) -/
structure MutText where
  m : Mut
  cov : String                -- `str(coverage[m])`
  effect : String             -- `gene.get_functional(m, False)` or "none" (decomposition)
  effectVcf : String          -- `gene.get_functional(m)` sanitised, or "none" (VCF)
  rsid : String               -- `gene.get_rsid(m, default=False)`
deriving Repr

def mutLe (a b : Mut) : Bool := a.pos < b.pos || (a.pos == b.pos && a.op ≤ b.op)

/-- remove repeated entries (Python `set`) -/
def dedupM : List Mut → List Mut
  | [] => []
  | x :: xs => if x ∈ xs then dedupM xs else x :: dedupM xs

/-- `sorted(set(l))` -/
def sortDedup (l : List Mut) : List Mut := sortStable Mut.lt (dedupM l)

/-- variants a copy is reported to carry: definition ∪ added − missing -/
def CopyV.carried (c : CopyV) : List Mut :=
  sortDedup ((c.defMuts ++ c.added).filter fun m => decide (m ∉ c.missing))

/-- variants the VCF writer marks for a copy: definition ∪ added (missing not subtracted) -/
def CopyV.marked (c : CopyV) : List Mut := sortDedup (c.defMuts ++ c.added)

def textOf (tab : List MutText) (m : Mut) : MutText :=
  (tab.find? fun t => t.m == m).getD ⟨m, "0", "none", "none", "-"⟩

/-- rows of the decomposition for one solution (fields in output order) -/
def decompRows (sample gene : String) (solId : Nat) (tab : List MutText) (s : SolV) : List (List String) :=
  let minors := String.intercalate ";" ((s.copies.map (·.minor)).filter (· != ""))
  (s.copies.zipIdx).flatMap fun ci =>
    let c := ci.1
    let ms := c.carried
    if ms.isEmpty then
      [[sample, gene, toString solId, s.diplotype, minors, toString ci.2, c.minor, "", "", "", "", "", "", ""]]
    else
      ms.map fun m =>
        let t := textOf tab m
        [sample, gene, toString solId, s.diplotype, minors, toString ci.2, c.minor,
         toString m.pos, m.op, t.cov, t.effect, t.rsid, ""]

def renderRows (rows : List (List String)) : List String := rows.map (String.intercalate "\t")

/-- read-back of decomposition rows: per copy index the minor name and the listed variants -/
def parseRows (rows : List (List String)) (nCopies : Nat) : List (String × List (String × String)) :=
  (List.range nCopies).map fun i =>
    let mine := rows.filter fun r => r.getD 5 "" == toString i
    ((mine.headD []).getD 6 "",
     (mine.filter fun r => r.getD 7 "" != "").map fun r => (r.getD 7 "", r.getD 8 ""))

/-! ### VCF -/

/-- all variants of all solutions, sorted -/
def vcfMuts (sols : List SolV) : List Mut :=
  sortDedup (sols.flatMap fun s => s.copies.flatMap fun c => c.defMuts ++ c.added)

/-- the shared table: entry `ai` of variant `m` is 1 as soon as copy `ai` of *any* solution is
marked with `m` -/
def vcfCell (sols : List SolV) (m : Mut) (ai : Nat) : Bool :=
  sols.any fun s => match s.copies[ai]? with
    | some c => decide (m ∈ c.marked)
    | none => false

/-- what the property asks for: copy `ai` of solution `s` is reported to carry `m` -/
def vcfCellSpec (s : SolV) (m : Mut) (ai : Nat) : Bool :=
  match s.copies[ai]? with
  | some c => decide (m ∈ c.carried)
  | none => false

/-- REF / ALT as the writer spells them -/
def vcfRefAlt (m : Mut) : String × String :=
  let op := m.op.toList
  let ref := String.ofList (op.take 1)
  if op.getD 1 ' ' == '>' then (ref, String.ofList ((op.drop 2).take 1))
  else if opIsIns m.op then (ref, ref ++ String.ofList (op.drop 3))
  else (".", String.ofList (op.drop 3) ++ ", .")

structure VcfRec where
  pos1 : Int                   -- one-based position
  id : String
  ref : String
  alt : String
  effect : String
  cells : List (String × String × String × String)    -- per solution: GT, DP, MA, MI
deriving Repr, DecidableEq

def vcfRecords (tab : List MutText) (sols : List SolV) : List VcfRec :=
  (vcfMuts sols).map fun m =>
    let t := textOf tab m
    let ra := vcfRefAlt m
    { pos1 := m.pos + 1, id := t.rsid, ref := ra.1, alt := ra.2, effect := t.effectVcf,
      cells := sols.map fun s =>
        let n := s.copies.length
        let bits := (List.range n).map fun i => vcfCell sols m i
        (String.intercalate "|" (bits.map fun b => if b then "1" else "0"),
         t.cov,
         String.intercalate "," ((List.range n).map fun i => if vcfCell sols m i then "*" ++ (s.copies.getD i ⟨"", "", [], [], []⟩).major else "-"),
         String.intercalate "," ((List.range n).map fun i => if vcfCell sols m i then "*" ++ (s.copies.getD i ⟨"", "", [], [], []⟩).minor else "-")) }

end Aldy
