import Aldy.Model.Ilp
import Aldy.Model.Enumerate

/-!
"Aldy-shaped" models: binaries, error rows `expr + E = target` whose error enters the
objective through `abssum`, pure-binary side constraints, product gadgets and a linear
objective part.  All three stage models of aldy are of this shape.  This file gives

* `Shape.toIlp`   : the encoded model exactly as the CBC wrapper receives it, and
* `Shape.points`  : the semantic view (feasible binary assignments with their closed-form
                    objective) obtained by eliminating `E_i` and `ABS_E_i`,

used by the C05 correspondence (the harness builds the same `Shape` through the real
`aldy.lpinterface.CBC` API).
-/

namespace Aldy

structure Row (V : Type) where
  terms : List (Rat × V)
  target : Rat
  weight : Rat
  bound : Option Rat          -- `E ∈ [-B, B]`, or free (`±INF`)
deriving Repr

structure Shape (V : Type) where
  bins : List V
  rows : List (Row V)
  cons : List (LinCon V)
  prods : List (V × List V)
  lin : List (Rat × V)
  ints : List (V × Nat) := []     -- general integers `0 .. ub` (not part of a yielded assignment)

/-- Variables of the encoded model. -/
inductive SVar (V : Type)
  | b (v : V)
  | e (i : Nat)
  | a (i : Nat)
deriving DecidableEq, Repr

variable {V : Type} [DecidableEq V]

def liftTerms (ts : List (Rat × V)) : List (Rat × SVar V) := ts.map fun t => (t.1, SVar.b t.2)

def liftCon (c : LinCon V) : LinCon (SVar V) := ⟨liftTerms c.terms, c.sense, c.rhs⟩

/-- `expr + E_i <= target`, `expr + E_i >= target`. -/
def rowCons (i : Nat) (r : Row V) : List (LinCon (SVar V)) :=
  [⟨liftTerms r.terms ++ [(1, SVar.e i)], .le, r.target⟩,
   ⟨liftTerms r.terms ++ [(1, SVar.e i)], .ge, r.target⟩]

def Shape.toIlp (s : Shape V) : Ilp (SVar V) where
  vars :=
    s.bins.map (fun v => (SVar.b v, Kind.bin)) ++
    s.ints.map (fun vu => (SVar.b vu.1, Kind.int vu.2)) ++
    s.rows.zipIdx.map (fun ri => (SVar.e ri.2, Kind.cont (ri.1.bound.map (fun b => -b)) ri.1.bound)) ++
    s.rows.zipIdx.map (fun ri => (SVar.a ri.2, Kind.cont (some 0) none))
  cons :=
    s.rows.zipIdx.flatMap (fun ri => rowCons ri.2 ri.1) ++
    s.cons.map liftCon ++
    s.prods.flatMap (fun p => prodCons (SVar.b p.1) (p.2.map SVar.b)) ++
    s.rows.zipIdx.flatMap (fun ri => absCons (SVar.a ri.2) (SVar.e ri.2))
  obj :=
    s.rows.zipIdx.map (fun ri => (ri.1.weight, SVar.a ri.2)) ++ liftTerms s.lin

/-! ### Semantic view -/

/-- Value of a binary under the assignment "exactly `act` are 1". -/
def bval (act : List V) (v : V) : Rat := if act.contains v then 1 else 0

/-- Value of a variable: a general integer has the value assigned to it, a binary `bval`. -/
def sval (act : List V) (iv : List (V × Nat)) (v : V) : Rat :=
  match iv.find? (fun e => e.1 == v) with
  | some e => (e.2 : Rat)
  | none => bval act v

def absR (x : Rat) : Rat := if x < 0 then -x else x

def Row.errAt (r : Row V) (σ : V → Rat) : Rat := r.target - evalTerms σ r.terms

def Row.err (r : Row V) (act : List V) : Rat := r.errAt (bval act)

def conHoldsAt (c : LinCon V) (σ : V → Rat) : Bool :=
  match c.sense with
  | .le => decide (evalTerms σ c.terms ≤ c.rhs)
  | .ge => decide (evalTerms σ c.terms ≥ c.rhs)

def Shape.feasibleAt (s : Shape V) (act : List V) (σ : V → Rat) : Bool :=
  s.cons.all (fun c => conHoldsAt c σ) &&
  s.prods.all (fun p => act.contains p.1 == p.2.all (fun f => act.contains f)) &&
  s.rows.all (fun r => match r.bound with
    | none => true
    | some b => decide (absR (r.errAt σ) ≤ b))

def Shape.objectiveAt (s : Shape V) (σ : V → Rat) : Rat :=
  (s.rows.map fun r => r.weight * absR (r.errAt σ)).sum + evalTerms σ s.lin

/-- All sublists of `xs` (2ⁿ of them), each in the order of `xs`. -/
def sublistsOf : List V → List (List V)
  | [] => [[]]
  | x :: xs => let r := sublistsOf xs; r ++ r.map (fun l => x :: l)

/-- all assignments of the general integers within their bounds -/
def intAssignments : List (V × Nat) → List (List (V × Nat))
  | [] => [[]]
  | (v, ub) :: rest => (List.range (ub + 1)).flatMap fun n => (intAssignments rest).map fun a => (v, n) :: a

/-- feasible points as the enumeration loop sees them: the active binaries and the objective
(points that differ only in their general integers share `act`) -/
def Shape.points (s : Shape V) : List (Pt V) :=
  (sublistsOf s.bins).flatMap fun act =>
    (intAssignments s.ints).filterMap fun iv =>
      let σ := sval act iv
      if s.feasibleAt act σ then some ⟨act, s.objectiveAt σ⟩ else none

end Aldy
