/-
Model of `aldy/lpinterface.py: Gurobi.solutions` (inherited unchanged by `CBC`).

A finite (M)ILP is abstracted to the list `M` of its feasible points, each reduced to
what the loop can observe: the set of binaries that are 1 (`act`) and the objective
value (`obj`).  Points with equal `act` and different `obj` may coexist (different
continuous parts); `solve` returns a minimiser.

    status, obj = self.solve(init)                         -- argmin under the cuts so far
    best_obj = obj if best_obj is None else best_obj
    if status != "optimal": return                         -- Run.badStatus
    ub = (1 + gap) * best_obj
    if abs(obj - ub) >= SOLVER_PRECISON and obj > ub: return      -- Run.gapStop
    vv = {binaries that are 1}
    yield status, obj, sorted_tuple(vv)
    if not limit or iteration + 1 < limit:
        addConstr(sum(vv) <= len(vv) - 1)                  -- cut: excludes q iff vv ⊆ q.act
        yield from self.solutions(gap, best_obj, limit, iteration + 1)   -- Run.more
    (else: Run.limitStop)
    except NoSolutionsError: return                        -- Run.infeasible

No imports: this file is also used by the executable driver.
-/

namespace Aldy

/-- A feasible point as the enumeration loop sees it. -/
structure Pt (V : Type) where
  act : List V
  obj : Rat
deriving Repr, DecidableEq

variable {V : Type} [DecidableEq V]

/-- `a ⊆ b` as sets. -/
def subsetB (a b : List V) : Bool := a.all fun x => b.contains x

/-- The cut added after yielding `vv` is `Σ vv ≤ |vv| - 1`; a binary point `q` violates it
iff all of `vv` are active in `q`. -/
def okCut (cut : List V) (q : Pt V) : Bool := !subsetB cut q.act

def okCuts (cuts : List (List V)) (q : Pt V) : Bool := cuts.all fun c => okCut c q

/-- The stop test of the loop, transcribed literally. -/
def rejected (gap eps best obj : Rat) : Bool :=
  let ub := (1 + gap) * best
  decide ((if obj - ub < 0 then -(obj - ub) else obj - ub) ≥ eps) && decide (obj > ub)

/-- `limit` test of the loop: `not limit or iteration + 1 < limit`. -/
def goesOn (limit : Option Nat) (iter : Nat) : Bool :=
  match limit with
  | none => true
  | some l => l == 0 || decide (iter + 1 < l)

/-- `p` is what a correct `solve` may return under `cuts`: a feasible point that satisfies
the cuts and has minimal objective among those. -/
def IsArgmin (M : List (Pt V)) (cuts : List (List V)) (p : Pt V) : Prop :=
  p ∈ M ∧ okCuts cuts p = true ∧ ∀ q ∈ M, okCuts cuts q = true → p.obj ≤ q.obj

/-- All executions of the loop.  `complete = true` iff the run ended because the remaining
model was infeasible or its optimum failed the gap test (not by `limit`, not by a
non-optimal status). -/
inductive Run (M : List (Pt V)) (gap eps : Rat) (limit : Option Nat) :
    Option Rat → List (List V) → Nat → List (Pt V) → Bool → Prop
  | infeasible {best cuts iter} :
      (∀ q ∈ M, okCuts cuts q = false) → Run M gap eps limit best cuts iter [] true
  | badStatus {best cuts iter} :
      Run M gap eps limit best cuts iter [] false
  | gapStop {best cuts iter p} :
      IsArgmin M cuts p → rejected gap eps (best.getD p.obj) p.obj = true →
      Run M gap eps limit best cuts iter [] true
  | limitStop {best cuts iter p} :
      IsArgmin M cuts p → rejected gap eps (best.getD p.obj) p.obj = false →
      goesOn limit iter = false →
      Run M gap eps limit best cuts iter [p] false
  | more {best cuts iter p ps c} :
      IsArgmin M cuts p → rejected gap eps (best.getD p.obj) p.obj = false →
      goesOn limit iter = true →
      Run M gap eps limit (some (best.getD p.obj)) (p.act :: cuts) (iter + 1) ps c →
      Run M gap eps limit best cuts iter (p :: ps) c

/-! ### Executable validator for recorded traces (correspondence kind (b)) -/

def minObj? (xs : List (Pt V)) : Option Rat :=
  xs.foldl (fun acc p => match acc with
    | none => some p.obj
    | some b => some (if p.obj < b then p.obj else b)) none

/-- `validRun M gap eps tol limit trace`: the recorded trace (list of yielded
`(act, reported objective)`) is an execution of `Run` on `M`, comparing reported float
objectives with exact ones up to `tol`.  Returns an error message or `none`. -/
def validRunAux (M : List (Pt V)) (gap eps tol : Rat) (limit : Option Nat) :
    Option Rat → List (List V) → Nat → List (Pt V) → Option String
  | best, cuts, iter, [] =>
    let feas := M.filter (okCuts cuts)
    match minObj? feas with
    | none => none                                  -- infeasible: fine in either case
    | some m =>
      -- the loop stopped although a point is still feasible: must be the gap test
      -- (a stop by `limit` is handled at the last yielded point below)
      if rejected gap (eps - tol) (best.getD m) m then none
      else some s!"stopped early at iteration {iter}: a feasible point within the gap remains"
  | best, cuts, iter, p :: ps =>
    let feas := M.filter (okCuts cuts)
    match minObj? feas with
    | none => some s!"iteration {iter}: yielded a point although the model is infeasible"
    | some m =>
      -- the yielded point must be a feasible point with this active set and minimal objective
      let same := feas.filter fun q => subsetB q.act p.act && subsetB p.act q.act
      match minObj? same with
      | none => some s!"iteration {iter}: yielded assignment is not feasible (or was cut off)"
      | some o =>
        let d := if o - p.obj < 0 then p.obj - o else o - p.obj
        if d > tol then some s!"iteration {iter}: reported objective differs from the model objective"
        else if o - m > tol then some s!"iteration {iter}: yielded point is not an optimum of the current model"
        else if rejected gap (eps + tol) (best.getD m) m then
          some s!"iteration {iter}: yielded point fails the gap test"
        else if !(goesOn limit iter) then
          (if ps.isEmpty then none else some s!"iteration {iter}: continued past the limit")
        else validRunAux M gap eps tol limit (some (best.getD p.obj)) (p.act :: cuts) (iter + 1) ps

def validRun (M : List (Pt V)) (gap eps tol : Rat) (limit : Option Nat)
    (trace : List (Pt V)) : Option String :=
  validRunAux M gap eps tol limit none [] 0 trace

end Aldy
