import Aldy.Model.Pileup

/-!
Model of `aldy/sam.py: Sample._load_vcf` (lines 216-295): record → (position, operation)
conversion `get_mut`, the 20 / 10 pseudo-read bookkeeping, REF-mismatch re-expression,
per-record multi-substitution merging, ignore rules.  All pseudo-observations are `(40, 40)`,
so the tables hold counts.
-/

namespace Aldy

structure VcfRecord where
  pos0 : Int                        -- `read.pos - 1`
  ref : List Char
  alts : List (List Char)
  gt : List (Option Nat)            -- allele indices of the chosen sample
deriving Repr

def commonPrefix : List Char → List Char → Nat
  | a :: as, b :: bs => if a == b then 1 + commonPrefix as bs else 0
  | _, _ => 0

/-- `get_mut(pos, ref, alt)`; `none` = ignored shape -/
def getMut (l : LocusV) (pos : Int) (ref alt : List Char) : Int × Option String :=
  let off := commonPrefix ref alt
  if ref.length - off == 1 && alt.length - off == 1 && off < ref.length && off < alt.length then
    let a := alt.getD off 'N'
    if a == l.base (pos + off) then (pos + off, some "_")
    else (pos + off, some (strOf [l.base (pos + off), '>', a]))
  else if ref.length > alt.length && alt.length - off == 0 then
    (pos + off, some ("del" ++ strOf (l.slice (pos + off) (ref.length - off))))
  else if ref.length < alt.length && ref.length - off == 0 then
    (pos + off, some ("ins" ++ strOf (alt.drop off)))
  else (pos, none)

structure VcfState where
  norm : List (Int × Nat)           -- reference pseudo-reads per position
  muts : List (Mut × Nat)           -- variant pseudo-reads
deriving Repr

def addMut (ms : List (Mut × Nat)) (m : Mut) (n : Nat) : List (Mut × Nat) :=
  if ms.any (fun e => e.1 == m) then ms.map fun e => if e.1 == m then (e.1, e.2 + n) else e else ms ++ [(m, n)]

def subMut (ms : List (Mut × Nat)) (m : Mut) (n : Nat) : List (Mut × Nat) :=
  if ms.any (fun e => e.1 == m) then ms.map fun e => if e.1 == m then (e.1, e.2 - n) else e else ms ++ [(m, 0)]

def subNorm (ns : List (Int × Nat)) (p : Int) (n : Nat) : List (Int × Nat) :=
  ns.map fun e => if e.1 == p then (e.1, e.2 - n) else e

def addNorm (ns : List (Int × Nat)) (p : Int) (n : Nat) : List (Int × Nat) :=
  if ns.any (fun e => e.1 == p) then ns.map fun e => if e.1 == p then (e.1, e.2 + n) else e else ns ++ [(p, n)]

/-- one record; `skipNone` = whether alleles of ignored shape are skipped (they are, since the fix) -/
def vcfRecordStep (l : LocusV) (s : VcfState) (r : VcfRecord) : VcfState :=
  let g := r.gt.filterMap id
  if g.length != 2 || l.base r.pos0 == 'N' then s
  else
    let h0 : Int × Option String :=
      if r.ref.length == 1 && r.ref.head? != some (l.base r.pos0) then (r.pos0, some (strOf [l.base r.pos0, '>', r.ref.headD 'N']))
      else (r.pos0, some "_")
    let hgvs := h0 :: r.alts.map fun a => getMut l r.pos0 r.ref a
    let (s1, dump) := g.foldl (fun (acc : VcfState × List (Int × String)) gt =>
      match hgvs[gt]? with
      | some (p, some op) =>
        if op == "_" then acc
        else ({ norm := subNorm acc.1.norm p Const.VCF_ALT_READS, muts := addMut acc.1.muts ⟨p, op⟩ Const.VCF_ALT_READS },
              (acc.2.filter fun d => d.1 != p) ++ [(p, op)])
      | _ => acc) (s, [])
    -- multi-substitutions, per record
    l.multiSites.foldl (fun st site =>
      let parts := mnpParts site.2
      if dump.any (fun d => d.1 == site.1) && parts.all (fun pt => (dump.lookup (site.1 + (pt.1 : Int))) == some pt.2) then
        let st1 := parts.foldl (fun (acc : VcfState) pt =>
          { norm := if pt.1 != 0 then addNorm acc.norm (site.1 + (pt.1 : Int)) Const.VCF_ALT_READS else acc.norm,
            muts := subMut acc.muts ⟨site.1 + (pt.1 : Int), pt.2⟩ Const.VCF_ALT_READS }) st
        { st1 with muts := addMut st1.muts ⟨site.1, site.2⟩ Const.VCF_ALT_READS }
      else st) s1

/-- `_load_vcf`: every position of the locus starts with 20 reference pseudo-reads -/
def loadVcf (l : LocusV) (recs : List VcfRecord) : VcfState :=
  let lo := l.wide.1 - 500
  let n := (l.wide.2 + 1 - lo).toNat
  recs.foldl (vcfRecordStep l) { norm := (List.range n).map fun (i : Nat) => (lo + (i : Int), Const.VCF_REF_READS), muts := [] }

end Aldy
