import Aldy.Model.Filters
import Aldy.Model.Writers

/-!
State-machine view for C14: the *world* is the loaded catalogue plus the sample evidence.
Every public query, accessor, stage and writer is an operation `World → World × Out`.  The
model makes the aliasing explicit: `SolvedAllele.mutations()` either works on a copy of the
catalogue's core-variant set or - as the code did before the repair - on the set itself
(`Const.MUTATIONS_ACCESSOR_COPIES`, regenerated from the source).
-/

namespace Aldy

structure World where
  gene : GeneView
  cov : Cov
deriving Repr

inductive Op
  | mutationsAccessor (major minor : String) (added missing : List Mut)
  | coverageQuery (m : Mut)
  | filterAlleles (p : ProfileV) (s : CNSol)
  | qualityFilter (p : ProfileV)
  | hasCoverage (allele : String) (pos : Int)
  | regionAt (pos : Int)
deriving Repr

inductive Out
  | muts (l : List Mut)
  | num (q : Rat)
  | names (l : List String)
  | flag (b : Bool)
  | region (r : Option (Nat × String))
  | cov (c : Cov)
deriving Repr

def unionM (a b : List Mut) : List Mut := a ++ b.filter fun m => !a.contains m
def diffM (a b : List Mut) : List Mut := a.filter fun m => !b.contains m

/-- the accessor's result: core ∪ silent ∪ added − missing -/
def accessorResult (g : GeneView) (major minor : String) (added missing : List Mut) : List Mut :=
  match g.allele? major with
  | none => []
  | some a =>
    let silent := ((a.minors.find? (·.name == minor)).map (·.neutral)).getD []
    diffM (unionM (unionM a.func (if minor == "" then [] else silent)) added) missing

/-- the in-place variant writes the result back into the catalogue's core set -/
def accessorInPlace (g : GeneView) (major minor : String) (added missing : List Mut) : GeneView :=
  { g with alleles := g.alleles.map fun a =>
      if a.name == major then { a with func := accessorResult g major minor added missing } else a }

def step (w : World) : Op → World × Out
  | .mutationsAccessor major minor added missing =>
    (if Const.MUTATIONS_ACCESSOR_COPIES then w else { w with gene := accessorInPlace w.gene major minor added missing },
     .muts (accessorResult w.gene major minor added missing))
  | .coverageQuery m => (w, .num (w.cov.coverage m))
  | .filterAlleles p s => (w, .names ((filterAlleles w.gene p s w.cov).1.map (·.name)))
  | .qualityFilter p => (w, .cov (w.cov.qfiltered p))
  | .hasCoverage a pos => (w, .flag (w.gene.hasCoverage a pos))
  | .regionAt pos => (w, .region (w.gene.regionOf pos))

def run (w : World) (ops : List Op) : World := ops.foldl (fun w o => (step w o).1) w

end Aldy
