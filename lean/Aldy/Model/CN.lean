import Aldy.Model.Ilp
import Aldy.Model.Coverage

/-!
Model of `aldy/cn.py`:
* `CNInst.build`   = the model construction of `solve_cn_model` (lines 142-264)
* `decodeCN`       = the fold of yielded assignments into configuration multisets (269-289)
* `filterConfigs`  = `_filter_configs` (292-315)
* `cnDecision`     = the decision table of `estimate_cn` (46-79) and `_parse_user_solution`
-/

namespace Aldy

inductive CVar
  | S (name : String) (idx : Int)     -- `CN_{name}_{idx}`
  | E (r : String)                    -- `E_{r}`
  | EG (r : String)                   -- `EG_{r}`
  | ABSE (r : String)
  | ABSEG (r : String)
deriving DecidableEq, Repr

def CVar.rawName : CVar → String
  | .S n i => s!"CN_{n}_{i}"
  | .E r => s!"E_{r}"
  | .EG r => s!"EG_{r}"
  | .ABSE r => s!"ABS_{escapeBase s!"E_{r}"}"
  | .ABSEG r => s!"ABS_{escapeBase s!"EG_{r}"}"

def CVar.name (v : CVar) : String := escapeBase v.rawName

/-- A structure slot `(name, idx)` with its copy-number vectors. -/
structure Slot where
  name : String
  idx : Int
  cn : List (List (String × Int))
deriving Repr

structure CNInst where
  gene : GeneView
  prof : ProfileV
  configs : List CNConf                       -- candidate configurations (after `_filter_configs`)
  maxCn : Nat
  regionCov : List (String × (Rat × Rat))      -- observed (gene, pseudogene) depth per region
  fusionSupport : List (String × Rat)          -- `[]` = `None`/empty (falsy)

namespace CNInst

def delAllele (I : CNInst) : Option String := I.gene.deletionAllele

/-- `(name, 0)` slots: every candidate configuration, minus weakly supported fusions when
long-read fusion support is available. -/
def baseConfigs (I : CNInst) : List CNConf :=
  I.configs.filter fun c =>
    I.fusionSupport.isEmpty || c.name == "1" || (I.delAllele == some c.name) ||
    (match I.fusionSupport.lookup c.name with
     | some s => decide (s ≥ Const.CN_WEAK_FUSION_NUM / (2 * (I.maxCn : Rat)))
     | none => false)

/-- pseudogene-free copy: every pseudogene region loses one copy -/
def weaken (cn : List (List (String × Int))) : List (List (String × Int)) :=
  match cn with
  | [] => []
  | g :: ps => g :: ps.map fun p => p.map fun rv => (rv.1, rv.2 - 1)

def slots (I : CNInst) : List Slot :=
  I.baseConfigs.map (fun c => ⟨c.name, 0, c.cn⟩) ++
  I.baseConfigs.flatMap (fun c =>
    ⟨c.name, -1, c.cn⟩ ::
      (if c.kind == .default then
        ((List.range I.maxCn).filter (fun i => i ≥ 1)).map fun i => ⟨c.name, (i : Int), weaken c.cn⟩
       else [])) ++
  (match I.delAllele with
   | some d =>
     if I.gene.nGenes > 1 then
       match I.baseConfigs.find? (fun c => c.name == d) with
       | some dc => (List.range I.maxCn).map fun i => ⟨"PSEUDO", ((i + 1 : Nat) : Int), dc.cn⟩
       | none => []
     else []
   | none => [])

def sv (s : Slot) : CVar := .S s.name s.idx

def cnAt (s : Slot) (gi : Nat) (r : String) : Option Int := (s.cn.getD gi []).lookup r

def eqCons (terms : List (Rat × CVar)) (rhs : Rat) : List (LinCon CVar) :=
  [⟨terms, .le, rhs⟩, ⟨terms, .ge, rhs⟩]

def consDIPLO (I : CNInst) : List (LinCon CVar) :=
  eqCons ((I.slots.filter fun s => s.idx ≤ 0).map fun s => ((1 : Rat), sv s)) 2

def consDEL (I : CNInst) : List (LinCon CVar) :=
  match I.delAllele with
  | some d => (I.slots.filter fun s => s.name != d).map fun s =>
      ⟨[(1, sv s), (1, .S d (-1))], .le, 1⟩
  | none => []

def consORD (I : CNInst) : List (LinCon CVar) :=
  I.slots.filterMap fun s =>
    if s.idx == -1 then some (leVar (sv s) (.S s.name 0))
    else if s.idx > 1 then some (leVar (sv s) (.S s.name (s.idx - 1)))
    else none

/-- regions that get error variables: listed in the coverage table and copy-number regions -/
def rows (I : CNInst) : List (String × (Rat × Rat)) :=
  I.regionCov.filter fun rc => I.gene.uniqueRegions.contains rc.1

/-- `expr_gene`: gene copies per slot -/
def geneTerms (I : CNInst) (r : String) : List (Rat × CVar) :=
  I.slots.filterMap fun s => (cnAt s 0 r).map fun k => ((k : Rat), sv s)

/-- `expr`: gene minus pseudogene copies per slot -/
def diffTerms (I : CNInst) (r : String) (scale : Rat) : List (Rat × CVar) :=
  I.slots.flatMap fun s =>
    (match cnAt s 0 r with | some k => [(((k : Rat)) / scale, sv s)] | none => []) ++
    (if s.cn.length > 1 then
      match cnAt s 1 r with | some k => [((-(k : Rat)) / scale, sv s)] | none => []
     else [])

def scaleOf (c0 c1 : Rat) : Rat := (if c0 < c1 then c1 else c0) + Const.CN_SCALE_ADD

def consCOV (I : CNInst) : List (LinCon CVar) :=
  I.rows.flatMap fun rc =>
    let r := rc.1
    let c0 := rc.2.1
    let c1 := rc.2.2
    let scale := scaleOf c0 c1
    eqCons (I.geneTerms r ++ [(1, .EG r)]) c0 ++
    eqCons (I.diffTerms r scale ++ [(1, .E r)]) ((c0 - c1) / scale)

def consABS (I : CNInst) : List (LinCon CVar) :=
  (I.rows.flatMap fun rc => absCons (.ABSE rc.1) (.E rc.1)) ++
  (I.rows.flatMap fun rc => absCons (.ABSEG rc.1) (.EG rc.1))

def nU (I : CNInst) : Rat := (I.gene.uniqueRegions.length : Rat)

def parsimonyBase (I : CNInst) : Rat := Const.CN_PARSIMONY_BASE / I.nU

/-- penalty per slot *name* (fusion penalties come from the full catalogue, not the candidates) -/
def penalty (I : CNInst) (name : String) : Rat :=
  I.parsimonyBase +
  (match I.gene.config? name with
   | some c =>
     (if c.kind == .rightFusion then I.parsimonyBase * I.prof.cnFusionRight else 0) +
     (if c.kind == .leftFusion then I.parsimonyBase * I.prof.cnFusionLeft else 0)
   | none => 0)

def build (I : CNInst) : Ilp CVar where
  vars :=
    I.slots.map (fun s => (sv s, Kind.bin)) ++
    I.rows.flatMap (fun rc =>
      [(CVar.EG rc.1, Kind.cont (some (-I.prof.cnMax)) (some I.prof.cnMax)),
       (CVar.E rc.1, Kind.cont (some (-I.prof.cnMax)) (some I.prof.cnMax))]) ++
    I.rows.map (fun rc => (CVar.ABSE rc.1, Kind.cont (some 0) none)) ++
    I.rows.map (fun rc => (CVar.ABSEG rc.1, Kind.cont (some 0) none))
  cons := I.consDIPLO ++ I.consDEL ++ I.consORD ++ I.consCOV ++ I.consABS
  obj :=
    I.rows.map (fun rc =>
      (I.prof.cnDiff / I.nU * (if (CVar.E rc.1).name == Const.CN_PCE_VAR then I.prof.cnPcePenalty else 1), CVar.ABSE rc.1)) ++
    I.rows.map (fun rc => (I.prof.cnFit / I.nU, CVar.ABSEG rc.1)) ++
    I.slots.map (fun s => (I.prof.cnParsimony * I.penalty s.name, sv s))

/-! ### spec level: the documented score of a selection of structure slots -/

def absC (x : Rat) : Rat := if x < 0 then -x else x

/-- gene-fit residual of a region under the selection `σ` of slots -/
def fitErr (I : CNInst) (σ : CVar → Rat) (rc : String × (Rat × Rat)) : Rat :=
  rc.2.1 - evalTerms σ (I.geneTerms rc.1)

/-- scaled gene-minus-pseudogene residual of a region -/
def diffErr (I : CNInst) (σ : CVar → Rat) (rc : String × (Rat × Rat)) : Rat :=
  (rc.2.1 - rc.2.2) / scaleOf rc.2.1 rc.2.2 - evalTerms σ (I.diffTerms rc.1 (scaleOf rc.2.1 rc.2.2))

def rowWeight (I : CNInst) (r : String) : Rat :=
  I.prof.cnDiff / I.nU * (if (CVar.E r).name == Const.CN_PCE_VAR then I.prof.cnPcePenalty else 1)

/-- **the documented score** of a selection of slots (reads `σ` on slot selectors only) -/
def specCN (I : CNInst) (σ : CVar → Rat) : Rat :=
  (I.rows.map fun rc => I.rowWeight rc.1 * absC (I.diffErr σ rc)).sum +
  (I.rows.map fun rc => I.prof.cnFit / I.nU * absC (I.fitErr σ rc)).sum +
  (I.slots.map fun s => I.prof.cnParsimony * I.penalty s.name * σ (sv s)).sum

end CNInst

/-! ### Fold of yielded assignments -/

/-- insertion sort on strings (Python `sorted` on `str`: code-point order) -/
def insertStr (x : String) : List String → List String
  | [] => [x]
  | y :: ys => if x ≤ y then x :: y :: ys else y :: insertStr x ys

def sortStr (l : List String) : List String := l.foldr insertStr []

/-- names of active slots minus deletion allele and pseudo slots, sorted -/
def decodeCN (del : Option String) (active : List (String × Int)) : List String :=
  sortStr ((active.map (·.1)).filter fun n => n != "PSEUDO" && some n != del)

/-- `result[sol_tuple]` is set only the first time a tuple is seen: keep first score per structure -/
def foldCN (del : Option String) (yields : List (Rat × List (String × Int))) : List (List String × Rat) :=
  yields.foldl (fun acc y =>
    let t := decodeCN del y.2
    if acc.any (fun e => e.1 == t) then acc else acc ++ [(t, y.1)]) []

/-! ### `_filter_configs` -/

def cnFilteredCov (p : ProfileV) (c : Cov) : Cov :=
  c.filtered fun c' m => .keep (c'.basicFilter p m none (some (p.threshold / p.cnMax)))

/-- a configuration that is also an allele name is dropped when every allele of it has an
unsupported core variant -/
def filterConfigs (g : GeneView) (p : ProfileV) (c : Cov) : List CNConf :=
  let cov := cnFilteredCov p c
  g.cnConfigs.filter fun cfg =>
    match g.allele? cfg.name with
    | none => true
    | some _ =>
      let bad := cfg.alleles.filter fun an =>
        match g.allele? an with
        | some a => a.func.any fun m => decide (cov.coverage m ≤ 0)
        | none => false
      bad.length != cfg.alleles.length

/-! ### Decision table of `estimate_cn` -/

inductive CNDecision
  | user (sol : List String)            -- verbatim
  | unknownConfig (name : String)       -- AldyException
  | fixed (sol : List String)           -- copy-number calling unavailable: default copies
  | tooLow                              -- AldyException: coverage too low
  | solve (maxCn : Nat)
deriving Repr, DecidableEq

/-- ceil of a rational -/
def ratCeil (q : Rat) : Int := -((-q).floor)

def cnDecision (g : GeneView) (userSol : Option (List String)) (doCopyNumber : Bool) (male : Bool)
    (chrXY : Bool) (allRegionCov : List Rat) (rows : List (Rat × Rat)) : CNDecision :=
  -- `if profile.cn_solution:` - `None` and the empty list are both falsy
  let user := match userSol with
    | some sol => if sol.isEmpty then none else some sol
    | none => none
  match user with
  | some sol =>
    match sol.find? (fun s => (g.config? s).isNone) with
    | some bad => .unknownConfig bad
    | none => .user sol
  | none =>
    if !doCopyNumber then
      let basic := (g.cnConfigs.filter fun c => c.kind == .default).map (·.name)
      .fixed (List.replicate (if male && chrXY then 1 else 2) (basic.headD "1"))
    else
      let mx := allRegionCov.foldl (fun acc q => if ratCeil q > acc then ratCeil q else acc) (ratCeil (allRegionCov.headD 0))
      let total := (rows.map fun r => r.1 + r.2).sum
      let minCov := (g.cnConfigs.map fun c => ((c.cn.map fun gr => (gr.map (·.2)).sum).sum : Int)).foldl
        (fun acc v => match acc with | none => some v | some a => some (if v < a then v else a)) none
      if total < ((minCov.getD 0 : Int) : Rat) / Const.CN_LOW_COV_DIV then .tooLow
      else .solve (1 + mx).toNat

end Aldy
