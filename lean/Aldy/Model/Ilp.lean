/-
Linear models as `aldy/lpinterface.py` hands them to CBC, and the two helper builders
`abssum` (lines 120-138) and `prod` (lines 140-150).

No imports: used by the executable driver.
-/

namespace Aldy

inductive Sense | le | ge
deriving DecidableEq, Repr

/-- One linear constraint `Σ cᵢ·vᵢ  (≤|≥)  rhs`. -/
structure LinCon (V : Type) where
  terms : List (Rat × V)
  sense : Sense
  rhs : Rat
deriving Repr

/-- Variable kinds the CBC wrapper creates: `BoolVar`, `NumVar(lb, ub)`. -/
inductive Kind
  | bin
  | cont (lb ub : Option Rat)
  | int (ub : Nat)              -- general integer `0 .. ub` (`addVar(vtype="I")`; aldy's own models have none)
deriving Repr

structure Ilp (V : Type) where
  vars : List (V × Kind)
  cons : List (LinCon V)
  obj : List (Rat × V)

variable {V : Type}

def evalTerms (σ : V → Rat) (ts : List (Rat × V)) : Rat :=
  (ts.map fun t => t.1 * σ t.2).sum

def LinCon.holds (c : LinCon V) (σ : V → Rat) : Prop :=
  match c.sense with
  | .le => evalTerms σ c.terms ≤ c.rhs
  | .ge => evalTerms σ c.terms ≥ c.rhs

instance (c : LinCon V) (σ : V → Rat) : Decidable (c.holds σ) := by
  unfold LinCon.holds; cases c.sense <;> infer_instance

def Kind.ok (k : Kind) (x : Rat) : Prop :=
  match k with
  | .bin => x = 0 ∨ x = 1
  | .cont lb ub => (∀ l, lb = some l → l ≤ x) ∧ (∀ u, ub = some u → x ≤ u)
  | .int ub => ∃ n : Nat, x = (n : Rat) ∧ n ≤ ub

/-- `σ` is a feasible point of the model. -/
def Ilp.Sat (m : Ilp V) (σ : V → Rat) : Prop :=
  (∀ vk ∈ m.vars, vk.2.ok (σ vk.1)) ∧ (∀ c ∈ m.cons, c.holds σ)

def Ilp.objective (m : Ilp V) (σ : V → Rat) : Rat := evalTerms σ m.obj

/-! ### Helper builders -/

/-- `a ≤ b` written the way ortools normalises `a <= b`: `a - b ≤ 0`. -/
def leVar (a b : V) : LinCon V := ⟨[(1, a), (-1, b)], .le, 0⟩

/-- `model.prod(res, terms)`: `res <= t` for each factor, `res >= Σ terms - (n-1)`. -/
def prodCons (res : V) (terms : List V) : List (LinCon V) :=
  terms.map (fun t => leVar res t) ++
    [⟨(1, res) :: terms.map (fun t => ((-1 : Rat), t)), .ge, -((terms.length : Rat) - 1)⟩]

/-- One summand of `model.abssum`: `absvar + v >= 0`, `absvar - v >= 0`. -/
def absCons (absvar v : V) : List (LinCon V) :=
  [⟨[(1, absvar), (1, v)], .ge, 0⟩, ⟨[(1, absvar), (-1, v)], .ge, 0⟩]

/-- OR gadget as written in major.py (`COR`) / minor.py (`VNEWOR`) / `NOVEL`:
`z <= Σ xs`, `z >= x` for each `x`. -/
def orCons (z : V) (xs : List V) : List (LinCon V) :=
  ⟨(1, z) :: xs.map (fun x => ((-1 : Rat), x)), .le, 0⟩ :: xs.map (fun x => ⟨[(1, z), (-1, x)], .ge, 0⟩)

/-- XOR block of major.py (`CXOR`): five constraints on `VXOR`, `VNEW`, `VOR`. -/
def xorCons (x n o : V) : List (LinCon V) :=
  [⟨[(1, x), (-1, n), (-1, o)], .le, 0⟩,          -- VXOR <= VNEW + VOR
   ⟨[(1, x), (1, n), (1, o)], .le, 2⟩,            -- VXOR <= 2 - VNEW - VOR
   ⟨[(1, x), (-1, n), (1, o)], .ge, 0⟩,           -- VXOR >= VNEW - VOR
   ⟨[(1, x), (1, n), (-1, o)], .ge, 0⟩,           -- VXOR >= VOR - VNEW
   ⟨[(1, x)], .ge, 1⟩]                            -- VXOR >= 1

/-- The cut the enumeration adds: `Σ vv <= len(vv) - 1`. -/
def cutCon (vv : List V) : LinCon V :=
  ⟨vv.map (fun v => ((1 : Rat), v)), .le, (vv.length : Rat) - 1⟩

/-- rename the variables of a model -/
def mapIlp {V W : Type} (f : V → W) (m : Ilp V) : Ilp W where
  vars := m.vars.map fun v => (f v.1, v.2)
  cons := m.cons.map fun c => ⟨c.terms.map fun t => (t.1, f t.2), c.sense, c.rhs⟩
  obj := m.obj.map fun t => (t.1, f t.2)

end Aldy
