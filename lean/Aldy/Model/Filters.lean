import Aldy.Model.Major

/-!
Evidence filters of the minor stage (`estimate_minor`, minor.py 40-74): the considered-variant
set and `default_filter_fn` (which, as written, reads the structure of the *last* major
solution of the call - the loop variable it closes over).
-/

namespace Aldy

/-- considered variants: core and silent variants of every minor of every called major allele
of every major solution, their novel variants, and the gene's "random" variants -/
def consideredMuts (g : GeneView) (majorSols : List (List String × List Mut)) : List Mut :=
  (majorSols.flatMap fun ms =>
    (ms.1.flatMap fun maj => match g.allele? maj with
      | some a => a.func ++ a.minors.flatMap (·.neutral)
      | none => []) ++ ms.2) ++ g.randomMuts

/-- `default_filter_fn` with the structure it actually uses -/
def minorFilterFn (g : GeneView) (p : ProfileV) (lastCn : CNSol) (considered : List Mut) (c : Cov) (m : Mut) : Cov.FilterRes :=
  let r := g.regionOf m.pos
  let inInteresting := match r with
    | some (_, name) => (name.toList.head? == some 'e') || name == "utr3" || name == "utr5" || name == "up"
    | none => false
  if m.op != "_" && !(considered.contains m || inInteresting) then .keep false
  else
    let c1 := c.basicFilter p m (some p.cnMax) none
    if m.op != "_" then .keep (c1 && c.basicFilter p m (some ((lastCn.positionCn g m.pos : Rat) + Const.MINOR_FILTER_CN_ADD)) none)
    else .keep c1

def minorFilteredCov (g : GeneView) (p : ProfileV) (lastCn : CNSol) (considered : List Mut) (c : Cov) : Cov :=
  (c.qfiltered p).filtered (minorFilterFn g p lastCn considered)

end Aldy
