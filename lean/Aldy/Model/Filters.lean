import Aldy.Model.Major

/-!
Evidence filters of the minor stage (`estimate_minor`, minor.py): the considered-variant set
(pooled over all major solutions of the call) and `default_filter_fn`, built per gene structure
(`Const.MINOR_FILTER_PER_STRUCTURE`, regenerated: the filter no longer reads the loop variable
of an earlier loop, i.e. the structure of the *last* candidate).
-/

namespace Aldy

/-- considered variants: core and silent variants of every minor of every called major allele
of every major solution, their novel variants, and the gene's "random" variants -/
def consideredMuts (g : GeneView) (majorSols : List (List String × List Mut)) : List Mut :=
  (majorSols.flatMap fun ms =>
    (ms.1.flatMap fun maj => match g.allele? maj with
      | some a => a.func ++ a.minors.flatMap (·.neutral)
      | none => []) ++ ms.2) ++ g.randomMuts

/-- `default_filter_fn(cn_solution)`: `lastCn` is the structure of the candidate group being refined -/
def minorFilterFn (g : GeneView) (p : ProfileV) (lastCn : CNSol) (considered : List Mut) (c : Cov) (m : Mut) : Cov.FilterRes :=
  let r := g.regionOf m.pos
  let inInteresting := match r with
    | some (_, name) => (name.toList.head? == some 'e') || name == "utr3" || name == "utr5" || name == "up"
    | none => false
  if !Const.MINOR_FILTER_DEPTH_OPS.contains m.op && !(considered.contains m || inInteresting) then .keep false
  else
    let c1 := c.basicFilter p m (some p.cnMax) none
    if m.op != "_" then .keep (c1 && c.basicFilter p m (some ((lastCn.positionCn g m.pos : Rat) + Const.MINOR_FILTER_CN_ADD)) none)
    else .keep c1

def minorFilteredCov (g : GeneView) (p : ProfileV) (lastCn : CNSol) (considered : List Mut) (c : Cov) : Cov :=
  (c.qfiltered p).filtered (minorFilterFn g p lastCn considered)

end Aldy
