import Aldy.Model.Minor

/-!
Spec level of the refinement stage: the documented objective of a *reported assignment* -
which copies are selected, which definition variants they keep, which variants they gain, which
copy every read-phase pattern is attributed to - computed from the assignment alone.  No product
helper, error variable or absolute-value helper of the ILP is read (`Props/C04Spec.lean` proves
that the objective of any optimum of `MinorInst.build` equals it).

No imports beyond the model: used by the executable driver.
-/

namespace Aldy
namespace MinorInst

def absM (x : Rat) : Rat := if x < 0 then -x else x

def b2r (b : Bool) : Rat := if b then 1 else 0

/-- does the copy `cs` carry the considered variant `m` under the assignment `act`? -/
def carriesB (I : MinorInst) (act : NVar → Bool) (cs : MinorCand × MSlot) (m : Mut) : Bool :=
  act (.A cs.2) &&
    (if cs.1.defMuts.contains m then act (.K m cs.2)
     else I.hasCov cs.1 m.pos && act (.N m cs.2))

/-- copies that carry `m` -/
def carriedBy (I : MinorInst) (act : NVar → Bool) (m : Mut) : Rat :=
  (I.slots.map fun cs => b2r (I.carriesB act cs m)).sum

/-- copies left as reference at a site: selected copies with gene sequence there, minus the one
definition variant the reference row looks at (the first non-insertion one) when kept, minus
every non-insertion variant gained there -/
def refBy (I : MinorInst) (act : NVar → Bool) (pos : Int) : Rat :=
  (I.slots.map fun cs =>
    if !I.hasCov cs.1 pos then 0
    else
      b2r (act (.A cs.2)) -
        (match presentAt cs.1 pos with
         | p :: _ => b2r (act (.A cs.2) && act (.K p cs.2))
         | [] => 0) -
        ((I.newAt cs.1 pos).map fun m => b2r (act (.A cs.2) && act (.N m cs.2))).sum).sum

/-- **the documented objective of a reported assignment** -/
def specMinor (I : MinorInst) (act : NVar → Bool) : Rat :=
  (I.mutations.map fun m => absM (I.observed m - I.carriedBy act m)).sum +
  (I.positions.map fun pos => absM (I.observed (refMut' pos) - I.refBy act pos)).sum +
  I.minorMiss * (I.slots.map fun cs => (cs.1.defMuts.map fun m => b2r (act (.A cs.2) && !act (.K m cs.2))).sum).sum +
  (I.newSelectors.zipIdx.map fun e =>
      I.minorAdd * (1 + (e.2 : Rat) / Const.MINOR_TIEBREAK_DIV) * b2r (act (.N e.1.1 e.1.2))).sum +
  I.minorAdd / Const.MINOR_NOVEL_DIV * ((I.novelMuts.filter fun m => (I.novelCoreSel m).any act).length : Rat) +
  I.minorPhase * (I.phaseCells.map fun c => (c.cnt : Rat) *
      (((c.pos.zipIdx).map fun vi => b2r (act (.PH c.ai c.ri) && !act vi.1)).sum +
       ((c.neg.zipIdx).map fun vi => b2r (act (.PH c.ai c.ri) && act vi.1)).sum)).sum

end MinorInst
end Aldy
