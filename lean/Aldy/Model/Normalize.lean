import Aldy.Model.Pileup

/-!
Model of the depth normalisation:
* `Coverage._normalize_coverage` (coverage.py 185-210)
* the three per-base depth walkers: the sample pileup (`_parse_read`, C06), the neutral-region
  walker `_load_cn_region` (sam.py 565-576) and the profile walker of
  `Profile.get_sam_profile_data` (profile.py 376-394)
-/

namespace Aldy

/-- a read as the depth walkers see it -/
structure DRead where
  refStart : Int
  cigar : List (Nat × Nat)
  supplementary : Bool := false
  hardClipped : Bool := false
  hasSeq : Bool := true
deriving Repr

/-- reference bases consumed per operation by the neutral-region walker -/
def consumesCn (op size : Nat) : Nat := if Const.CNREGION_DEPTH_OPS.contains op then size else 0
/-- ... by the profile walker (`op == 2`, `op in [0, 7, 8]`) -/
def consumesProfile (op size : Nat) : Nat := if op == 2 || Const.PROFILE_MATCH_OPS.contains op then size else 0

def refLenWith (f : Nat → Nat → Nat) (cigar : List (Nat × Nat)) : Nat := (cigar.map fun c => f c.1 c.2).sum

/-- length of `[s, s+n) ∩ [a, b)` -/
def overlap (s : Int) (n : Nat) (a b : Int) : Nat :=
  let lo := if s < a then a else s
  let hi := if s + n < b then s + n else b
  if hi > lo then (hi - lo).toNat else 0

/-- who is counted by which walker -/
def acceptSample (r : DRead) : Bool := !r.cigar.isEmpty && !r.supplementary && !r.hardClipped && r.hasSeq
def acceptCn (r : DRead) : Bool := !r.cigar.isEmpty && !r.supplementary
def acceptProfile (r : DRead) : Bool := !r.cigar.isEmpty

/-- Σ over positions of `[a, b)` of the per-base depth -/
def regionSum (accept : DRead → Bool) (f : Nat → Nat → Nat) (reads : List DRead) (a b : Int) : Nat :=
  ((reads.filter accept).map fun r => overlap r.refStart (refLenWith f r.cigar) a b).sum

inductive NormErr | emptyNeutral | invalidProfile
deriving Repr, DecidableEq

/-- `ratio * s / p` with `p = profile / PROFILE_COPIES`; zero where the profile has no depth -/
def regionCoverage (neutralValue samRef s prof : Rat) : Except NormErr Rat :=
  if samRef == 0 then .error .emptyNeutral
  else
    let ratio := neutralValue / samRef
    if ratio == 0 then .error .invalidProfile
    else
      let p := prof / Const.PROFILE_COPIES
      .ok (if p != 0 then ratio * s / p else 0)

end Aldy
