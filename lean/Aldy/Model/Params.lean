import Aldy.Generated.Constants

/-!
Model of `aldy/profile.py: Profile.update` (typed parameter update), Python's `int()` /
`float()` on the numeral grammar, the `--param k=v` splitting of `__main__.py` and the
options-section merge of `Profile.load`.

The parameter table (names, types, defaults) is `Const.PROFILE_PARAMS`, regenerated from
`Profile.__init__` on every run.
-/

namespace Aldy
open Const

/-- A value as it reaches `update`: strings from the command line / YAML, or native Python
values from the API / a YAML options section. -/
inductive PyVal
  | str (s : String)
  | bool (b : Bool)
  | int (n : Int)
  | float (q : Rat)
  | none
deriving Repr, DecidableEq

/-! ### numeral grammar -/

def isDigit (c : Char) : Bool := '0' ≤ c && c ≤ '9'
def digitVal (c : Char) : Nat := c.toNat - '0'.toNat

def isSpace (c : Char) : Bool := c == ' ' || c == '\t' || c == '\n' || c == '\r' || c == '\x0b' || c == '\x0c'

def stripL : List Char → List Char
  | [] => []
  | c :: cs => if isSpace c then stripL cs else c :: cs

def strip (cs : List Char) : List Char := (stripL (stripL cs).reverse).reverse

/-- digits with single underscores allowed between digits (`1_000`); returns digit values -/
def digitGroup : List Char → Option (List Nat)
  | [] => some []
  | [c] => if isDigit c then some [digitVal c] else none
  | c :: '_' :: d :: rest =>
    if isDigit c && isDigit d then (digitGroup (d :: rest)).map (digitVal c :: ·) else none
  | c :: rest => if isDigit c then (digitGroup rest).map (digitVal c :: ·) else none

def natOfDigits (ds : List Nat) : Nat := ds.foldl (fun acc d => acc * 10 + d) 0

def splitSign : List Char → Bool × List Char
  | '-' :: cs => (true, cs)
  | '+' :: cs => (false, cs)
  | cs => (false, cs)

/-- Python `int(str)`: whitespace, sign, non-empty digit group. -/
def parseIntChars (cs : List Char) : Option Int :=
  let (neg, body) := splitSign (strip cs)
  if body.isEmpty then none else
  match digitGroup body with
  | some ds => some (if neg then -(natOfDigits ds : Int) else (natOfDigits ds : Int))
  | none => none

def parseIntLit (s : String) : Option Int := parseIntChars s.toList

def splitAt1 (p : Char → Bool) : List Char → List Char × Option (List Char)
  | [] => ([], none)
  | c :: cs => if p c then ([], some cs) else
      let r := splitAt1 p cs
      (c :: r.1, r.2)

def pow10 (n : Nat) : Rat := ((10 ^ n : Nat) : Rat)

/-- Python `float(str)` on finite decimal literals: whitespace, sign, `digits[.digits]` or
`.digits`, optional exponent.  `inf`/`nan` spellings are outside the modelled domain. -/
def parseFloatChars (cs : List Char) : Option Rat :=
  let (neg, body) := splitSign (strip cs)
  let (mant, exp) := splitAt1 (fun c => c == 'e' || c == 'E') body
  let (ip, fp) := splitAt1 (fun c => c == '.') mant
  let fpd := match fp with | some f => f | none => []
  if ip.isEmpty && fpd.isEmpty then none else
  match digitGroup ip, digitGroup fpd with
  | some di, some df =>
    let m : Rat := (natOfDigits di : Rat) + (natOfDigits df : Rat) / pow10 df.length
    let e : Option Int := match exp with
      | none => some 0
      | some ecs =>
        let (eneg, eb) := splitSign ecs
        if eb.isEmpty then none else
        match digitGroup eb with
        | some de => some (if eneg then -(natOfDigits de : Int) else (natOfDigits de : Int))
        | none => none
    match e with
    | none => none
    | some k =>
      let v := if k ≥ 0 then m * pow10 k.toNat else m / pow10 (-k).toNat
      some (if neg then -v else v)
  | _, _ => none

def parseFloatLit (s : String) : Option Rat := parseFloatChars s.toList

def lowerChar (c : Char) : Char := if 'A' ≤ c && c ≤ 'Z' then Char.ofNat (c.toNat + 32) else c

/-- boolean spellings: `true/false` in any letter case, `1/0`, surrounding whitespace ignored -/
def parseBoolChars (cs : List Char) : Option Bool :=
  let l := (strip cs).map lowerChar
  if l = ['t', 'r', 'u', 'e'] ∨ l = ['1'] then some true
  else if l = ['f', 'a', 'l', 's', 'e'] ∨ l = ['0'] then some false
  else none

/-! ### typed update -/

/-- `int(x)` for a float argument truncates towards zero. -/
def truncRat (q : Rat) : Int := if q ≥ 0 then q.floor else -((-q).floor)

/-- Convert `v` to the type of the current value `cur`; `none` = ValueError/TypeError. -/
def convert (cur : PVal) (v : PyVal) : Option PVal :=
  match cur, v with
  | .bool _, .bool b => some (.bool b)
  | .bool _, .int n => if n == 0 then some (.bool false) else if n == 1 then some (.bool true) else none
  | .bool _, .float q => if q == 0 then some (.bool false) else if q == 1 then some (.bool true) else none
  | .bool _, .str s => (parseBoolChars s.toList).map .bool
  | .int _, .str s => (parseIntLit s).map .int
  | .int _, .int n => some (.int n)
  | .int _, .bool b => some (.int (if b then 1 else 0))
  | .int _, .float q => some (.int (truncRat q))
  | .float _, .str s => (parseFloatLit s).map .float
  | .float _, .int n => some (.float n)
  | .float _, .bool b => some (.float (if b then 1 else 0))
  | .float _, .float q => some (.float q)
  | .str _, .str s => some (.str s)
  | .str _, .int n => some (.str (toString n))
  | .str _, .bool b => some (.str (if b then "True" else "False"))
  | _, _ => none

abbrev PState := List (String × PVal)

def setParam (st : PState) (n : String) (v : PVal) : PState :=
  st.map fun e => if e.1 == n then (n, v) else e

/-- `Profile.update(kwargs)`: returns the new state and the dictionary of updated values,
or the name of the first invalid parameter.  `None` values and unknown names are skipped;
`cn_solution` is stored as given (handled outside this table). -/
def update (st : PState) : List (String × PyVal) → Except String (PState × List (String × PVal))
  | [] => .ok (st, [])
  | (n, v) :: rest =>
    if v == .none || n == "cn_solution" then update st rest
    else match st.lookup n with
      | none => update st rest
      | some cur =>
        match convert cur v with
        | none => .error n
        | some nv =>
          match update (setParam st n nv) rest with
          | .ok (st', ps) => .ok (st', (n, nv) :: ps.filter (fun e => e.1 != n))
          | .error e => .error e

def initState : PState := PROFILE_PARAMS.filter fun e => match e.2 with | .arg _ => false | .none => false | _ => true

/-- values as written into / read back from a YAML options section (native Python values) -/
def toPy : PVal → PyVal
  | .bool b => .bool b
  | .int n => .int n
  | .float q => .float q
  | .str s => .str s
  | _ => .none

/-- `--param` items: `k=v` split at the first `=`, `-` in the key replaced by `_`. -/
def splitParam (p : String) : Option (String × String) :=
  match splitAt1 (fun c => c == '=') p.toList with
  | (k, some v) => some (String.ofList (k.map fun c => if c == '-' then '_' else c), String.ofList v)
  | (_, none) => none

/-! ### `Profile.load`: options section merged with the caller's explicit parameters -/

/-- `dict(options, **params)`: the keys of the options section in their order, explicit values
written over them, then the remaining explicit parameters (an explicit `None` overrides too and
is then skipped by `update`) -/
def mergeOptions (opts params : List (String × PyVal)) : List (String × PyVal) :=
  opts.map (fun e => match params.lookup e.1 with | some v => (e.1, v) | none => e) ++
  params.filter fun e => !(opts.any fun o => o.1 == e.1)

/-- `d.setdefault(k, v)` -/
def setDefault (d : List (String × PyVal)) (k : String) (v : PyVal) : List (String × PyVal) :=
  if d.any (fun e => e.1 == k) then d else d ++ [(k, v)]

/-- the keyword arguments `Profile.load` hands to `Profile(...)` -/
def loadOptions (opts params : List (String × PyVal)) (neutralValue : PyVal) : List (String × PyVal) :=
  setDefault (mergeOptions opts params) "neutral_value" neutralValue

end Aldy
