import Lean.Data.Json

/-! JSON helpers of the line-protocol driver (core `Lean.Data.Json` only). -/

namespace Aldy.Wire
open Lean

def parseInt? (s : String) : Option Int :=
  if s.startsWith "-" then (s.drop 1).toNat?.map (fun n => -(n : Int))
  else if s.startsWith "+" then (s.drop 1).toNat?.map (fun n => (n : Int))
  else s.toNat?.map (fun n => (n : Int))

/-- Exact rationals travel as `"num/den"` or `"num"`. -/
def parseRat (s : String) : Except String Rat :=
  match s.splitOn "/" with
  | [a] => match parseInt? a with
    | some n => .ok (n : Rat)
    | none => .error s!"bad rational {s}"
  | [a, b] => match parseInt? a, b.toNat? with
    | some n, some d => if d == 0 then .error s!"zero denominator {s}" else .ok ((n : Rat) / (d : Rat))
    | _, _ => .error s!"bad rational {s}"
  | _ => .error s!"bad rational {s}"

def ratStr (r : Rat) : String := if r.den == 1 then toString r.num else s!"{r.num}/{r.den}"

def jRat (j : Json) : Except String Rat :=
  match j with
  | .str s => parseRat s
  | .num n => if n.exponent == 0 then .ok (n.mantissa : Rat)
              else .ok ((n.mantissa : Rat) / ((10 ^ n.exponent : Nat) : Rat))
  | _ => .error "expected rational"

def jRat? (j : Json) : Except String (Option Rat) :=
  match j with
  | .null => .ok none
  | _ => (jRat j).map some

def jStr (j : Json) : Except String String := j.getStr?
def jNat (j : Json) : Except String Nat := j.getNat?
def jInt (j : Json) : Except String Int := j.getInt?
def jBool (j : Json) : Except String Bool := j.getBool?

def jList {α} (f : Json → Except String α) (j : Json) : Except String (List α) := do
  let a ← j.getArr?
  a.toList.mapM f

def jOpt {α} (f : Json → Except String α) (j : Json) : Except String (Option α) :=
  match j with
  | .null => .ok none
  | _ => (f j).map some

def field (j : Json) (k : String) : Except String Json := j.getObjVal? k

def fieldD (j : Json) (k : String) (d : Json) : Json :=
  match j.getObjVal? k with
  | .ok v => v
  | .error _ => d

def jPair {α β} (f : Json → Except String α) (g : Json → Except String β) (j : Json) :
    Except String (α × β) := do
  let a ← j.getArr?
  if h : a.size = 2 then
    let x ← f a[0]
    let y ← g a[1]
    pure (x, y)
  else .error "expected pair"

def ratJ (r : Rat) : Json := .str (ratStr r)
def listJ {α} (f : α → Json) (xs : List α) : Json := .arr (xs.map f).toArray
def strJ (s : String) : Json := .str s
def natJ (n : Nat) : Json := .num n
def intJ (n : Int) : Json := .num (JsonNumber.fromInt n)
def boolJ (b : Bool) : Json := .bool b
def optJ {α} (f : α → Json) : Option α → Json
  | none => .null
  | some a => f a
def objJ (kvs : List (String × Json)) : Json := Json.mkObj kvs

end Aldy.Wire
