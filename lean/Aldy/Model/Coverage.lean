import Aldy.Model.Gene

/-!
Model of `aldy/coverage.py: Coverage` (constructor rule for parsed insertions, `coverage`,
`total`, `single_copy`, `percentage`, `average_coverage`, `filtered`, `basic_filter`,
`quality_filter`) and of the profile parameters the stages read.
-/

namespace Aldy

/-- Profile parameters read by the stages (`aldy/profile.py`, defaults in
`Generated/Constants.lean`). -/
structure ProfileV where
  threshold : Rat
  minCoverage : Rat
  minQuality : Rat
  minMapq : Rat
  cnMax : Rat
  gap : Rat
  cnPcePenalty : Rat
  cnDiff : Rat
  cnFit : Rat
  cnParsimony : Rat
  cnFusionLeft : Rat
  cnFusionRight : Rat
  majorNovel : Rat
  minorMiss : Rat
  minorAdd : Rat
  minorPhase : Rat
  minorPhaseVars : Rat := 3000
  phase : Bool := true
  male : Bool := false
  maxMinorSolutions : Nat := 1
deriving Repr

/-- One observation: `(mapping quality, base quality)` (binned; means for merged MNPs). -/
abbrev Obs := Rat × Rat

structure Cov where
  table : List (Int × List (String × List Obs))     -- `_coverage[pos][op]`
  indels : List (Mut × (Rat × Rat))                 -- `_indels[(pos, op)] = (n, y)`; `[]` = falsy
deriving Repr

namespace Cov

/-- `Coverage.__init__`: when an indel table is given (truthy = non-empty dict) every parsed
`ins…` entry is dropped and only indels with support (`y ≠ 0`) are kept. -/
def make (coverage : List (Int × List (String × List Obs)))
    (indelCoverage : List (Mut × (Rat × Rat))) : Cov :=
  let truthy := !indelCoverage.isEmpty
  { table := coverage.map fun (pos, ops) =>
      (pos, ops.filter fun (op, _) => !(truthy && opIsIns op))
    indels := if truthy then indelCoverage.filter (fun e => e.2.2 != 0) else [] }

def ops (c : Cov) (pos : Int) : List (String × List Obs) := (c.table.lookup pos).getD []

def quals (c : Cov) (m : Mut) : List Obs := ((c.ops m.pos).lookup m.op).getD []

def indel? (c : Cov) (m : Mut) : Option (Rat × Rat) := c.indels.lookup m

/-- `coverage(mut)` / `__getitem__`. -/
def coverage (c : Cov) (m : Mut) : Rat :=
  match c.indel? m with
  | some (_, y) => y
  | none => ((c.quals m).length : Rat)

/-- `total(pos)` for an integer argument: insertions are not counted. -/
def totalPos (c : Cov) (pos : Int) : Rat :=
  (((c.ops pos).filter fun (op, _) => !opIsIns op).map fun (_, q) => (q.length : Rat)).sum

/-- `total(m)` for a `Mutation` argument. -/
def total (c : Cov) (m : Mut) : Rat :=
  match c.indel? m with
  | some (n, y) => n + y
  | none => c.totalPos m.pos

def percentage (c : Cov) (m : Mut) : Rat :=
  if c.total m == 0 then 0 else 100 * c.coverage m / c.total m

/-- `single_copy(m, cn_solution)` for a `Mutation` argument. -/
def singleCopy (c : Cov) (g : GeneView) (s : CNSol) (m : Mut) : Rat :=
  let pc := s.positionCn g m.pos
  if pc == 0 then 0 else (if c.total m < 1 then 1 else c.total m) / pc

/-- `single_copy(pos, cn_solution)` for an integer argument. -/
def singleCopyPos (c : Cov) (g : GeneView) (s : CNSol) (pos : Int) : Rat :=
  let pc := s.positionCn g pos
  if pc == 0 then 0 else (if c.totalPos pos < 1 then 1 else c.totalPos pos) / pc

/-- `average_coverage()`. -/
def averageCoverage (c : Cov) : Rat :=
  (c.table.map fun (pos, _) => c.totalPos pos).sum / ((c.table.length : Rat) + Const.AVG_COV_DENOM_ADD)

/-- Python `max(a, b)` on numbers -/
def ratMax (a b : Rat) : Rat := if a < b then b else a

/-- `basic_filter(mut, cn, thres)` with Python's `thres or profile.threshold`, `cn or 1`. -/
def basicFilter (c : Cov) (p : ProfileV) (m : Mut) (cn : Option Rat) (thres : Option Rat) : Bool :=
  let t0 := match thres with
    | some t => if t == 0 then p.threshold else t
    | none => p.threshold
  let c0 := match cn with
    | some k => if k == 0 then 1 else k
    | none => 1
  let t := t0 / c0
  decide (c.coverage m ≥ ratMax p.minCoverage (c.total m * t))

/-- `quality_filter(mut)`. -/
def qualityFilter (c : Cov) (p : ProfileV) (m : Mut) : List Obs :=
  (c.quals m).filter fun (mq, q) => decide (q ≥ p.minQuality) && decide (mq ≥ p.minMapq)

/-- What a `filter_fn` may return: a (possibly empty) list of observations, or a boolean. -/
inductive FilterRes
  | quals (l : List Obs)
  | keep (b : Bool)

/-- `filtered(filter_fn)`: a new object; positions are kept (possibly empty), `_indels` entries
are dropped only when the filter returns the boolean `False`. -/
def filtered (c : Cov) (f : Cov → Mut → FilterRes) : Cov :=
  { table := c.table.map fun (pos, ops) =>
      (pos, ops.filterMap fun (op, q) =>
        match f c ⟨pos, op⟩ with
        | .quals l => if l.isEmpty then none else some (op, l)
        | .keep true => some (op, q)
        | .keep false => none)
    indels := c.indels.filter fun (m, _) =>
      match f c m with
      | .keep false => false
      | _ => true }

def qfiltered (c : Cov) (p : ProfileV) : Cov := c.filtered fun c' m => .quals (c'.qualityFilter p m)

end Cov

end Aldy
