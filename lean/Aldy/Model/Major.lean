import Aldy.Model.Ilp
import Aldy.Model.Coverage

/-!
Model of `aldy/major.py`:
* `filterAlleles`  = `_filter_alleles` (lines 238-289)
* `buildMajor`     = the model construction of `solve_major_model` (lines 91-197)
* `decodeMajor`    = the read-out (lines 201-235)
* `estimateMajorCandidates` = the emptiness rule of `estimate_major` (lines 45-54)
-/

namespace Aldy

inductive MVar
  | A (a : String) (i : Nat)     -- `A_{allele}_{copy}`
  | E (m : Mut)                  -- `E_{pos}_{op}`; reference rows use op `_` and the name `E_{pos}_REF`
  | N (m : Mut)                  -- `N_{m}`
  | OR (m : Mut)
  | XOR (m : Mut)
  | NOVEL
  | ABS (m : Mut)                -- `ABS_` + name of `E m`
deriving DecidableEq, Repr

def refMut (pos : Int) : Mut := ⟨pos, "_"⟩

def eName (m : Mut) : String :=
  if m.op == "_" then s!"E_{m.pos}_REF" else s!"E_{m.pos}_{m.op}"

/-- Names as passed to `addVar`, before `escape_name`. -/
def MVar.rawName : MVar → String
  | .A a i => s!"A_{a}_{i}"
  | .E m => eName m
  | .N m => s!"N_{m.str}"
  | .OR m => s!"OR_{m.str}"
  | .XOR m => s!"XOR_{m.str}"
  | .NOVEL => "NOVEL"
  | .ABS m => s!"ABS_{escapeBase (eName m)}"

def MVar.name (v : MVar) : String := escapeBase v.rawName

structure MajorInst where
  gene : GeneView
  cov : Cov                       -- the (already filtered) coverage handed to `solve_major_model`
  cn : CNSol
  alleles : List MajorA           -- `allele_dict`
  majorNovel : Rat
  gap : Rat

namespace MajorInst

/-- `func_muts`: catalogued functional mutations with positive coverage. -/
def funcMuts (I : MajorInst) : List Mut :=
  (I.gene.mutations.filter fun i => i.functional && decide (I.cov.coverage i.m > 0)).map (·.m)

/-- Copy indices of an allele: always copy 0, then `1 .. count-1`. -/
def copies (I : MajorInst) (a : MajorA) : List Nat :=
  0 :: (List.range (I.cn.count a.cnConfig)).filter (fun i => i ≥ 1)

/-- All `(allele, copy)` selectors. -/
def slots (I : MajorInst) : List (MajorA × Nat) :=
  I.alleles.flatMap fun a => (I.copies a).map fun i => (a, i)

def positions (I : MajorInst) : List Int := (I.funcMuts.map (·.pos)).eraseDups

/-- Observed copy number of a row: `cov[m] / single_copy(m)`, 0 where the structure has no copy. -/
def observed (I : MajorInst) (m : Mut) : Rat :=
  if I.cov.singleCopyPos I.gene I.cn m.pos == 0 then 0
  else I.cov.coverage m / I.cov.singleCopy I.gene I.cn m

/-- Slots that carry the functional mutation `m`. -/
def carriers (I : MajorInst) (m : Mut) : List (MajorA × Nat) :=
  I.slots.filter fun s => s.1.func.contains m

/-- Slots counted as reference at `pos`: the allele has copies there and none of its core
variants other than insertions sits at `pos`. -/
def refCarriers (I : MajorInst) (pos : Int) : List (MajorA × Nat) :=
  I.slots.filter fun s =>
    I.gene.hasCoverage s.1.name pos && !(s.1.func.any fun ma => ma.pos == pos && !ma.isIns)

def va (s : MajorA × Nat) : MVar := .A s.1.name s.2

def ones (vs : List MVar) : List (Rat × MVar) := vs.map fun v => ((1 : Rat), v)

/-- both directions of an equality `terms = rhs`, as the code adds them (`<=` then `>=`) -/
def eqCons (terms : List (Rat × MVar)) (rhs : Rat) : List (LinCon MVar) :=
  [⟨terms, .le, rhs⟩, ⟨terms, .ge, rhs⟩]

def consCORD (I : MajorInst) : List (LinCon MVar) :=
  (I.slots.filter fun s => s.2 > 0).map fun s => leVar (va s) (.A s.1.name (s.2 - 1))

def consCONE (I : MajorInst) : List (LinCon MVar) :=
  I.positions.map fun pos =>
    ⟨ones ((I.funcMuts.filter fun m => m.pos == pos && !m.isIns).map MVar.N), .le, 1⟩

def consCFUNC (I : MajorInst) : List (LinCon MVar) :=
  (I.funcMuts.flatMap fun m =>
      eqCons (ones ((I.carriers m).map va) ++ [(1, .N m), (1, .E m)]) (I.observed m)) ++
  (I.positions.flatMap fun pos =>
      eqCons (ones ((I.refCarriers pos).map va) ++ [(1, .E (refMut pos))]) (I.observed (refMut pos)))

def consCSAT (I : MajorInst) : List (LinCon MVar) :=
  I.cn.solution.flatMap fun cc =>
    eqCons (ones ((I.slots.filter fun s => s.1.cnConfig == cc.1).map va)) (cc.2 : Rat)

def consXOR (I : MajorInst) : List (LinCon MVar) :=
  I.funcMuts.flatMap fun m =>
    orCons (.OR m) ((I.carriers m).map va) ++ xorCons (.XOR m) (.N m) (.OR m)

/-- every error row, variant rows first then reference rows (creation order of `VERR`) -/
def errRows (I : MajorInst) : List Mut := I.funcMuts ++ I.positions.map refMut

def consABS (I : MajorInst) : List (LinCon MVar) :=
  I.errRows.flatMap fun m => absCons (.ABS m) (.E m)

def consNOVEL (I : MajorInst) : List (LinCon MVar) :=
  (I.funcMuts.map fun m => (⟨[(1, .NOVEL), (-1, .N m)], .ge, 0⟩ : LinCon MVar)) ++
  [⟨(1, .NOVEL) :: I.funcMuts.map (fun m => ((-1 : Rat), MVar.N m)), .le, 0⟩]

def build (I : MajorInst) : Ilp MVar where
  vars :=
    I.slots.map (fun s => (va s, Kind.bin)) ++
    I.errRows.map (fun m => (MVar.E m, Kind.cont none none)) ++
    I.funcMuts.map (fun m => (MVar.N m, Kind.bin)) ++
    I.funcMuts.flatMap (fun m => [(MVar.OR m, Kind.bin), (MVar.XOR m, Kind.bin)]) ++
    I.errRows.map (fun m => (MVar.ABS m, Kind.cont (some 0) none)) ++
    [(MVar.NOVEL, Kind.bin)]
  cons := I.consCORD ++ I.consCONE ++ I.consCFUNC ++ I.consCSAT ++ I.consXOR ++ I.consABS ++ I.consNOVEL
  obj :=
    I.errRows.map (fun m => ((1 : Rat), MVar.ABS m)) ++
    [(I.majorNovel, MVar.NOVEL)] ++
    I.funcMuts.map (fun m => (Const.MAJOR_NOVEL_EACH, MVar.N m))

end MajorInst

/-! ### Candidate filtering (`_filter_alleles`) -/

/-- `filter_fns` of `_filter_alleles`. -/
def majorFilterFn (g : GeneView) (p : ProfileV) (s : CNSol) (c : Cov) (m : Mut) : Cov.FilterRes :=
  let c1 := c.basicFilter p m (some p.cnMax) none
  if m.op != "_" then
    .keep (c1 && c.basicFilter p m (some ((s.positionCn g m.pos : Rat) + Const.MAJOR_FILTER_CN_ADD)) none)
  else .keep c1

def majorFilteredCov (g : GeneView) (p : ProfileV) (s : CNSol) (c : Cov) : Cov :=
  (c.qfiltered p).filtered (majorFilterFn g p s)

/-- Alleles that survive: configuration is part of the structure and every core variant has
positive filtered coverage. -/
def filterAlleles (g : GeneView) (p : ProfileV) (s : CNSol) (c : Cov) : List MajorA × Cov :=
  let cov := majorFilteredCov g p s c
  (g.alleles.filter fun a =>
    (s.solution.any fun cc => cc.1 == a.cnConfig) && a.func.all fun m => decide (cov.coverage m > 0), cov)

/-- `estimate_major`: no model is solved when some configuration of the structure has no
candidate allele. -/
def majorHasCandidates (s : CNSol) (alleles : List MajorA) : Bool :=
  s.solution.all fun cc => alleles.any fun a => a.cnConfig == cc.1

/-! ### Read-out -/

structure MajorSolV where
  score : Rat
  alleles : List String          -- sorted, with multiplicity
  novel : List Mut               -- sorted
deriving Repr, DecidableEq

end Aldy
