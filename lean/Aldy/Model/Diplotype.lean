import Aldy.Generated.Constants
/-!
Model of `aldy/diplotype.py: estimate_diplotype` (lines 224-308), of the natural-sort key
(natsort's default INT algorithm on allele names) and of the name rendering
`MinorSolution.get_major_name` (solutions.py 195-225, default display format).

No imports: used by the executable driver.
-/

namespace Aldy

/-! ### natural sort key -/

inductive Chunk | text (s : List Char) | num (n : Nat)
deriving DecidableEq, Repr

def isDig (c : Char) : Bool := '0' ≤ c && c ≤ '9'

def digitsVal (cs : List Char) : Nat := cs.foldl (fun acc c => acc * 10 + (c.toNat - 48)) 0

/-- split into maximal digit / non-digit runs -/
def runs : List Char → List (Bool × List Char)
  | [] => []
  | c :: cs =>
    match runs cs with
    | (d, r) :: rest => if d == isDig c then (d, c :: r) :: rest else (isDig c, [c]) :: (d, r) :: rest
    | [] => [(isDig c, [c])]

/-- natsort key: alternating text / number chunks, always starting with a text chunk
(`''` is put in front of a leading number); the empty string has the empty key. -/
def natKey (s : String) : List Chunk :=
  let rs := runs s.toList
  let cs := rs.map fun r => if r.1 then Chunk.num (digitsVal r.2) else Chunk.text r.2
  match cs with
  | Chunk.num n :: rest => Chunk.text [] :: Chunk.num n :: rest
  | _ => cs

def chunkLt : Chunk → Chunk → Bool
  | .text a, .text b => decide (a < b)
  | .num a, .num b => decide (a < b)
  | .text _, .num _ => true       -- cannot happen at equal positions of two keys
  | .num _, .text _ => false

/-- lexicographic order on keys (Python tuple comparison) -/
def keyLt : List Chunk → List Chunk → Bool
  | [], [] => false
  | [], _ :: _ => true
  | _ :: _, [] => false
  | a :: as, b :: bs => if chunkLt a b then true else if chunkLt b a then false else keyLt as bs

/-- lexicographic order on lists of keys (key of a list of names) -/
def keysLt : List (List Chunk) → List (List Chunk) → Bool
  | [], [] => false
  | [], _ :: _ => true
  | _ :: _, [] => false
  | a :: as, b :: bs => if keyLt a b then true else if keyLt b a then false else keysLt as bs

/-- stable insertion: `x` goes before the first element that is strictly greater -/
def insertStable {α : Type} (lt : α → α → Bool) (x : α) : List α → List α
  | [] => [x]
  | y :: ys => if lt x y then x :: y :: ys else y :: insertStable lt x ys

/-- stable sort (behaves like Python's `sorted` with a key) -/
def sortStable {α : Type} (lt : α → α → Bool) (l : List α) : List α :=
  l.foldl (fun acc x => insertStable lt x acc) []

/-! ### the arrangement -/

/-- an entry of a haplotype: a copy index (−1 = deletion placeholder) or a tandem pair -/
inductive Item | one (i : Int) | pair (a b : Int)
deriving DecidableEq, Repr

instance : Inhabited Item := ⟨.one 0⟩

def Item.flat : Item → List Int
  | .one i => [i]
  | .pair a b => [a, b]

def Item.xlen : Item → Nat
  | .one _ => 1
  | .pair _ _ => 2

def xlen (d : List Item) : Nat := (d.map Item.xlen).sum

structure DipIn where
  majors : List String                  -- `solution.solution[i].major`
  names : List String                   -- `solution.get_major_name(i)`
  delAllele : Option String
  tandems : List (String × String)
deriving Repr

abbrev Dict := List (String × List Int)

/-- `str(a.major).split("#")[0]`, then `re.split(r"(\d+)", n)`: the leading non-digit prefix if
there is one, else the first digit run. -/
def realKey (major : String) : String :=
  let n := major.toList.takeWhile (· != '#')
  let pre := n.takeWhile (fun c => !isDig c)
  if pre.isEmpty then String.ofList (n.takeWhile isDig) else String.ofList pre

def dictAppend : Dict → String → Int → Dict
  | [], k, v => [(k, [v])]
  | e :: es, k, v => if e.1 == k then (e.1, e.2 ++ [v]) :: es else e :: dictAppend es k v

/-- `major_dict[k]` on a defaultdict: creates the key when missing -/
def dictTouch : Dict → String → Dict
  | [], k => [(k, [])]
  | e :: es, k => if e.1 == k then e :: es else e :: dictTouch es k

def dictGet : Dict → String → List Int
  | [], _ => []
  | e :: es, k => if e.1 == k then e.2 else dictGet es k

def dictSet : Dict → String → List Int → Dict
  | [], _, _ => []
  | e :: es, k, v => if e.1 == k then (e.1, v) :: es else e :: dictSet es k v

structure DipState where
  dict : Dict
  d0 : List Item
  d1 : List Item
  dc : Nat
deriving Repr

def DipState.side (s : DipState) (k : Nat) : List Item := if k % 2 == 0 then s.d0 else s.d1

def DipState.addTo (s : DipState) (k : Nat) (items : List Item) : DipState :=
  if k % 2 == 0 then { s with d0 := s.d0 ++ items } else { s with d1 := s.d1 ++ items }

/-- phase 1+2: group copies by allele number, add deletion placeholders -/
def phaseGroup (I : DipIn) : Dict :=
  let n := I.majors.length
  let d := (I.majors.zipIdx).foldl (fun acc mi => dictAppend acc (realKey mi.1) (mi.2 : Int)) []
  match I.delAllele with
  | some del =>
    if n == 0 then dictAppend (dictAppend d del (-1)) del (-1)
    else if n == 1 then dictAppend d del (-1)
    else d
  | none => d

/-- one common tandem `(ta, tb)`: pair first elements while both lists are non-empty -/
def tandemLoop (ta tb : String) : Nat → DipState → DipState
  | 0, s => s
  | fuel + 1, s =>
    let d1 := dictTouch s.dict ta
    if (dictGet d1 ta).isEmpty then { s with dict := d1 }
    else
      let d2 := dictTouch d1 tb
      match dictGet d2 ta, dictGet d2 tb with
      | a :: as, b :: bs =>
        let s' := ({ s with dict := dictSet (dictSet d2 ta as) tb bs }).addTo s.dc [Item.pair a b]
        tandemLoop ta tb fuel { s' with dc := s.dc + 1 }
      | _, _ => { s with dict := d2 }

def phaseTandem (I : DipIn) (s : DipState) : DipState :=
  if I.majors.length > 2 then
    I.tandems.foldl (fun st t => tandemLoop t.1 t.2 (I.majors.length + 2) st) s
  else s

/-- single allele number with an even number of copies: split in halves -/
def phaseEven (s : DipState) : DipState :=
  match s.dict with
  | [(_, items)] =>
    if items.length % 2 == 0 then
      let h := items.length / 2
      let s1 := s.addTo s.dc ((items.take h).map Item.one)
      let s2 := s1.addTo (s.dc + 1) ((items.drop h).map Item.one)
      { s2 with dc := s.dc + 2, dict := [] }
    else s
  | _ => s

def balance (s : DipState) : Nat :=
  if xlen (s.side s.dc) > xlen (s.side (s.dc + 1)) then s.dc + 1 else s.dc

/-- duplicates: every allele number with more than one copy goes to the lighter side -/
def phaseDup (s : DipState) : DipState :=
  s.dict.foldl (fun st e =>
    let items := dictGet st.dict e.1
    if items.length > 1 then
      let k := balance st
      let st' := st.addTo k (items.map Item.one)
      { st' with dc := k + 1, dict := dictSet st'.dict e.1 [] }
    else st) s

/-- the rest: remaining single copies, each to the lighter side -/
def phaseRest (s : DipState) : DipState :=
  s.dict.foldl (fun st e =>
    let items := dictGet st.dict e.1
    if !items.isEmpty then
      let k := balance st
      let st' := st.addTo k (items.map Item.one)
      { st' with dc := k + 1, dict := dictSet st'.dict e.1 [] }
    else st) s

/-- "each diplotype should have at least one item" -/
def phaseFix (s : DipState) : List Item × List Item :=
  if s.d1.isEmpty then
    if s.d0.length > 1 then (s.d0.dropLast, (s.d0.getLast?).toList)
    else (s.d0, s.d1)     -- the `isinstance(diplotype[0][0], tuple)` branch is unreachable (see Props/C11)
  else (s.d0, s.d1)

def nameOf (I : DipIn) (i : Int) : String :=
  if i < 0 then I.delAllele.getD "" else I.names.getD i.toNat ""

def itemKey (I : DipIn) : Item → List Chunk
  | .one i => natKey (nameOf I i)
  | .pair a _ => natKey (nameOf I a)

def flatten (I : DipIn) (d : List Item) : List Int :=
  (sortStable (fun x y => keyLt (itemKey I x) (itemKey I y)) d).flatMap Item.flat

def estimateDiplotype (I : DipIn) : List (List Int) :=
  let s0 : DipState := { dict := phaseGroup I, d0 := [], d1 := [], dc := 0 }
  let s := phaseRest (phaseDup (phaseEven (phaseTandem I s0)))
  let (a, b) := phaseFix s
  let fa := flatten I a
  let fb := flatten I b
  sortStable (fun x y => keysLt (x.map fun i => natKey (nameOf I i)) (y.map fun i => natKey (nameOf I i))) [fa, fb]

/-! ### name rendering -/

structure AddedMut where
  pos : Int
  op : String
  rsid : String              -- `gene.mutations[m][1]` or "-" when not catalogued
  functional : Bool          -- `gene.is_functional(m, infer=False)`
  refPos : Int := 0          -- `gene.chr_to_ref.get(m.pos, m.pos)`: RefSeq position, the order key of the name
deriving Repr

/-- order of the added variants in a name: by RefSeq position when the code sorts that way
(`Const.NAME_ORDER_BY_REFSEQ`, regenerated from `get_major_name`), else by genome position -/
def addedLt (a b : AddedMut) : Bool :=
  if Const.NAME_ORDER_BY_REFSEQ then a.refPos < b.refPos || (a.refPos == b.refPos && a.op < b.op)
  else a.pos < b.pos || (a.pos == b.pos && a.op < b.op)

/-- `gene.get_rsid(m)`: the rsid, or `pos+1.op` when there is none -/
def rsidOf (m : AddedMut) : String := if m.rsid != "-" then m.rsid else s!"{m.pos + 1}.{m.op}"

/-- `get_major_name(i)` (default display format): major without fusion suffix, then the
functional added variants in `sorted` order -/
def majorName (major : String) (addedSorted : List AddedMut) : String :=
  String.intercalate "+" (String.ofList (major.toList.takeWhile (· != '#')) ::
    (addedSorted.filter (·.functional)).map rsidOf)

/-- `get_major_diplotype()` -/
def renderDiplotype (I : DipIn) (d : List (List Int)) : String :=
  String.intercalate " / " ((d.filter (fun h => !h.isEmpty)).map fun h =>
    String.intercalate " + " (h.map fun i => "*" ++ nameOf I i))

end Aldy
