import Aldy.Model.Coverage

/-!
Model of the "no data" guards:
* `Sample.__init__` (sam.py 126-135): normalisation only with a neutral region; empty neutral
  region and zero ratio are errors (`Coverage._normalize_coverage`, coverage.py 185-201);
  neutral depth below `DIPLOID_MIN_COV` is an error
* `genotype` (genotype.py 206-220): average depth over the covered locus below
  `min_avg_coverage` is an error for every alignment input (not for VCF / Pharmacoscan)
* `estimate_cn` (cn.py 72-79): total normalised depth below half the smallest configuration
-/

namespace Aldy

structure GuardIn where
  kindVcf : Bool              -- input is a VCF or Pharmacoscan file
  hasCnRegion : Bool          -- profile carries a copy-number-neutral region (not user-supplied structure)
  avgCov : Rat                -- `coverage.average_coverage()`
  minAvgCov : Rat             -- `profile.min_avg_coverage`
  neutralSum : Rat            -- reads summed over the neutral region of the sample
  neutralValue : Rat          -- `profile.neutral_value`
  neutralLen : Rat            -- |cn_region.end - cn_region.start|
deriving Repr

inductive GuardOut
  | emptyNeutral | invalidProfile | lowNeutralDepth | lowAverageDepth | proceed
deriving Repr, DecidableEq

def guard (i : GuardIn) : GuardOut :=
  if i.hasCnRegion && i.neutralSum == 0 then .emptyNeutral
  else if i.hasCnRegion && i.neutralValue / i.neutralSum == 0 then .invalidProfile
  else if i.hasCnRegion && decide (i.neutralSum / i.neutralLen < Const.DIPLOID_MIN_COV) then .lowNeutralDepth
  else if !i.kindVcf && (!Const.GUARD_REQUIRES_CN_REGION || i.hasCnRegion) && decide (i.avgCov < i.minAvgCov) then .lowAverageDepth
  else .proceed

/-- `estimate_cn`: `total_cov < min_cov / 2` -/
def cnTooLow (totalCov : Rat) (minConfigCopies : Int) : Bool :=
  decide (totalCov < (minConfigCopies : Rat) / Const.CN_LOW_COV_DIV)

end Aldy
