import Aldy.Model.Names

/-!
The catalogue as the solver stages see it (`aldy/gene.py` objects after loading): mutations,
major/minor alleles, structural configurations, region lookup.  How a YAML database becomes
this view is the subject of C08/C09 (`Model/Catalogue.lean`); the stage models take the view
as input, and the harness serialises the *real* `Gene` object into it.
-/

namespace Aldy

/-- `aldy.gene.Mutation(pos, op)`; Python orders them as tuples (int, str). -/
structure Mut where
  pos : Int
  op : String
deriving DecidableEq, Repr, Hashable

/-- Python's tuple order on `(pos, op)`. -/
def Mut.lt (a b : Mut) : Bool := a.pos < b.pos || (a.pos == b.pos && a.op < b.op)

/-- `str(Mutation)` = `f"{pos + 1}.{op}"`. -/
def Mut.str (m : Mut) : String := s!"{m.pos + 1}.{m.op}"

/-- `op[:3] == "ins"` -/
def opIsIns (op : String) : Bool := op.toList.take 3 == ['i', 'n', 's']
def Mut.isIns (m : Mut) : Bool := opIsIns m.op

inductive CNKind | default | leftFusion | rightFusion | deletion | custom
deriving DecidableEq, Repr

/-- `CNConfig`: per gene (0 = main gene, 1 = pseudogene) the copy number of each region. -/
structure CNConf where
  name : String
  kind : CNKind
  cn : List (List (String × Int))
  alleles : List String := []
deriving Repr

structure MinorA where
  name : String
  neutral : List Mut
  altName : Option String := none
deriving Repr

structure MajorA where
  name : String
  cnConfig : String
  func : List Mut
  minors : List MinorA := []
deriving Repr

/-- Per catalogued mutation: `gene.mutations[(pos, op)]` reduced to what the stages read. -/
structure MutInfo where
  m : Mut
  functional : Bool           -- `gene.is_functional(m)` (database annotation or inferred)
  rsid : String := "-"
deriving Repr

structure GeneView where
  name : String
  regionNames : List String                    -- keys of `gene.regions[0]`, in order
  nGenes : Nat                                 -- `len(gene.regions)`
  uniqueRegions : List String
  regionAt : List (Int × (Nat × String))        -- `gene.region_at(pos)` for every position used
  mutations : List MutInfo
  alleles : List MajorA                        -- `gene.alleles` in dict order
  cnConfigs : List CNConf                      -- `gene.cn_configs` in dict order
  randomMuts : List Mut := []
  tandems : List (String × String) := []
deriving Repr

namespace GeneView

def regionOf (g : GeneView) (pos : Int) : Option (Nat × String) := g.regionAt.lookup pos

def config? (g : GeneView) (n : String) : Option CNConf := g.cnConfigs.find? (fun c => c.name == n)

def allele? (g : GeneView) (n : String) : Option MajorA := g.alleles.find? (fun a => a.name == n)

/-- `gene.deletion_allele()`: first configuration of kind DELETION. -/
def deletionAllele (g : GeneView) : Option String :=
  (g.cnConfigs.find? (fun c => c.kind == .deletion)).map (·.name)

def CNConf.cnAt (c : CNConf) (gi : Nat) (r : String) : Option Int :=
  (c.cn.getD gi []).lookup r

/-- `gene.has_coverage(a, pos)`: the allele's configuration has a positive copy number in the
region that contains `pos`. -/
def hasCoverage (g : GeneView) (allele : String) (pos : Int) : Bool :=
  match g.regionOf pos, g.allele? allele with
  | some (gi, r), some a =>
    match g.config? a.cnConfig with
    | some c => decide ((CNConf.cnAt c gi r).getD 0 > 0)
    | none => false
  | _, _ => false

def isFunctional (g : GeneView) (m : Mut) : Bool :=
  match g.mutations.find? (fun i => i.m == m) with
  | some i => i.functional
  | none => false

end GeneView

/-- `CNSolution`: multiset of configuration names with the derived per-region copy numbers. -/
structure CNSol where
  solution : List (String × Nat)               -- `Counter(solution)` in insertion order
  deriving Repr

namespace CNSol

def count (s : CNSol) (cfg : String) : Nat := (s.solution.lookup cfg).getD 0

/-- `sum(self.solution.values())`. -/
def maxCn (s : CNSol) : Nat := (s.solution.map (·.2)).sum

/-- `region_cn[gi][r]`: sum over the called configurations. -/
def regionCn (g : GeneView) (s : CNSol) (gi : Nat) (r : String) : Int :=
  (s.solution.map fun (cfg, k) =>
    match g.config? cfg with
    | some c => (k : Int) * (GeneView.CNConf.cnAt c gi r).getD 0
    | none => 0).sum

/-- `position_cn(pos)`. -/
def positionCn (g : GeneView) (s : CNSol) (pos : Int) : Int :=
  match g.regionOf pos with
  | some (gi, r) => s.regionCn g gi r
  | none => 0

end CNSol

end Aldy
