import Aldy.Model.Coverage

/-!
Model of the read pileup of `aldy/sam.py`:
* `eligible`      = the filters of `_load_sam` (lines 176-188) and `_in_region` (1026-1036)
* `parseRead`     = `_parse_read` (lines 610-730): CIGAR walk, quality binning, phase record,
                    multi-nucleotide substitution merging
* `makeCoverage`  = `_make_coverage` (579-608) + the `Coverage` constructor rule
-/

namespace Aldy

/-- what the pileup needs to know about the locus -/
structure LocusV where
  lookupStart : Int                 -- `gene._lookup_range[0]`
  lookupSeq : Array Char            -- `gene._lookup_seq` (genome orientation, `N` where unmapped)
  mapped : List (Int × Int)         -- maximal intervals `[a, b)` of positions in `chr_to_ref`
  phaseable : List Int              -- positions of catalogued variants
  multiSites : List (Int × String)  -- `_multi_sites`: position → multi-nucleotide substitution
  indelEqs : List ((Int × String) × (Int × String)) := []
                                    -- `_indel_phase_eqs`: reported indel → the database indel it spells
  wide : Int × Int                  -- `gene.get_wide_region()` start, end
deriving Repr

namespace LocusV

/-- `gene[p]` -/
def base (l : LocusV) (p : Int) : Char :=
  if l.lookupStart ≤ p ∧ p < l.lookupStart + l.lookupSeq.size then l.lookupSeq.getD (p - l.lookupStart).toNat 'N' else 'N'

/-- `gene[a:b]` -/
def slice (l : LocusV) (a : Int) (n : Nat) : List Char := (List.range n).map fun (i : Nat) => l.base (a + (i : Int))

/-- `p in gene` -/
def inGene (l : LocusV) (p : Int) : Bool := l.mapped.any fun ab => decide (ab.1 ≤ p ∧ p < ab.2)

/-- `min(chr_to_ref) <= p <= max(chr_to_ref)` -/
def inBounds (l : LocusV) (p : Int) : Bool :=
  match l.mapped with
  | [] => false
  | _ =>
    let lo := l.mapped.foldl (fun acc ab => if ab.1 < acc then ab.1 else acc) (l.mapped.head!.1)
    let hi := l.mapped.foldl (fun acc ab => if ab.2 > acc then ab.2 else acc) (l.mapped.head!.2)
    decide (lo ≤ p ∧ p < hi)

end LocusV

structure ReadV where
  fragment : String
  refStart : Int
  cigar : List (Nat × Nat)
  seq : Array Char
  mq : Rat
  qual : Option (Array Rat)
  -- eligibility inputs
  hasCigar : Bool := true
  supplementary : Bool := false
  refEnd : Option Int := none       -- `read.reference_end`
  sameChrom : Bool := true          -- mapped, on the gene's chromosome
deriving Repr

/-- `bin_quality` with the table from the generated constants; `int(q)` below the first bound -/
def binQuality (q : Rat) : Rat :=
  let rec go : List (Rat × Option Rat) → Rat
    | [] => Const.BIN_QUALITY_TOP
    | (ub, v) :: rest => if q < ub then (match v with | some x => x | none => (if q ≥ 0 then (q.floor : Rat) else -((-q).floor : Rat))) else go rest
  go Const.BIN_QUALITY_TABLE

/-- one observation: position, operation (`_` = reference, `-` = deleted base), qualities -/
structure Ev where
  pos : Int
  op : String
  obs : Obs
deriving Repr, DecidableEq

def ratMean (l : List Rat) : Rat := if l.isEmpty then 0 else l.sum / (l.length : Rat)

structure WalkState where
  start : Int
  sStart : Nat
  prevQ : Rat
  evs : List Ev                    -- in order of creation
  dump : List (Int × String)       -- `dump_arr`
  phase : List (Int × String)      -- writes to `phase`, in order
  indels : List (Int × String) := []   -- reported insertions / deletions, in order
deriving Repr

def qualAt (r : ReadV) (i : Nat) (prevQ : Rat) : Rat :=
  match r.qual with
  | some q => q.getD i 0
  | none => prevQ

def strOf (cs : List Char) : String := String.ofList cs

/-- the match/mismatch loop of one `M`/`=`/`X` run -/
def walkMatch (l : LocusV) (r : ReadV) (size : Nat) (s : WalkState) : WalkState :=
  let s' := (List.range size).foldl (fun (st : WalkState) (i : Nat) =>
    let p : Int := s.start + (i : Int)
    let q := qualAt r (s.sStart + i) st.prevQ
    let b := r.seq.getD (s.sStart + i) 'N'
    let o : Obs := (binQuality r.mq, binQuality q)
    if l.inGene p && l.base p != b then
      let op := strOf [l.base p, '>', b]
      { st with evs := st.evs ++ [⟨p, op, o⟩], dump := st.dump ++ [(p, op)],
                phase := if l.phaseable.contains p then st.phase ++ [(p, op)] else st.phase, prevQ := q }
    else
      { st with evs := st.evs ++ [⟨p, "_", o⟩],
                phase := if l.phaseable.contains p then st.phase ++ [(p, "_")] else st.phase, prevQ := q }) s
  { s' with start := s.start + size, sStart := s.sStart + size }

def walkOp (l : LocusV) (r : ReadV) (s : WalkState) (op size : Nat) : WalkState :=
  if op == 2 then
    let dop := "del" ++ strOf (l.slice s.start size)
    let o : Obs := (binQuality r.mq, binQuality s.prevQ)
    { s with evs := s.evs ++ (List.range size).map (fun (i : Nat) => ⟨s.start + (i : Int), "-", o⟩),
             dump := s.dump ++ [(s.start, dop)],
             indels := s.indels ++ [(s.start, dop)],
             phase := if l.phaseable.contains s.start then s.phase ++ [(s.start, dop)] else s.phase,
             start := s.start + size }
  else if op == 1 then
    let iop := "ins" ++ strOf ((List.range size).map fun i => r.seq.getD (s.sStart + i) 'N')
    let q := match r.qual with
      | some qs => ratMean ((List.range size).filterMap fun i => qs[s.sStart + i]?)
      | none => s.prevQ
    { s with evs := s.evs ++ [⟨s.start, iop, (binQuality r.mq, binQuality q)⟩],
             dump := s.dump ++ [(s.start, iop)],
             indels := s.indels ++ [(s.start, iop)],
             -- catalogued insertions are keyed by the base they follow
             phase := if l.phaseable.contains (s.start - 1) then s.phase ++ [(s.start - 1, iop)] else s.phase,
             prevQ := q, sStart := s.sStart + size }
  else if op == 4 then { s with sStart := s.sStart + size }
  else if Const.PARSE_MATCH_OPS.contains op then walkMatch l r size s
  else s

def walk (l : LocusV) (r : ReadV) : WalkState :=
  r.cigar.foldl (fun s c => walkOp l r s c.1 c.2)
    { start := r.refStart, sStart := 0, prevQ := Const.PARSE_PREV_Q, evs := [], dump := [], phase := [] }

/-- remove the last event with the given position and operation -/
def popLast (evs : List Ev) (pos : Int) (op : String) : List Ev × Option Obs :=
  let rev := evs.reverse
  match rev.findIdx? (fun e => e.pos == pos && e.op == op) with
  | some i => ((rev.eraseIdx i).reverse, (rev[i]?).map (·.obs))
  | none => (evs, none)

/-- components `(offset, substitution)` of a multi-substitution `l>r` (dots are skipped) -/
def mnpParts (op : String) : List (Nat × String) :=
  match op.splitOn ">" with
  | [l, r] =>
    ((l.toList.zip r.toList).zipIdx).filterMap fun x =>
      if x.1.1 != '.' then some (x.2, strOf [x.1.1, '>', x.1.2]) else none
  | _ => []

/-- multi-nucleotide substitution merging (lines 704-723) -/
def mergeMnp (l : LocusV) (evs : List Ev) (dump : List (Int × String)) : List Ev :=
  l.multiSites.foldl (fun evs site =>
    let pos := site.1
    let parts := mnpParts site.2
    if dump.any (fun d => d.1 == pos) && parts.all (fun p => dump.contains (pos + (p.1 : Int), p.2)) then
      let step := parts.foldl (fun (acc : List Ev × List Obs) p =>
        match popLast acc.1 (pos + (p.1 : Int)) p.2 with
        | (evs', some o) =>
          ((if p.1 != 0 then evs' ++ [⟨pos + (p.1 : Int), "_", o⟩] else evs'), acc.2 ++ [o])
        | (evs', none) => (evs', acc.2)) (evs, [])
      step.1 ++ [⟨pos, site.2, (ratMean (step.2.map (·.1)), ratMean (step.2.map (·.2)))⟩]
    else evs) evs

/-- is the multi-substitution at `site` merged for a read with this `dump_arr`? -/
def mnpMerged (dump : List (Int × String)) (site : Int × String) : Bool :=
  dump.any (fun d => d.1 == site.1) && (mnpParts site.2).all (fun p => dump.contains (site.1 + (p.1 : Int), p.2))

/-- phase writes of the merge: the merged operation at the first position, the reference marker
at the following ones (in line with what `mergeMnp` does to the observations) -/
def mergePhase (l : LocusV) (dump : List (Int × String)) : List (Int × String) :=
  l.multiSites.flatMap fun site =>
    if mnpMerged dump site then
      (mnpParts site.2).filterMap fun p =>
        if l.phaseable.contains (site.1 + (p.1 : Int)) then some (site.1 + (p.1 : Int), if p.1 != 0 then "_" else site.2) else none
    else []

/-- phase writes for indels reported at another position of their repeat: the database entry
they spell, at the database position -/
def eqPhase (l : LocusV) (indels : List (Int × String)) : List (Int × String) :=
  indels.filterMap fun m =>
    match l.indelEqs.lookup m with
    | some cat => if l.phaseable.contains cat.1 then some cat else none
    | none => none

/-- `_parse_read`: the observations one read adds and its phase writes -/
def parseRead (l : LocusV) (r : ReadV) : List Ev × List (Int × String) :=
  let w := walk l r
  (mergeMnp l w.evs w.dump, w.phase ++ eqPhase l w.indels ++ mergePhase l w.dump)

/-- reference bases consumed by one CIGAR operation, as the walk sees it -/
def consumes (op size : Nat) : Nat := if op == 2 || Const.PARSE_MATCH_OPS.contains op then size else 0

/-- reference span end of a CIGAR as the walk sees it -/
def refLen (cigar : List (Nat × Nat)) : Nat :=
  (cigar.map fun c => if c.1 == 2 || Const.PARSE_MATCH_OPS.contains c.1 then c.2 else 0).sum

/-- eligibility (`_load_sam` filters + `_in_region`) -/
def eligible (l : LocusV) (r : ReadV) (hardClipped emptySeq : Bool) : Bool :=
  r.hasCigar && !r.cigar.isEmpty && !r.supplementary && !hardClipped && !emptySeq && r.sameChrom &&
  (match r.refEnd with
   | none => false
   | some e =>
     decide ((r.refStart ≤ l.wide.1 ∧ l.wide.1 ≤ e) ∨ (l.wide.1 ≤ r.refStart ∧ r.refStart ≤ l.wide.2)))

/-! ### assembling the table -/

def addObs (t : List (Int × List (String × List Obs))) (pos : Int) (op : String) (o : Obs) :
    List (Int × List (String × List Obs)) :=
  if t.any (fun e => e.1 == pos) then
    t.map fun e =>
      if e.1 == pos then
        (e.1, if e.2.any (fun x => x.1 == op) then e.2.map (fun x => if x.1 == op then (x.1, x.2 ++ [o]) else x)
              else e.2 ++ [(op, [o])])
      else e
  else t ++ [(pos, [(op, [o])])]

/-- `_make_coverage`: substitutions/deletions outside the RefSeq bounds are folded into `_` -/
def makeTable (l : LocusV) (evs : List Ev) : List (Int × List (String × List Obs)) :=
  evs.foldl (fun t e =>
    let op := if e.op != "_" && !l.inBounds e.pos && !opIsIns e.op then "_" else e.op
    addObs t e.pos op e.obs) []

end Aldy
