import Aldy.Props.C03
import Mathlib.Data.List.Nodup

/-!
# C03 — the score of a gene structure is the documented one, and it is attained

`CNInst.specCN I σ` (`Model/CN.lean`) is the documented score of a selection of structure slots:
weighted absolute gene-minus-pseudogene residuals + absolute gene-fit residuals + parsimony /
fusion penalties of the selected slots.  It reads `σ` on the slot selectors only and never looks
at the error variables of the ILP.

* `cn_spec_lower_bound`     : every feasible point scores at least the documented score of its selection;
* `cn_decision_achievable`  : every selection that satisfies the three structural constraint
  families (two complete haplotypes, deletion exclusivity, slot order) and leaves every residual
  within `cn_max` is the selection of a feasible point whose objective **is** its documented score;
* `cn_optimum_is_spec_min`  : hence the objective of an optimum is the documented score of its
  selection, and no admissible selection has a lower documented score.
-/

namespace Aldy
open CNInst

theorem absC_eq_abs (x : Rat) : absC x = |x| := by
  unfold absC
  split_ifs with h
  · exact (abs_of_neg h).symm
  · exact (abs_of_nonneg (not_lt.mp h)).symm

theorem cn_list_sum_le_sum {α : Type} (l : List α) (f g : α → Rat) (h : ∀ x ∈ l, f x ≤ g x) :
    (l.map f).sum ≤ (l.map g).sum := by
  induction l with
  | nil => simp
  | cons x xs ih =>
    have h1 := h x (by simp)
    have h2 := ih (fun y hy => h y (by simp [hy]))
    simp only [List.map_cons, List.sum_cons]; linarith

/-- error variables of region `r` in the completed point: the residuals of the first row named `r` -/
def rowOf (I : CNInst) (r : String) : Option (String × (Rat × Rat)) := I.rows.find? fun rc => rc.1 == r

/-- a selection of slots completed with the residuals it leaves and their absolute values -/
def compσ (I : CNInst) (σ : CVar → Rat) : CVar → Rat
  | .S n i => σ (.S n i)
  | .EG r => match rowOf I r with | some rc => I.fitErr σ rc | none => 0
  | .E r => match rowOf I r with | some rc => I.diffErr σ rc | none => 0
  | .ABSEG r => match rowOf I r with | some rc => |I.fitErr σ rc| | none => 0
  | .ABSE r => match rowOf I r with | some rc => |I.diffErr σ rc| | none => 0

theorem evalTerms_congr_mem {V : Type} (σ τ : V → Rat) (ts : List (Rat × V)) (h : ∀ t ∈ ts, σ t.2 = τ t.2) :
    evalTerms σ ts = evalTerms τ ts := by
  induction ts with
  | nil => rfl
  | cons t ts ih =>
    have h1 := h t (by simp)
    have h2 := ih (fun x hx => h x (by simp [hx]))
    simp [h1, h2]

theorem geneTerms_slot_vars (I : CNInst) (r : String) : ∀ t ∈ I.geneTerms r, ∃ s, t.2 = sv s := by
  intro t ht
  unfold CNInst.geneTerms at ht
  obtain ⟨s, _, hs⟩ := List.mem_filterMap.mp ht
  cases hc : cnAt s 0 r with
  | none => simp [hc] at hs
  | some k => simp [hc] at hs; exact ⟨s, by rw [← hs]⟩

theorem diffTerms_slot_vars (I : CNInst) (r : String) (scale : Rat) : ∀ t ∈ I.diffTerms r scale, ∃ s, t.2 = sv s := by
  intro t ht
  unfold CNInst.diffTerms at ht
  obtain ⟨s, _, hs⟩ := List.mem_flatMap.mp ht
  rcases List.mem_append.mp hs with h | h
  · cases hc : cnAt s 0 r with
    | none => simp [hc] at h
    | some k => simp [hc] at h; exact ⟨s, by rw [h]⟩
  · split_ifs at h
    · cases hc : cnAt s 1 r with
      | none => simp [hc] at h
      | some k => simp [hc] at h; exact ⟨s, by rw [h]⟩
    · cases h

theorem comp_sv (I : CNInst) (σ : CVar → Rat) (s : Slot) : compσ I σ (sv s) = σ (sv s) := rfl

theorem comp_geneTerms (I : CNInst) (σ : CVar → Rat) (r : String) :
    evalTerms (compσ I σ) (I.geneTerms r) = evalTerms σ (I.geneTerms r) := by
  apply evalTerms_congr_mem
  intro t ht
  obtain ⟨s, hs⟩ := geneTerms_slot_vars I r t ht
  rw [hs]; rfl

theorem comp_diffTerms (I : CNInst) (σ : CVar → Rat) (r : String) (scale : Rat) :
    evalTerms (compσ I σ) (I.diffTerms r scale) = evalTerms σ (I.diffTerms r scale) := by
  apply evalTerms_congr_mem
  intro t ht
  obtain ⟨s, hs⟩ := diffTerms_slot_vars I r scale t ht
  rw [hs]; rfl

theorem comp_fitErr (I : CNInst) (σ : CVar → Rat) (rc : String × (Rat × Rat)) :
    I.fitErr (compσ I σ) rc = I.fitErr σ rc := by
  unfold CNInst.fitErr; rw [comp_geneTerms]

theorem comp_diffErr (I : CNInst) (σ : CVar → Rat) (rc : String × (Rat × Rat)) :
    I.diffErr (compσ I σ) rc = I.diffErr σ rc := by
  unfold CNInst.diffErr; rw [comp_diffTerms]

theorem rowOf_of_mem (I : CNInst) (hnd : (I.rows.map (·.1)).Nodup) (rc : String × (Rat × Rat)) (hr : rc ∈ I.rows) :
    rowOf I rc.1 = some rc := by
  unfold rowOf
  generalize I.rows = l at hnd hr
  induction l with
  | nil => cases hr
  | cons x xs ih =>
    rw [List.map_cons, List.nodup_cons] at hnd
    rw [List.find?_cons]
    rcases List.mem_cons.mp hr with rfl | hr'
    · simp
    · have hne : x.1 ≠ rc.1 := fun e => hnd.1 (e ▸ List.mem_map.mpr ⟨rc, hr', rfl⟩)
      have : (x.1 == rc.1) = false := by simpa using hne
      simp only [this]
      exact ih hnd.2 hr'

theorem specCN_comp (I : CNInst) (σ : CVar → Rat) : I.specCN (compσ I σ) = I.specCN σ := by
  unfold CNInst.specCN
  simp only [comp_fitErr, comp_diffErr]
  rfl

/-- a selection is admissible: selectors binary, the three structural families hold, every
residual within the bound of the error variables -/
structure CNAdmissible (I : CNInst) (σ : CVar → Rat) : Prop where
  bin : ∀ s ∈ I.slots, IsBin (σ (sv s))
  diplo : ∀ c ∈ I.consDIPLO, c.holds σ
  del : ∀ c ∈ I.consDEL, c.holds σ
  ord : ∀ c ∈ I.consORD, c.holds σ
  fitBound : ∀ rc ∈ I.rows, |I.fitErr σ rc| ≤ I.prof.cnMax
  diffBound : ∀ rc ∈ I.rows, |I.diffErr σ rc| ≤ I.prof.cnMax

theorem holds_congr_slots (σ τ : CVar → Rat) (c : LinCon CVar) (hv : ∀ t ∈ c.terms, σ t.2 = τ t.2) :
    c.holds σ ↔ c.holds τ := by
  unfold LinCon.holds
  rw [evalTerms_congr_mem σ τ c.terms hv]

/-- **cn_decision_achievable** -/
theorem cn_decision_achievable (I : CNInst) (σ : CVar → Rat) (hA : CNAdmissible I σ)
    (hnd : (I.rows.map (·.1)).Nodup) :
    I.build.Sat (compσ I σ) ∧ I.build.objective (compσ I σ) = I.specCN σ := by
  have hrow := rowOf_of_mem I hnd
  constructor
  · constructor
    · intro vk hvk
      simp only [CNInst.build, List.mem_append, List.mem_map, List.mem_flatMap, List.mem_cons, List.mem_nil_iff,
        or_false] at hvk
      rcases hvk with ((⟨s, hs, rfl⟩ | ⟨rc, hr, rfl | rfl⟩) | ⟨rc, hr, rfl⟩) | ⟨rc, hr, rfl⟩
      · exact hA.bin s hs
      · simp only [Kind.ok, compσ, hrow rc hr]
        have := abs_le.mp (hA.fitBound rc hr)
        constructor
        · intro l hl; cases hl; exact this.1
        · intro u hu; cases hu; exact this.2
      · simp only [Kind.ok, compσ, hrow rc hr]
        have := abs_le.mp (hA.diffBound rc hr)
        constructor
        · intro l hl; cases hl; exact this.1
        · intro u hu; cases hu; exact this.2
      · simp only [Kind.ok, compσ, hrow rc hr]
        exact ⟨by intro l hl; cases hl; exact abs_nonneg _, by intro u hu; cases hu⟩
      · simp only [Kind.ok, compσ, hrow rc hr]
        exact ⟨by intro l hl; cases hl; exact abs_nonneg _, by intro u hu; cases hu⟩
    · intro c hc
      simp only [CNInst.build, List.mem_append] at hc
      rcases hc with (((hc | hc) | hc) | hc) | hc
      · -- DIPLO
        refine (holds_congr_slots _ σ c ?_).mpr (hA.diplo c hc)
        intro t ht
        simp only [CNInst.consDIPLO, CNInst.eqCons, List.mem_cons, List.mem_nil_iff, or_false] at hc
        rcases hc with rfl | rfl <;>
        · obtain ⟨s, _, rfl⟩ := List.mem_map.mp ht
          rfl
      · -- DEL
        refine (holds_congr_slots _ σ c ?_).mpr (hA.del c hc)
        intro t ht
        unfold CNInst.consDEL at hc
        cases hd : I.delAllele with
        | none => simp [hd] at hc
        | some d =>
          simp only [hd] at hc
          obtain ⟨s, _, rfl⟩ := List.mem_map.mp hc
          simp only [List.mem_cons, List.mem_nil_iff, or_false] at ht
          rcases ht with rfl | rfl <;> rfl
      · -- ORD
        refine (holds_congr_slots _ σ c ?_).mpr (hA.ord c hc)
        intro t ht
        unfold CNInst.consORD at hc
        obtain ⟨s, _, hs⟩ := List.mem_filterMap.mp hc
        split_ifs at hs
        · cases hs
          simp only [leVar, List.mem_cons, List.mem_nil_iff, or_false] at ht
          rcases ht with rfl | rfl <;> rfl
        · cases hs
          simp only [leVar, List.mem_cons, List.mem_nil_iff, or_false] at ht
          rcases ht with rfl | rfl <;> rfl
      · -- COV
        obtain ⟨rc, hr, hc⟩ := List.mem_flatMap.mp hc
        simp only [List.mem_append, CNInst.eqCons, List.mem_cons, List.mem_nil_iff, or_false] at hc
        have e1 : compσ I σ (.EG rc.1) = I.fitErr σ rc := by simp only [compσ, hrow rc hr]
        have e2 : compσ I σ (.E rc.1) = I.diffErr σ rc := by simp only [compσ, hrow rc hr]
        rcases hc with (rfl | rfl) | (rfl | rfl) <;>
          simp only [LinCon.holds, evalTerms_append, evalTerms_cons, evalTerms_nil, comp_geneTerms, comp_diffTerms, e1, e2,
            CNInst.fitErr, CNInst.diffErr] <;> linarith
      · -- ABS
        simp only [CNInst.consABS, List.mem_append, List.mem_flatMap] at hc
        rcases hc with ⟨rc, hr, hc⟩ | ⟨rc, hr, hc⟩
        · refine (abs_gadget _ (.ABSE rc.1) (.E rc.1)).mpr ?_ c hc
          simp only [compσ, hrow rc hr]; exact le_refl _
        · refine (abs_gadget _ (.ABSEG rc.1) (.EG rc.1)).mpr ?_ c hc
          simp only [compσ, hrow rc hr]; exact le_refl _
  · rw [cn_objective, ← specCN_comp]
    unfold CNInst.specCN CNInst.rowWeight
    have h1 : (I.rows.map fun rc => I.prof.cnDiff / I.nU *
          (if (CVar.E rc.1).name == Const.CN_PCE_VAR then I.prof.cnPcePenalty else 1) * compσ I σ (.ABSE rc.1)) =
        I.rows.map fun rc => I.prof.cnDiff / I.nU *
          (if (CVar.E rc.1).name == Const.CN_PCE_VAR then I.prof.cnPcePenalty else 1) * absC (I.diffErr (compσ I σ) rc) := by
      apply List.map_congr_left
      intro rc hr
      simp only [compσ, hrow rc hr, absC_eq_abs, comp_diffErr]
    have h2 : (I.rows.map fun rc => I.prof.cnFit / I.nU * compσ I σ (.ABSEG rc.1)) =
        I.rows.map fun rc => I.prof.cnFit / I.nU * absC (I.fitErr (compσ I σ) rc) := by
      apply List.map_congr_left
      intro rc hr
      simp only [compσ, hrow rc hr, absC_eq_abs, comp_fitErr]
    rw [h1, h2]

/-- **cn_spec_lower_bound** every feasible point scores at least the documented score of its selection -/
theorem cn_spec_lower_bound (I : CNInst) (σ : CVar → Rat) (h : I.build.Sat σ)
    (hd : 0 ≤ I.prof.cnDiff) (hf : 0 ≤ I.prof.cnFit) (hpce : 0 ≤ I.prof.cnPcePenalty) :
    I.specCN σ ≤ I.build.objective σ := by
  rw [cn_objective]
  unfold CNInst.specCN CNInst.rowWeight
  have hnU : 0 ≤ I.nU := by unfold CNInst.nU; positivity
  have h1 : (I.rows.map fun rc => I.prof.cnDiff / I.nU *
        (if (CVar.E rc.1).name == Const.CN_PCE_VAR then I.prof.cnPcePenalty else 1) * absC (I.diffErr σ rc)).sum ≤
      (I.rows.map fun rc => I.prof.cnDiff / I.nU *
        (if (CVar.E rc.1).name == Const.CN_PCE_VAR then I.prof.cnPcePenalty else 1) * σ (.ABSE rc.1)).sum := by
    apply cn_list_sum_le_sum
    intro rc hr
    have hw : 0 ≤ I.prof.cnDiff / I.nU * (if (CVar.E rc.1).name == Const.CN_PCE_VAR then I.prof.cnPcePenalty else 1) := by
      apply mul_nonneg (div_nonneg hd hnU)
      split_ifs
      · exact hpce
      · norm_num
    have hE := (cn_fit_rows I σ h rc hr).2
    have hb := (cn_errors_bounded I σ h rc hr).2.2.1
    rw [absC_eq_abs]
    unfold CNInst.diffErr
    rw [← hE]
    exact mul_le_mul_of_nonneg_left hb hw
  have h2 : (I.rows.map fun rc => I.prof.cnFit / I.nU * absC (I.fitErr σ rc)).sum ≤
      (I.rows.map fun rc => I.prof.cnFit / I.nU * σ (.ABSEG rc.1)).sum := by
    apply cn_list_sum_le_sum
    intro rc hr
    have hE := (cn_fit_rows I σ h rc hr).1
    have hb := (cn_errors_bounded I σ h rc hr).2.2.2
    rw [absC_eq_abs]
    unfold CNInst.fitErr
    rw [← hE]
    exact mul_le_mul_of_nonneg_left hb (div_nonneg hf hnU)
  linarith

/-- **cn_admissible_of_sat** the selection of every feasible point is admissible -/
theorem cn_admissible_of_sat (I : CNInst) (σ : CVar → Rat) (h : I.build.Sat σ) : CNAdmissible I σ := by
  refine ⟨fun s hs => I.sat_bin_slot h hs, ?_, ?_, ?_, ?_, ?_⟩
  · intro c hc
    exact h.2 c (by simp only [CNInst.build, List.mem_append]; exact Or.inl (Or.inl (Or.inl (Or.inl hc))))
  · intro c hc
    exact h.2 c (by simp only [CNInst.build, List.mem_append]; exact Or.inl (Or.inl (Or.inl (Or.inr hc))))
  · intro c hc
    exact h.2 c (by simp only [CNInst.build, List.mem_append]; exact Or.inl (Or.inl (Or.inr hc)))
  · intro rc hr
    have hE := (cn_fit_rows I σ h rc hr).1
    unfold CNInst.fitErr
    rw [← hE]
    exact (cn_errors_bounded I σ h rc hr).2.1
  · intro rc hr
    have hE := (cn_fit_rows I σ h rc hr).2
    unfold CNInst.diffErr
    rw [← hE]
    exact (cn_errors_bounded I σ h rc hr).1

/-- **cn_optimum_is_spec_min** END TO END for the structure model: the objective of any optimum is
the documented score of its selection of slots, and no admissible selection has a lower
documented score -/
theorem cn_optimum_is_spec_min (I : CNInst) (σ : CVar → Rat) (h : I.build.Sat σ)
    (hopt : ∀ τ, I.build.Sat τ → I.build.objective σ ≤ I.build.objective τ)
    (hnd : (I.rows.map (·.1)).Nodup)
    (hd : 0 ≤ I.prof.cnDiff) (hf : 0 ≤ I.prof.cnFit) (hpce : 0 ≤ I.prof.cnPcePenalty) :
    I.build.objective σ = I.specCN σ ∧ ∀ τ, CNAdmissible I τ → I.specCN σ ≤ I.specCN τ := by
  have hlow := cn_spec_lower_bound I σ h hd hf hpce
  obtain ⟨hs, ho⟩ := cn_decision_achievable I σ (cn_admissible_of_sat I σ h) hnd
  have hup : I.build.objective σ ≤ I.specCN σ := ho ▸ hopt _ hs
  have heq := le_antisymm hup hlow
  refine ⟨heq, ?_⟩
  intro τ hτ
  obtain ⟨hs', ho'⟩ := cn_decision_achievable I τ hτ hnd
  rw [← heq, ← ho']
  exact hopt _ hs'

/-! ### non-vacuity: the selection of the example of C03 (two copies of `1`) satisfies the structural families -/
example : ∀ c ∈ exCN.consDIPLO ++ exCN.consDEL ++ exCN.consORD, c.holds exCNσ := by decide +kernel
example : ∀ s ∈ exCN.slots, exCNσ (sv s) = 0 ∨ exCNσ (sv s) = 1 := by decide +kernel

end Aldy
