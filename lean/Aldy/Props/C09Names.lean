import Aldy.Model.Catalogue
import Std.Data.String.ToNat
import Mathlib.Data.List.Basic

/-!
# C09, continued — major alleles get pairwise different names

`_init_alleles` names the groups one after the other (`nameStep`: prefix of the smallest
member, else label / full name, else `name:k` with a per-name counter) and then stores the major
alleles in a dictionary under these names - two groups with one name would silently overwrite
each other (a database allele would no longer be reachable).  Here: for prefixes and fallbacks
without `:` (checked per database by the harness; true of every shipped one) the names handed
out by `assignNames` are pairwise different, for every number of collisions.
-/

namespace Aldy

def noColon (s : String) : Prop := ':' ∉ s.toList

theorem suffixed_toList (b : String) (k : Nat) :
    (b ++ ":" ++ toString k).toList = b.toList ++ ':' :: (toString k).toList := by
  simp [String.toList_append]

theorem suffixed_has_colon (b : String) (k : Nat) : ¬ noColon (b ++ ":" ++ toString k) := by
  unfold noColon
  rw [suffixed_toList]
  simp

theorem split_at_colon (a b s t : List Char) (ha : ':' ∉ a) (hb : ':' ∉ b)
    (h : a ++ ':' :: s = b ++ ':' :: t) : a = b ∧ s = t := by
  induction a generalizing b with
  | nil =>
    cases b with
    | nil => simp at h; exact ⟨rfl, h⟩
    | cons y ys =>
      simp only [List.nil_append, List.cons_append, List.cons.injEq] at h
      exact absurd (h.1 ▸ List.mem_cons_self) hb
  | cons x xs ih =>
    cases b with
    | nil =>
      simp only [List.nil_append, List.cons_append, List.cons.injEq] at h
      exact absurd (h.1 ▸ List.mem_cons_self) ha
    | cons y ys =>
      simp only [List.cons_append, List.cons.injEq] at h
      have := ih ys (fun hh => ha (List.mem_cons_of_mem _ hh)) (fun hh => hb (List.mem_cons_of_mem _ hh)) h.2
      exact ⟨by rw [h.1, this.1], this.2⟩

/-- a suffixed name determines its base and its number -/
theorem suffixed_inj (b b' : String) (k k' : Nat) (hb : noColon b) (hb' : noColon b')
    (h : b ++ ":" ++ toString k = b' ++ ":" ++ toString k') : b = b' ∧ k = k' := by
  have h2 := congrArg String.toList h
  rw [suffixed_toList, suffixed_toList] at h2
  obtain ⟨h3, h4⟩ := split_at_colon _ _ _ _ hb hb' h2
  exact ⟨String.toList_injective h3, Nat.repr_injective (String.toList_injective h4)⟩

/-- invariant of the dictionary `used_names`: keys are distinct; a key is either colon-free or
`b:k` for a colon-free key `b` whose counter is at least `k` -/
structure UsedInv (used : List (String × Nat)) : Prop where
  nodup : (used.map (·.1)).Nodup
  shape : ∀ e ∈ used, noColon e.1 ∨
    ∃ b k c, noColon b ∧ e.1 = b ++ ":" ++ toString k ∧ (b, c) ∈ used ∧ k ≤ c

theorem lookup_of_mem_nodup (used : List (String × Nat)) (b : String) (c : Nat)
    (hnd : (used.map (·.1)).Nodup) (h : (b, c) ∈ used) : used.lookup b = some c := by
  induction used with
  | nil => cases h
  | cons e es ih =>
    obtain ⟨k, v⟩ := e
    rw [List.map_cons, List.nodup_cons] at hnd
    simp only [List.lookup_cons]
    rcases List.mem_cons.mp h with h1 | h1
    · cases h1; simp
    · have hne : b ≠ k := by
        intro hbk; apply hnd.1; rw [← hbk]; exact List.mem_map.mpr ⟨(b, c), h1, rfl⟩
      have : (b == k) = false := by simpa using hne
      rw [this]; exact ih hnd.2 h1

theorem any_key_iff (used : List (String × Nat)) (n : String) :
    used.any (·.1 == n) = true ↔ n ∈ used.map (·.1) := by
  simp only [List.any_eq_true, List.mem_map, beq_iff_eq]

/-- **nameStep_spec** one naming step keeps the invariant, hands out a name that was not in use,
registers it, and forgets no earlier name. -/
theorem nameStep_spec (used : List (String × Nat)) (n0 fb : String) (h0 : noColon n0) (hf : noColon fb)
    (hi : UsedInv used) :
    UsedInv (nameStep used n0 fb).1 ∧
    (nameStep used n0 fb).2 ∉ used.map (·.1) ∧
    (nameStep used n0 fb).2 ∈ (nameStep used n0 fb).1.map (·.1) ∧
    (∀ x ∈ used.map (·.1), x ∈ (nameStep used n0 fb).1.map (·.1)) := by
  unfold nameStep
  simp only
  -- the candidate `n1` is colon-free in both cases
  generalize hn1 : (if used.any (·.1 == n0) then fb else n0) = n1
  have hc1 : noColon n1 := by
    rw [← hn1]; split <;> assumption
  by_cases hused : used.any (·.1 == n1) = true
  · simp only [hused, if_true]
    have hmem : n1 ∈ used.map (·.1) := (any_key_iff used n1).mp hused
    obtain ⟨e1, he1, he1k⟩ := List.mem_map.mp hmem
    obtain ⟨b1, c1⟩ := e1
    simp only at he1k
    subst he1k
    have hlook : used.lookup b1 = some c1 := lookup_of_mem_nodup used b1 c1 hi.nodup he1
    simp only [hlook, Option.getD_some]
    have hkeys : (used.map fun e => if e.1 == b1 then (e.1, c1 + 1) else e).map (·.1) = used.map (·.1) := by
      rw [List.map_map]; apply List.map_congr_left; intro e _; simp only [Function.comp]; split <;> rfl
    -- the new name is fresh
    have hfresh : b1 ++ ":" ++ toString (c1 + 1) ∉ used.map (·.1) := by
      intro hin
      obtain ⟨e, he, hek⟩ := List.mem_map.mp hin
      rcases hi.shape e he with hnc | ⟨b, k, c, hb, hek2, hbc, hkc⟩
      · rw [hek] at hnc; exact suffixed_has_colon _ _ hnc
      · rw [hek] at hek2
        obtain ⟨hbb, hkk⟩ := suffixed_inj _ _ _ _ hc1 hb hek2
        subst hbb
        have : used.lookup b1 = some c := lookup_of_mem_nodup used b1 c hi.nodup hbc
        rw [hlook] at this
        cases this
        omega
    refine ⟨⟨?_, ?_⟩, hfresh, ?_, ?_⟩
    · rw [List.map_append, hkeys, List.nodup_append]
      refine ⟨hi.nodup, by simp, ?_⟩
      intro a ha b hb hab
      simp only [List.map_cons, List.map_nil, List.mem_singleton] at hb
      subst hab hb
      exact hfresh ha
    · intro e he
      rcases List.mem_append.mp he with h1 | h1
      · obtain ⟨e0, he0, rfl⟩ := List.mem_map.mp h1
        have key : (if (e0.1 == b1) = true then (e0.1, c1 + 1) else e0).1 = e0.1 := by split <;> rfl
        rw [key]
        rcases hi.shape e0 he0 with hnc | ⟨b, k, c, hb, hek2, hbc, hkc⟩
        · exact Or.inl hnc
        · refine Or.inr ⟨b, k, if b = b1 then c1 + 1 else c, hb, hek2, ?_, ?_⟩
          · apply List.mem_append_left
            by_cases hbb : b = b1
            · subst hbb
              have : used.lookup b = some c := lookup_of_mem_nodup used b c hi.nodup hbc
              rw [hlook] at this; cases this
              simp only [if_true]
              exact List.mem_map.mpr ⟨(b, c1), he1, by simp⟩
            · simp only [hbb, if_false]
              exact List.mem_map.mpr ⟨(b, c), hbc, by simp [hbb]⟩
          · by_cases hbb : b = b1
            · subst hbb
              have : used.lookup b = some c := lookup_of_mem_nodup used b c hi.nodup hbc
              rw [hlook] at this; cases this
              simp; omega
            · simp [hbb]; exact hkc
      · simp only [List.mem_singleton] at h1
        subst h1
        refine Or.inr ⟨b1, c1 + 1, c1 + 1, hc1, rfl, ?_, Nat.le_refl _⟩
        apply List.mem_append_left
        exact List.mem_map.mpr ⟨(b1, c1), he1, by simp⟩
    · rw [List.map_append]; simp
    · intro x hx
      rw [List.map_append, hkeys]
      exact List.mem_append_left _ hx
  · have hused' : used.any (·.1 == n1) = false := Bool.eq_false_iff.mpr hused
    simp only [hused', Bool.false_eq_true, if_false]
    have hnot : n1 ∉ used.map (·.1) := fun hh => hused ((any_key_iff used n1).mpr hh)
    refine ⟨⟨?_, ?_⟩, hnot, ?_, ?_⟩
    · rw [List.map_append, List.nodup_append]
      refine ⟨hi.nodup, by simp, ?_⟩
      intro a ha b hb hab
      simp only [List.map_cons, List.map_nil, List.mem_singleton] at hb
      subst hab hb
      exact hnot ha
    · intro e he
      rcases List.mem_append.mp he with h1 | h1
      · rcases hi.shape e h1 with hnc | ⟨b, k, c, hb, hek2, hbc, hkc⟩
        · exact Or.inl hnc
        · exact Or.inr ⟨b, k, c, hb, hek2, List.mem_append_left _ hbc, hkc⟩
      · simp only [List.mem_singleton] at h1
        subst h1; exact Or.inl hc1
    · rw [List.map_append]; simp
    · intro x hx
      rw [List.map_append]
      exact List.mem_append_left _ hx

/-- **major_names_distinct** the names handed out to the groups are pairwise different and none
of them was in use before - for any number of groups competing for one prefix or one label. -/
theorem assignNames_nodup (cands : List (String × String)) (used : List (String × Nat))
    (hc : ∀ c ∈ cands, noColon c.1 ∧ noColon c.2) (hi : UsedInv used) :
    (assignNames cands used).Nodup ∧ ∀ x ∈ assignNames cands used, x ∉ used.map (·.1) := by
  induction cands generalizing used with
  | nil => exact ⟨List.nodup_nil, fun x hx => by cases hx⟩
  | cons c rest ih =>
    obtain ⟨hinv, hfresh, hreg, hmono⟩ := nameStep_spec used c.1 c.2 (hc c List.mem_cons_self).1 (hc c List.mem_cons_self).2 hi
    obtain ⟨hnd, hout⟩ := ih (nameStep used c.1 c.2).1 (fun c' h' => hc c' (List.mem_cons_of_mem _ h')) hinv
    simp only [assignNames]
    refine ⟨List.nodup_cons.mpr ⟨fun hin => hout _ hin hreg, hnd⟩, ?_⟩
    intro x hx
    rcases List.mem_cons.mp hx with h1 | h1
    · rw [h1]; exact hfresh
    · exact fun hin => hout x h1 (hmono x hin)

theorem usedInv_nil : UsedInv [] := ⟨List.nodup_nil, fun _ h => by cases h⟩

/-! ### Non-vacuity: three groups competing for one prefix and one label -/
example : assignNames [("3", "3"), ("3", "3"), ("3", "3"), ("3", "3B")] [] = ["3", "3:2", "3:3", "3B"] := by decide +kernel
example : noColon "3" ∧ noColon "3B" := by unfold noColon; decide

end Aldy
