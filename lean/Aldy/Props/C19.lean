import Aldy.Model.Guards
import Mathlib.Tactic.Linarith
import Mathlib.Algebra.Order.Ring.Rat
import Mathlib.Tactic.NormNum

/-!
# C19 — no genotype is reported from no data
-/

namespace Aldy

/-- The average-depth guard of the current source does not depend on where the gene
structure comes from (regenerated constant: the guard has no `profile.cn_region` conjunct). -/
theorem guard_independent_of_structure_source : Const.GUARD_REQUIRES_CN_REGION = false := by decide

/-- a locus without any read has average depth 0 -/
theorem avg_of_no_reads : (Cov.mk [] []).averageCoverage = 0 := by
  simp [Cov.averageCoverage]

/-- positions whose only entries are empty do not raise the average either -/
theorem total_of_empty_position (c : Cov) (pos : Int) (h : c.ops pos = []) : c.totalPos pos = 0 := by
  simp [Cov.totalPos, h]

/-- **no_reads_no_call** for alignment input, an average depth below the configured minimum —
in particular depth 0 of a locus no read covers, with any positive minimum — never proceeds
to calling, whether the structure is estimated (neutral region present) or user-supplied. -/
theorem no_reads_no_call (i : GuardIn) (hk : i.kindVcf = false) (hlow : i.avgCov < i.minAvgCov) :
    guard i ≠ .proceed := by
  unfold guard
  rw [guard_independent_of_structure_source]
  simp only [hk, Bool.not_false, Bool.true_and, Bool.true_or, decide_eq_true_eq]
  split
  · simp
  · split
    · simp
    · split
      · simp
      · simp [hlow]

theorem zero_depth_no_call (i : GuardIn) (hk : i.kindVcf = false) (h0 : i.avgCov = 0) (hmin : 0 < i.minAvgCov) :
    guard i ≠ .proceed := no_reads_no_call i hk (by rw [h0]; exact hmin)

/-- **empty_neutral_rejected** a sample without reads in the copy-number-neutral region is
rejected instead of being normalised. -/
theorem empty_neutral_rejected (i : GuardIn) (hr : i.hasCnRegion = true) (h0 : i.neutralSum = 0) :
    guard i = .emptyNeutral := by
  simp [guard, hr, h0]

/-- **proceed_means_data** calling proceeds only with enough data: adequate average depth for
alignment input, and a non-empty, adequately covered neutral region whenever one is used. -/
theorem proceed_means_data (i : GuardIn) (h : guard i = .proceed) :
    (i.kindVcf = false → i.minAvgCov ≤ i.avgCov) ∧
    (i.hasCnRegion = true → i.neutralSum ≠ 0 ∧ Const.DIPLOID_MIN_COV ≤ i.neutralSum / i.neutralLen) := by
  unfold guard at h
  rw [guard_independent_of_structure_source] at h
  split at h
  · cases h
  · split at h
    · cases h
    · split at h
      · cases h
      · split at h
        · cases h
        · rename_i h1 h2 h3 h4
          constructor
          · intro hk
            simp only [hk, Bool.not_false, Bool.true_and, Bool.true_or, decide_eq_true_eq] at h4
            exact not_lt.mp h4
          · intro hr
            simp only [hr, Bool.true_and, beq_iff_eq] at h1
            simp only [hr, Bool.true_and, decide_eq_true_eq] at h3
            exact ⟨h1, not_lt.mp h3⟩

/-- the documented default minimum is positive (regenerated constant) -/
theorem min_avg_coverage_default_pos : 0 < Const.profileDefault "min_avg_coverage" := by decide +kernel

theorem diploid_min_pos : 0 < Const.DIPLOID_MIN_COV := by
  unfold Const.DIPLOID_MIN_COV; norm_num

/-! ### Non-vacuity -/
example : guard ⟨false, false, 0, 2, 0, 0, 0⟩ = .lowAverageDepth := by decide +kernel
example : guard ⟨false, true, 30, 2, 12000, 12000, 400⟩ = .proceed := by decide +kernel
example : guard ⟨false, true, 30, 2, 0, 12000, 400⟩ = .emptyNeutral := by decide +kernel

end Aldy
