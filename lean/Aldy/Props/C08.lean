import Aldy.Model.Coords
import Mathlib.Data.List.Basic
import Mathlib.Tactic.Linarith

/-!
# C08 — a catalogued variant denotes the same haplotype in every coordinate system

The strand conversion of `process_mutation` has a separate position rule per variant kind.
Here each rule is proved correct at sequence level, for every sequence, position and allele
(`convert_correct_*`): applying the converted variant to the reverse-complemented sequence
and orienting back yields exactly the sequence obtained by applying the variant as written.
The correspondence run evaluates the same equation (and its hypotheses) on every variant of
every database, including mappings with several blocks.
-/

namespace Aldy

theorem compBase_invol (c : Char) : compBase (compBase c) = c := by
  unfold compBase
  by_cases hA : c = 'A'
  · subst hA; decide
  · by_cases hT : c = 'T'
    · subst hT; decide
    · by_cases hC : c = 'C'
      · subst hC; decide
      · by_cases hG : c = 'G'
        · subst hG; decide
        · simp [hA, hT, hC, hG]

theorem revComp_length (s : List Char) : (revComp s).length = s.length := by simp [revComp]

/-- **revcomp_involutive** -/
theorem revComp_revComp (s : List Char) : revComp (revComp s) = s := by
  simp only [revComp, List.map_reverse, List.reverse_reverse, List.map_map]
  conv_rhs => rw [← List.map_id s]
  apply List.map_congr_left
  intro c _
  exact compBase_invol c

theorem revComp_append (a b : List Char) : revComp (a ++ b) = revComp b ++ revComp a := by
  simp [revComp]

theorem revComp_take (s : List Char) (n : Nat) : revComp (s.take n) = (revComp s).drop (s.length - n) := by
  simp only [revComp, List.map_take, List.reverse_take, List.length_map]

theorem revComp_drop (s : List Char) (n : Nat) : revComp (s.drop n) = (revComp s).take (s.length - n) := by
  simp only [revComp, List.map_drop, List.reverse_drop, List.length_map]

theorem take_revComp (s : List Char) (n : Nat) : (revComp s).take n = revComp (s.drop (s.length - n)) := by
  simp only [revComp, List.map_drop, List.take_reverse, List.length_map]

theorem drop_revComp (s : List Char) (n : Nat) : (revComp s).drop n = revComp (s.take (s.length - n)) := by
  simp only [revComp, List.map_take, List.drop_reverse, List.length_map]

/-- **convert_correct_del** deletion of `w` bases at 0-based RefSeq index `i`: on the reverse
strand the loaded variant starts at the genome offset of the *last* deleted base
(`pos + len - 1` in `process_mutation`), i.e. offset `L - i - w` of the reverse-complemented
sequence. -/
theorem convert_correct_del (s : List Char) (i w : Nat) (h : i + w ≤ s.length) :
    revComp ((revComp s).take (s.length - i - w) ++ (revComp s).drop (s.length - i - w + w)) =
      s.take i ++ s.drop (i + w) := by
  rw [revComp_append, take_revComp, drop_revComp, revComp_revComp, revComp_revComp]
  congr 1
  · congr 1; omega
  · congr 1; omega

/-- **convert_correct_ins** insertion of `x` after 0-based RefSeq index `i`: on the reverse
strand the loaded variant is anchored one base further (`pos + 1`), i.e. after genome offset
`L - i - 2`, and carries the reverse complement. -/
theorem convert_correct_ins (s x : List Char) (i : Nat) (h : i + 2 ≤ s.length) :
    revComp ((revComp s).take (s.length - i - 2 + 1) ++ revComp x ++ (revComp s).drop (s.length - i - 2 + 1)) =
      s.take (i + 1) ++ x ++ s.drop (i + 1) := by
  rw [revComp_append, revComp_append, take_revComp, drop_revComp, revComp_revComp, revComp_revComp, revComp_revComp]
  rw [← List.append_assoc]
  congr 2
  · congr 1; omega
  · congr 1; omega

/-- **convert_correct_delins** deletion-insertion: position rule of the deletion, alleles
reverse-complemented. -/
theorem convert_correct_delins (s x : List Char) (i w : Nat) (h : i + w ≤ s.length) :
    revComp ((revComp s).take (s.length - i - w) ++ revComp x ++ (revComp s).drop (s.length - i - w + w)) =
      s.take i ++ x ++ s.drop (i + w) := by
  rw [revComp_append, revComp_append, take_revComp, drop_revComp, revComp_revComp, revComp_revComp, revComp_revComp]
  rw [← List.append_assoc]
  congr 2
  · congr 1; omega
  · congr 1; omega

/-- substitution without dots = deletion-insertion of equal length -/
theorem overlay_nodot (s r : List Char) (i : Nat) (hnd : ∀ c ∈ r, c ≠ '.') (h : i + r.length ≤ s.length) :
    overlay s i r = s.take i ++ r ++ s.drop (i + r.length) := by
  unfold overlay
  congr 2
  have hl : ((s.drop i).take r.length).length = r.length := by
    simp only [List.length_take, List.length_drop]; omega
  generalize hq : (s.drop i).take r.length = q at hl
  clear hq h
  induction r generalizing q with
  | nil => simp
  | cons c cs ih =>
    cases q with
    | nil => simp at hl
    | cons d ds =>
      simp only [List.zip_cons_cons, List.map_cons]
      have hc : c ≠ '.' := hnd c (by simp)
      have : (c == '.') = false := by simpa using hc
      simp only [this, Bool.false_eq_true, if_false]
      congr 1
      exact ih (fun x hx => hnd x (by simp [hx])) ds (by simpa using hl)

/-- **convert_correct_sub** (multi-)substitution `l>r` at 0-based RefSeq index `i`: on the
reverse strand the loaded variant starts at the genome offset of the last substituted base
(`pos + len(l) - 1`), alleles reverse-complemented (dot-free alleles; dotted ones are evaluated
by the correspondence run). -/
theorem convert_correct_sub (s r : List Char) (i : Nat) (hnd : ∀ c ∈ r, c ≠ '.') (h : i + r.length ≤ s.length) :
    revComp (overlay (revComp s) (s.length - i - r.length) (revComp r)) = overlay s i r := by
  have hnd' : ∀ c ∈ revComp r, c ≠ '.' := by
    intro c hc
    simp only [revComp, List.mem_reverse, List.mem_map] at hc
    obtain ⟨d, hd, rfl⟩ := hc
    have := hnd d hd
    intro hdot
    apply this
    have := congrArg compBase hdot
    rw [compBase_invol] at this
    rw [this]; decide
  rw [overlay_nodot _ _ _ hnd' (by rw [revComp_length, revComp_length]; omega), overlay_nodot _ _ _ hnd h, revComp_length]
  exact convert_correct_delins s r i r.length h

/-- the position arithmetic of `process_mutation` produces exactly these offsets: for a
RefSeq of length `L` mapped as one block to the reverse strand, 1-based RefSeq position `p`
sits at offset `L - p` of the genome-oriented sequence -/
theorem convertRev_positions (pos : Int) (l r x d : List Char) :
    (convertRev pos (.sub l r)).1 = pos + l.length - 1 ∧
    (convertRev pos (.ins x)).1 = pos + 1 ∧
    (convertRev pos (.del d)).1 = pos + d.length - 1 ∧
    (convertRev pos (.delins d x)).1 = pos + d.length - 1 := by
  refine ⟨rfl, rfl, ?_, rfl⟩
  simp only [convertRev]; omega

/-- `_reverse_op` undoes the allele conversion: the reported notation is the written one -/
theorem reverseOp_convert (pos : Int) (k : VKind) (hk : ∀ d i, k ≠ .delins d i) (ho : k ≠ .other) :
    reverseOp (convertRev pos k).2 = k := by
  cases k with
  | sub l r => simp [convertRev, reverseOp, revComp_revComp]
  | ins x => simp [convertRev, reverseOp, revComp_revComp]
  | del x => simp [convertRev, reverseOp, revComp_revComp]
  | delins d i => exact absurd rfl (hk d i)
  | other => exact absurd rfl ho

/-- parsing and rendering an operation are inverse on well-formed operations -/
theorem parse_render_ins (x : List Char) (h : '>' ∉ x) : parseOp (renderOp (.ins x)) = .ins x := by
  simp [parseOp, renderOp, h]

/-! ### Non-vacuity (kernel-evaluated end-to-end instances of the map construction) -/
section Example
def exSeq : List Char := "ACGTTGCA".toList
def exMapsRev : Maps := mkMaps exSeq 101 109 (-1) [.M 8]
example : exMapsRev.lookup = "TGCAACGT".toList := by decide +kernel
example : convertMut exMapsRev 2 (.del ['C', 'G']) = some (105, .del ['C', 'G']) := by decide +kernel
example : orient (-1) (applyGenome exMapsRev 105 (.del ['C', 'G'])) = applyRefseq exSeq 2 (.del ['C', 'G']) := by decide +kernel
example : convertMut exMapsRev 2 (.ins ['T', 'T']) = some (105, .ins ['A', 'A']) := by decide +kernel
example : orient (-1) (applyGenome exMapsRev 105 (.ins ['A', 'A'])) = applyRefseq exSeq 2 (.ins ['T', 'T']) := by decide +kernel
end Example


/-- the loader refuses variants whose replaced bases are not contiguous on the genome
(regenerated from `process_mutation`; found by this check, repaired in the repository) -/
theorem loader_checks_contiguity : Const.LOADER_CHECKS_CONTIGUITY = true := by decide

/-- **loaded_span_contiguous** every variant the loader accepts replaces reference bases that
occupy consecutive genome positions: a variant that spans an insertion or deletion of the
RefSeq-to-genome alignment is not loaded on that build -/
theorem loaded_span_contiguous (m : Maps) (pos1 : Int) (k : VKind) (g : Int) (k' : VKind)
    (h : convertMut m pos1 k = some (g, k')) :
    ∀ i, i < spanLen k' →
      m.refToChr ((if m.strand < 0 then (convertRev pos1 k).1 else pos1) - 1 + (i : Int) * m.strand) = some (g + (i : Int)) := by
  have hc := loader_checks_contiguity
  unfold convertMut at h
  by_cases hs : m.strand < 0
  · simp only [hs, if_true, hc, Bool.true_and] at h ⊢
    cases hr : m.refToChr ((convertRev pos1 k).1 - 1) with
    | none => simp [hr] at h
    | some g0 =>
      simp only [hr, Option.bind_some] at h
      split at h
      · cases h
      · rename_i hcont
        simp only [Option.some.injEq, Prod.mk.injEq] at h
        obtain ⟨rfl, rfl⟩ := h
        simp only [Bool.not_eq_true', Bool.not_eq_false] at hcont
        intro i hi
        have := (List.all_eq_true.mp hcont) i (List.mem_range.mpr hi)
        simpa using this
  · simp only [hs, if_false, hc, Bool.true_and] at h ⊢
    cases hr : m.refToChr (pos1 - 1) with
    | none => simp [hr] at h
    | some g0 =>
      simp only [hr, Option.bind_some] at h
      split at h
      · cases h
      · rename_i hcont
        simp only [Option.some.injEq, Prod.mk.injEq] at h
        obtain ⟨rfl, rfl⟩ := h
        simp only [Bool.not_eq_true', Bool.not_eq_false] at hcont
        intro i hi
        have := (List.all_eq_true.mp hcont) i (List.mem_range.mpr hi)
        simpa using this

end Aldy
