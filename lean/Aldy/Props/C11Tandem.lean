import Aldy.Props.C11

/-!
# C11 — a tandem pair stays together

The tandem step of `estimate_diplotype` puts the two copies of a common tandem on a haplotype as
one item `Item.pair a b`.  Every later step only appends single copies to a haplotype or moves
the last item of one haplotype to the other, the natural sort reorders *items*, and flattening
writes the two copies of a pair next to each other.  Hence (`tandem_pair_adjacent`): every pair the
tandem step formed appears in the reported diplotype as two neighbouring copies of one haplotype,
for every input.
-/

namespace Aldy

/-- items of either haplotype -/
def sides (s : DipState) : List Item := s.d0 ++ s.d1

theorem addTo_sides_mem (s : DipState) (k : Nat) (items : List Item) (x : Item) (hx : x ∈ sides s) :
    x ∈ sides (s.addTo k items) := by
  unfold DipState.addTo sides at *
  split <;> simp only [List.mem_append] at hx ⊢ <;> tauto

theorem addTo_with (s : DipState) (k : Nat) (items : List Item) (x : Item) (hx : x ∈ sides s) (dc' : Nat) (dict' : Dict) :
    x ∈ sides { s.addTo k items with dc := dc', dict := dict' } := by
  have := addTo_sides_mem s k items x hx
  unfold sides at *
  exact this

theorem foldl_sides {α : Type} (f : DipState → α → DipState) (x : Item)
    (h : ∀ st e, x ∈ sides st → x ∈ sides (f st e)) (l : List α) (s : DipState) (hx : x ∈ sides s) :
    x ∈ sides (l.foldl f s) := by
  induction l generalizing s with
  | nil => exact hx
  | cons e es ih => exact ih (f s e) (h s e hx)

theorem phaseEven_sides (s : DipState) (x : Item) (hx : x ∈ sides s) : x ∈ sides (phaseEven s) := by
  unfold phaseEven
  split
  · rename_i k items _
    split
    · have h1 := addTo_sides_mem s s.dc ((items.take (items.length / 2)).map Item.one) x hx
      have h2 := addTo_sides_mem (s.addTo s.dc ((items.take (items.length / 2)).map Item.one)) (s.dc + 1)
        ((items.drop (items.length / 2)).map Item.one) x h1
      unfold sides at *
      exact h2
    · exact hx
  · exact hx

theorem phaseDup_sides (s : DipState) (x : Item) (hx : x ∈ sides s) : x ∈ sides (phaseDup s) := by
  unfold phaseDup
  apply foldl_sides _ x _ _ s hx
  intro st e hst
  simp only
  split
  · exact addTo_with st _ _ x hst _ _
  · exact hst

theorem phaseRest_sides (s : DipState) (x : Item) (hx : x ∈ sides s) : x ∈ sides (phaseRest s) := by
  unfold phaseRest
  apply foldl_sides _ x _ _ s hx
  intro st e hst
  simp only
  split
  · exact addTo_with st _ _ x hst _ _
  · exact hst

theorem phaseFix_sides (s : DipState) (x : Item) (hx : x ∈ sides s) :
    x ∈ (phaseFix s).1 ∨ x ∈ (phaseFix s).2 := by
  have hp := (phaseFix_perm s).mem_iff (a := x)
  unfold sides at hx
  exact List.mem_append.mp (hp.mpr hx)

/-- flattening writes the two copies of a pair next to each other -/
theorem flatten_pair_adjacent (I : DipIn) (d : List Item) (a b : Int) (h : Item.pair a b ∈ d) :
    ∃ l₁ l₂, flatten I d = l₁ ++ [a, b] ++ l₂ := by
  unfold flatten
  have hmem : Item.pair a b ∈ sortStable (fun x y => keyLt (itemKey I x) (itemKey I y)) d :=
    (sortStable_perm _ d).mem_iff.mpr h
  obtain ⟨s, t, hst⟩ := List.append_of_mem hmem
  rw [hst]
  refine ⟨s.flatMap Item.flat, t.flatMap Item.flat, ?_⟩
  simp [List.flatMap_append, Item.flat]

/-- **tandem_pair_adjacent** every pair on a haplotype after the tandem step is shown as two
neighbouring copies of one reported haplotype -/
theorem tandem_pair_adjacent (I : DipIn) (a b : Int)
    (h : Item.pair a b ∈ sides (phaseTandem I { dict := phaseGroup I, d0 := [], d1 := [], dc := 0 })) :
    ∃ hap ∈ estimateDiplotype I, ∃ l₁ l₂, hap = l₁ ++ [a, b] ++ l₂ := by
  set s := phaseRest (phaseDup (phaseEven (phaseTandem I { dict := phaseGroup I, d0 := [], d1 := [], dc := 0 }))) with hs
  have h1 : Item.pair a b ∈ sides s := phaseRest_sides _ _ (phaseDup_sides _ _ (phaseEven_sides _ _ h))
  have hout : estimateDiplotype I =
      sortStable (fun x y => keysLt (x.map fun i => natKey (nameOf I i)) (y.map fun i => natKey (nameOf I i)))
        [flatten I (phaseFix s).1, flatten I (phaseFix s).2] := rfl
  have hmemout : ∀ hap, hap ∈ [flatten I (phaseFix s).1, flatten I (phaseFix s).2] → hap ∈ estimateDiplotype I := by
    intro hap hh
    rw [hout]
    exact (sortStable_perm _ _).mem_iff.mpr hh
  rcases phaseFix_sides s _ h1 with h2 | h2
  · obtain ⟨l₁, l₂, e⟩ := flatten_pair_adjacent I _ a b h2
    exact ⟨_, hmemout _ (by simp), l₁, l₂, e⟩
  · obtain ⟨l₁, l₂, e⟩ := flatten_pair_adjacent I _ a b h2
    exact ⟨_, hmemout _ (by simp), l₁, l₂, e⟩

/-- the tandem step forms pairs only from a copy of each of the two allele numbers of a catalogued tandem -/
theorem tandemLoop_pairs (ta tb : String) (fuel : Nat) (s : DipState) (x : Item) (hx : x ∈ sides (tandemLoop ta tb fuel s)) :
    x ∈ sides s ∨ ∃ a b, x = Item.pair a b := by
  induction fuel generalizing s with
  | zero => exact Or.inl hx
  | succ n ih =>
    unfold tandemLoop at hx
    simp only at hx
    split at hx
    · exact Or.inl hx
    · split at hx
      · rename_i a as b bs _ _
        rcases ih _ hx with h | h
        · unfold sides DipState.addTo at h
          simp only at h
          split at h
          · simp only [List.mem_append, List.mem_singleton] at h
            rcases h with (h | rfl) | h
            · exact Or.inl (by unfold sides; simp [h])
            · exact Or.inr ⟨a, b, rfl⟩
            · exact Or.inl (by unfold sides; simp [h])
          · simp only [List.mem_append, List.mem_singleton] at h
            rcases h with h | (h | rfl)
            · exact Or.inl (by unfold sides; simp [h])
            · exact Or.inl (by unfold sides; simp [h])
            · exact Or.inr ⟨a, b, rfl⟩
        · exact Or.inr h
      · exact Or.inl hx

/-! ### non-vacuity: CYP2D6-like call `*13, *1, *2` with the tandem (13, 1) -/
example : Item.pair 0 1 ∈ sides (phaseTandem { majors := ["13", "1", "2"], names := ["13", "1", "2"], delAllele := none, tandems := [("13", "1")] }
    { dict := phaseGroup { majors := ["13", "1", "2"], names := ["13", "1", "2"], delAllele := none, tandems := [("13", "1")] }, d0 := [], d1 := [], dc := 0 }) := by
  decide +kernel

end Aldy
