import Aldy.Model.Diplotype
import Aldy.Model.Ilp
import Aldy.Lemmas.Gadgets
import Mathlib.Data.List.Perm.Basic

/-!
# C13 — calls do not depend on genome build or gene strand

The stage models mention genome positions and strand-specific alleles only inside variable
identities and inside the tests that decide which variables enter which constraint.  Two
builds therefore give models that differ by a renaming of variables (and by constraint order).
Proved here for every model: renaming, reordering and duplicating constraints, and splitting
or reordering objective/constraint terms do not change feasibility or objective - hence not
the optimal set nor any score.  The correspondence checks per instance that the models the
implementation builds for the two builds *are* renamings of each other under the RefSeq
identification of variants, and compares the results directly.
-/

namespace Aldy
variable {V W : Type}

theorem evalTerms_map_var (f : V → W) (σ : W → Rat) (ts : List (Rat × V)) :
    evalTerms σ (ts.map fun t => (t.1, f t.2)) = evalTerms (σ ∘ f) ts := by
  induction ts with
  | nil => simp
  | cons t ts ih => simp [ih]

/-- **sat_rename** feasibility is invariant under renaming the variables. -/
theorem sat_rename (f : V → W) (m : Ilp V) (σ : W → Rat) : (mapIlp f m).Sat σ ↔ m.Sat (σ ∘ f) := by
  unfold Ilp.Sat mapIlp
  constructor
  · rintro ⟨hv, hc⟩
    constructor
    · intro vk hvk
      exact hv (f vk.1, vk.2) (List.mem_map.mpr ⟨vk, hvk, rfl⟩)
    · intro c hcm
      have := hc ⟨c.terms.map fun t => (t.1, f t.2), c.sense, c.rhs⟩ (List.mem_map.mpr ⟨c, hcm, rfl⟩)
      unfold LinCon.holds at this ⊢
      simp only [evalTerms_map_var] at this
      exact this
  · rintro ⟨hv, hc⟩
    constructor
    · intro vk hvk
      obtain ⟨vk0, h0, rfl⟩ := List.mem_map.mp hvk
      exact hv vk0 h0
    · intro c hcm
      obtain ⟨c0, h0, rfl⟩ := List.mem_map.mp hcm
      have := hc c0 h0
      unfold LinCon.holds at this ⊢
      simp only [evalTerms_map_var]
      exact this

/-- **objective_rename** the objective value is invariant under renaming. -/
theorem objective_rename (f : V → W) (m : Ilp V) (σ : W → Rat) :
    (mapIlp f m).objective σ = m.objective (σ ∘ f) := by
  unfold Ilp.objective mapIlp
  exact evalTerms_map_var f σ m.obj

/-- **optimum_transport** if the renaming has a left inverse `g` (it is injective on the
variables), every feasible point of one model corresponds to a feasible point of the other
with the same objective: both models have the same optimal value and corresponding optima. -/
theorem optimum_transport (f : V → W) (g : W → V) (hgf : ∀ v, g (f v) = v) (m : Ilp V) (τ : V → Rat) (h : m.Sat τ) :
    (mapIlp f m).Sat (τ ∘ g) ∧ (mapIlp f m).objective (τ ∘ g) = m.objective τ := by
  have e : (τ ∘ g) ∘ f = τ := by funext v; simp [hgf]
  constructor
  · rw [sat_rename, e]; exact h
  · rw [objective_rename, e]

theorem evalTerms_perm (σ : V → Rat) (a b : List (Rat × V)) (h : a.Perm b) : evalTerms σ a = evalTerms σ b := by
  induction h with
  | nil => rfl
  | cons x _ ih => simp [ih]
  | swap x y l => simp only [evalTerms_cons]; ring
  | trans _ _ ih1 ih2 => rw [ih1, ih2]

/-- **constraint_order_irrelevant** two models with the same variables whose constraint lists
contain the same constraints (in any order, with any multiplicity) have the same feasible set. -/
theorem sat_of_same_constraints (m m' : Ilp V) (hv : ∀ vk, vk ∈ m.vars ↔ vk ∈ m'.vars)
    (hc : ∀ c, c ∈ m.cons ↔ c ∈ m'.cons) (σ : V → Rat) : m.Sat σ ↔ m'.Sat σ := by
  unfold Ilp.Sat
  constructor
  · rintro ⟨h1, h2⟩
    exact ⟨fun vk h => h1 vk ((hv vk).mpr h), fun c h => h2 c ((hc c).mpr h)⟩
  · rintro ⟨h1, h2⟩
    exact ⟨fun vk h => h1 vk ((hv vk).mp h), fun c h => h2 c ((hc c).mp h)⟩

/-- **term_order_irrelevant** permuting the terms of the objective does not change it (the
construction-order tie-breaker of the minor stage changes *coefficients*, which is what the
correspondence reports separately). -/
theorem objective_of_perm (m m' : Ilp V) (h : m.obj.Perm m'.obj) (σ : V → Rat) : m.objective σ = m'.objective σ :=
  evalTerms_perm σ _ _ h

/-- splitting a coefficient over two terms of the same variable does not change a sum
(`expr += v; expr += v` versus `2 * v`) -/
theorem evalTerms_split (σ : V → Rat) (a b : Rat) (v : V) (rest : List (Rat × V)) :
    evalTerms σ ((a, v) :: (b, v) :: rest) = evalTerms σ ((a + b, v) :: rest) := by
  simp only [evalTerms_cons]; ring

/-! ### Non-vacuity -/
example : (mapIlp (fun (n : Nat) => n + 10) ⟨[(0, .bin)], [⟨[(1, 0)], .le, 1⟩], [(2, 0)]⟩ : Ilp Nat).obj = [(2, 10)] := by decide +kernel


/-- the added variants of an allele name are ordered by RefSeq position, which does not depend
on the strand of the build (regenerated from `get_major_name`; found by this check, repaired) -/
theorem name_order_is_build_independent : Const.NAME_ORDER_BY_REFSEQ = true := by decide

/-- with that order the rendered name depends only on RefSeq-level data: two lists of added
variants with the same RefSeq keys, identifiers and flags give the same name -/
theorem majorName_of_refseq_data (major : String) (a b : List AddedMut)
    (h : a.map (fun m => (rsidOf m, m.functional)) = b.map (fun m => (rsidOf m, m.functional))) :
    majorName major a = majorName major b := by
  unfold majorName
  have : (a.filter (·.functional)).map rsidOf = (b.filter (·.functional)).map rsidOf := by
    induction a generalizing b with
    | nil => cases b with
      | nil => rfl
      | cons y ys => simp at h
    | cons x xs ih =>
      cases b with
      | nil => simp at h
      | cons y ys =>
        simp only [List.map_cons, List.cons.injEq, Prod.mk.injEq] at h
        obtain ⟨⟨h1, h2⟩, h3⟩ := h
        have := ih ys h3
        by_cases hx : x.functional = true
        · have hy : y.functional = true := by rw [← h2]; exact hx
          simp [List.filter_cons, hx, hy, h1, this]
        · have hx' : x.functional = false := by simpa using hx
          have hy : y.functional = false := by rw [← h2]; exact hx'
          simp [List.filter_cons, hx', hy, this]
  rw [this]

end Aldy
