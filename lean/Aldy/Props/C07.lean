import Aldy.Model.Normalize
import Aldy.Props.C06Table
import Mathlib.Tactic.FieldSimp
import Mathlib.Tactic.Ring

/-!
# C07 — copy-number signal is depth-normalised: a two-copy reference reads as 2.0
-/

namespace Aldy

/-- **walkers_agree** the three depth walkers consume the same reference bases for every CIGAR
operation (regenerated op-code lists): matches and deleted bases count, nothing else. -/
theorem walkers_agree (op size : Nat) :
    consumesCn op size = consumes op size ∧ consumesProfile op size = consumes op size := by
  unfold consumesCn consumesProfile consumes
  constructor
  · by_cases h2 : op = 2
    · subst h2; simp [Const.CNREGION_DEPTH_OPS]
    · by_cases h0 : op = 0
      · subst h0; simp [Const.CNREGION_DEPTH_OPS, Const.PARSE_MATCH_OPS]
      · by_cases h7 : op = 7
        · subst h7; simp [Const.CNREGION_DEPTH_OPS, Const.PARSE_MATCH_OPS]
        · by_cases h8 : op = 8
          · subst h8; simp [Const.CNREGION_DEPTH_OPS, Const.PARSE_MATCH_OPS]
          · simp [Const.CNREGION_DEPTH_OPS, Const.PARSE_MATCH_OPS, h2, h0, h7, h8]
  · simp [Const.PROFILE_MATCH_OPS, Const.PARSE_MATCH_OPS]

theorem refLen_agree (cigar : List (Nat × Nat)) :
    refLenWith consumesCn cigar = refLen cigar ∧ refLenWith consumesProfile cigar = refLen cigar := by
  unfold refLenWith refLen
  constructor
  · congr 1; apply List.map_congr_left; intro c _
    have := (walkers_agree c.1 c.2).1
    simpa [consumes] using this
  · first
      | rfl
      | (congr 1; apply List.map_congr_left; intro c _
         have := (walkers_agree c.1 c.2).2
         simpa [consumes] using this)

/-- on reads every walker accepts, all three region sums coincide -/
theorem regionSum_agree (reads : List DRead) (h : ∀ r ∈ reads, acceptSample r = true) (a b : Int) :
    regionSum acceptCn consumesCn reads a b = regionSum acceptSample consumes reads a b ∧
    regionSum acceptProfile consumesProfile reads a b = regionSum acceptSample consumes reads a b := by
  have hs : reads.filter acceptSample = reads := List.filter_eq_self.mpr h
  have hc : reads.filter acceptCn = reads := List.filter_eq_self.mpr (fun r hr => by
    have := h r hr; simp only [acceptSample, Bool.and_eq_true, Bool.not_eq_true'] at this
    simp [acceptCn, this.1.1.1, this.1.1.2])
  have hp : reads.filter acceptProfile = reads := List.filter_eq_self.mpr (fun r hr => by
    have := h r hr; simp only [acceptSample, Bool.and_eq_true, Bool.not_eq_true'] at this
    simp [acceptProfile, this.1.1.1])
  unfold regionSum
  rw [hs, hc, hp]
  constructor
  · congr 1; apply List.map_congr_left; intro r _
    have e1 : refLenWith consumesCn r.cigar = refLenWith consumes r.cigar := by
      rw [(refLen_agree r.cigar).1]; rfl
    rw [e1]
  · first
      | rfl
      | (congr 1; apply List.map_congr_left; intro r _
         have e1 : refLenWith consumesProfile r.cigar = refLenWith consumes r.cigar := by
           rw [(refLen_agree r.cigar).2]; rfl
         rw [e1])

/-- **norm_scale_invariant** sequencing the whole sample `k` times deeper (every read
duplicated `k` times: gene-region sum and neutral sum both `k`-fold) leaves every normalised
region depth unchanged. -/
theorem norm_scale_invariant (nv samRef s prof k : Rat) (hk : k ≠ 0) :
    regionCoverage nv (k * samRef) (k * s) prof = regionCoverage nv samRef s prof := by
  unfold regionCoverage
  by_cases h0 : samRef = 0
  · subst h0; simp
  · have hks : k * samRef ≠ 0 := mul_ne_zero hk h0
    simp only [beq_iff_eq, hks, h0, if_false]
    by_cases hn : nv = 0
    · subst hn; simp
    · have r1 : nv / (k * samRef) ≠ 0 := div_ne_zero hn hks
      have r2 : nv / samRef ≠ 0 := div_ne_zero hn h0
      simp only [r1, r2, if_false]
      congr 1
      by_cases hp : prof / Const.PROFILE_COPIES = 0
      · simp [hp]
      · simp only [bne_iff_ne, ne_eq, hp, not_false_eq_true, if_true]
        field_simp

/-- **norm_gene_linear** multiplying only the gene reads by `k` multiplies the normalised
depth by `k`. -/
theorem norm_gene_linear (nv samRef s prof k v : Rat)
    (h : regionCoverage nv samRef s prof = .ok v) : regionCoverage nv samRef (k * s) prof = .ok (k * v) := by
  unfold regionCoverage at *
  by_cases h0 : samRef = 0
  · subst h0; simp at h
  · simp only [beq_iff_eq, h0, if_false] at h ⊢
    by_cases hr : nv / samRef = 0
    · simp [hr] at h
    · simp only [hr, if_false] at h ⊢
      by_cases hp : prof / Const.PROFILE_COPIES = 0
      · simp only [bne_iff_ne, ne_eq, hp, not_true_eq_false, if_false] at h ⊢
        cases h; simp
      · simp only [bne_iff_ne, ne_eq, hp, not_false_eq_true, if_true] at h ⊢
        cases h
        congr 1; ring

/-- **norm_self_is_two** when the profile was generated from the very same read set (so the
profile's region sum equals the sample's and the profile's neutral value equals the sample's
neutral sum), every region the profile covers reads exactly `PROFILE_COPIES` = 2. -/
theorem norm_self_is_two (samRef s : Rat) (hn : samRef ≠ 0) (hs : s ≠ 0) :
    regionCoverage samRef samRef s s = .ok Const.PROFILE_COPIES := by
  unfold regionCoverage
  have hc : Const.PROFILE_COPIES ≠ 0 := by unfold Const.PROFILE_COPIES; norm_num
  have r1 : samRef / samRef = 1 := div_self hn
  have hp : s / Const.PROFILE_COPIES ≠ 0 := div_ne_zero hs hc
  simp only [beq_iff_eq, hn, if_false, r1, one_ne_zero, bne_iff_ne, ne_eq, hp, not_false_eq_true, if_true, one_mul]
  congr 1
  field_simp

theorem profile_copies_is_two : Const.PROFILE_COPIES = 2 := by unfold Const.PROFILE_COPIES; norm_num

/-- **norm_empty_neutral_rejected** a sample with no reads in the neutral region is rejected. -/
theorem norm_empty_neutral_rejected (nv s prof : Rat) : regionCoverage nv 0 s prof = .error .emptyNeutral := by
  simp [regionCoverage]

/-- duplicating every read `k` times multiplies every region sum by `k` (any walker) -/
theorem regionSum_replicate (accept : DRead → Bool) (f : Nat → Nat → Nat) (reads : List DRead) (k : Nat) (a b : Int) :
    regionSum accept f (reads.flatMap fun r => List.replicate k r) a b = k * regionSum accept f reads a b := by
  unfold regionSum
  induction reads with
  | nil => simp
  | cons r rs ih =>
    simp only [List.flatMap_cons, List.filter_append, List.map_append, List.sum_append, ih]
    by_cases h : accept r = true
    · have : (List.replicate k r).filter accept = List.replicate k r := List.filter_eq_self.mpr (by
        intro x hx; rw [List.eq_of_mem_replicate hx]; exact h)
      simp [this, h, List.filter_cons, Nat.mul_add]
    · have h' : accept r = false := by simpa using h
      have : (List.replicate k r).filter accept = [] := List.filter_eq_nil_iff.mpr (by
        intro x hx; rw [List.eq_of_mem_replicate hx]; simp [h'])
      simp [this, h', List.filter_cons]

/-! ### Non-vacuity -/
example : regionCoverage 9600 9600 480 480 = .ok 2 := by decide +kernel
example : regionCoverage 9600 (3 * 9600) (3 * 720) 480 = .ok 3 := by decide +kernel
example : overlap 10 5 12 20 = 3 := by decide +kernel


/-! ### The region sum of the normalisation is the sum of the pileup depths (link to C06) -/

/-- number of positions of `[a, a+len)` a read spanning `[s, s+n)` covers -/
theorem overlap_count (s : Int) (n : Nat) (a : Int) (len : Nat) :
    ((List.range len).filter fun (i : Nat) => decide (s ≤ a + (i : Int) ∧ a + (i : Int) < s + (n : Int))).length =
      overlap s n a (a + (len : Int)) := by
  induction len with
  | zero =>
    simp only [List.range_zero, List.filter_nil, List.length_nil]
    unfold overlap
    simp only
    split_ifs <;> omega
  | succ k ih =>
    rw [List.range_succ, List.filter_append, List.length_append, ih]
    simp only [List.filter_cons, List.filter_nil]
    unfold overlap
    simp only
    by_cases hk : s ≤ a + (k : Int) ∧ a + (k : Int) < s + (n : Int)
    · simp only [hk, and_self, decide_true, if_true, List.length_cons, List.length_nil]
      push_cast
      split_ifs <;> omega
    · simp only [hk, decide_false, Bool.false_eq_true, if_false, List.length_nil]
      push_cast
      split_ifs <;> omega

theorem sum_map_add_nat {α : Type} (l : List α) (f g : α → Nat) :
    (l.map fun x => f x + g x).sum = (l.map f).sum + (l.map g).sum := by
  induction l with
  | nil => rfl
  | cons x xs ih => simp only [List.map_cons, List.sum_cons, ih]; omega

theorem sum_indicator_eq_count {α : Type} (l : List α) (p : α → Bool) :
    (l.map fun x => if p x then 1 else 0).sum = (l.filter p).length := by
  induction l with
  | nil => rfl
  | cons x xs ih =>
    simp only [List.map_cons, List.sum_cons, List.filter_cons, ih]
    cases p x <;> simp <;> omega

/-- **region_sum_is_sum_of_depths** what `_normalize_coverage` adds up for a region - the depth
of the pileup table at every position of `[a, a+len)` - is the sum over the reads of the
number of region bases each one spans, i.e. exactly the `regionSum` the other two depth walkers
compute directly from the CIGARs: the sample's region signal and the profile's are sums of the
same quantity (C06 `depth_total_general` + a double-counting argument). -/
theorem region_sum_is_sum_of_depths (l : LocusV) (reads : List ReadV) (a : Int) (len : Nat)
    (h : ∀ i < len, ∀ site ∈ l.multiSites, siteTouches site (a + (i : Int)) = false) :
    ((List.range len).map fun (i : Nat) => depthAt (reads.flatMap fun r => (parseRead l r).1) (a + (i : Int))).sum =
      (reads.map fun r => overlap r.refStart (refLen r.cigar) a (a + (len : Int))).sum := by
  have hdepth : ∀ i ∈ List.range len,
      depthAt (reads.flatMap fun r => (parseRead l r).1) (a + (i : Int)) =
        (reads.filter fun r => decide (r.refStart ≤ a + (i : Int) ∧ a + (i : Int) < r.refStart + refLen r.cigar)).length := by
    intro i hi
    exact depth_total_general l reads (a + (i : Int)) (h i (List.mem_range.mp hi))
  rw [List.map_congr_left hdepth]
  clear hdepth h
  induction reads with
  | nil => simp
  | cons r rs ih =>
    simp only [List.map_cons, List.sum_cons]
    rw [← ih, ← overlap_count r.refStart (refLen r.cigar) a len, ← sum_indicator_eq_count, ← sum_map_add_nat]
    congr 1
    apply List.map_congr_left
    intro i _
    simp only [List.filter_cons]
    split <;> simp_all <;> omega

/-- the right-hand side above is the `regionSum` of the sample walker on the same reads -/
theorem regionSum_of_reads (reads : List ReadV) (a b : Int) :
    regionSum (fun _ => true) consumes (reads.map fun r => ({ refStart := r.refStart, cigar := r.cigar } : DRead)) a b =
      (reads.map fun r => overlap r.refStart (refLen r.cigar) a b).sum := by
  unfold regionSum
  simp only [List.filter_true, List.map_map]
  congr 1


/-- **normalised_signal_is_read_overlap** the chain from the alignments to the region signal:
the sum `_normalize_coverage` takes over the positions of a region of `Coverage.total(pos)` of
the table `_make_coverage` built from the reads is the sum over the reads of the bases of the
region each one spans (for regions without catalogued multi-substitution sites). -/
theorem normalised_signal_is_read_overlap (l : LocusV) (reads : List ReadV) (a : Int) (len : Nat)
    (h : ∀ i < len, ∀ site ∈ l.multiSites, siteTouches site (a + (i : Int)) = false) :
    ((List.range len).map fun (i : Nat) =>
        (⟨makeTable l (reads.flatMap fun r => (parseRead l r).1), []⟩ : Cov).totalPos (a + (i : Int))).sum =
      (((reads.map fun r => overlap r.refStart (refLen r.cigar) a (a + (len : Int))).sum : Nat) : Rat) := by
  rw [← region_sum_is_sum_of_depths l reads a len h]
  have : ∀ i ∈ List.range len,
      (⟨makeTable l (reads.flatMap fun r => (parseRead l r).1), []⟩ : Cov).totalPos (a + (i : Int)) =
        ((depthAt (reads.flatMap fun r => (parseRead l r).1) (a + (i : Int)) : Nat) : Rat) :=
    fun i _ => makeTable_totalPos l _ _
  rw [List.map_congr_left this]
  generalize (List.range len) = L
  induction L with
  | nil => simp
  | cons x xs ih => simp only [List.map_cons, List.sum_cons, ih]; push_cast; rfl

end Aldy
