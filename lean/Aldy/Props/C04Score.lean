import Aldy.Props.C01Minor

/-!
# C04 — the score of a refinement is the documented objective of the reported assignment

`minor_score_closed_form`: for every instance and every point, the objective of the model
`solve_minor_model` builds is

    sum of the error helpers
  + minor_miss  * (number of definition variants dropped, over the slots)
  + minor_add   * (1 + k/1e6) for the k-th add selector that is set
  + minor_add/2 * (number of novel-core indicators set)
  + minor_phase * sum over the phase cells of  cnt * (agreeing selectors missed + disagreeing selectors hit)

and at a *feasible* point every summand means what its name says: the error helper bounds the
absolute row error (`minor_abs_rows`, Props/C01), a "dropped" summand is 1 exactly for an active slot
whose keep selector is 0 (`minor_dropped_term`), the novel-core indicator of a variant is 1 exactly
if some allele that does not have it as a core variant gains it (`minor_vnewor_exact`), and the two
phase summands of a cell are 1 exactly for a pattern attributed to the cell's slot that the slot
contradicts at that site (`minor_phase_terms`).
-/

namespace Aldy
open MinorInst

theorem sum_map_mul_left_rat {α : Type} (l : List α) (c : Rat) (f : α → Rat) :
    (l.map fun x => c * f x).sum = c * (l.map f).sum := by
  induction l with
  | nil => simp
  | cons x xs ih => simp only [List.map_cons, List.sum_cons, ih]; ring

/-- **minor_score_closed_form** (pure algebra: holds at every point) -/
theorem minor_score_closed_form (I : MinorInst) (σ : NVar → Rat) :
    I.build.objective σ =
      (I.errRows.map fun m => σ (.ABS m)).sum +
      I.minorMiss * (I.slots.map fun cs => (cs.1.defMuts.map fun m => σ (.A cs.2) - σ (.MULK m cs.2)).sum).sum +
      (I.newSelectors.zipIdx.map fun e =>
          I.minorAdd * (1 + (e.2 : Rat) / Const.MINOR_TIEBREAK_DIV) * σ (.N e.1.1 e.1.2)).sum +
      I.minorAdd / Const.MINOR_NOVEL_DIV * sumVars σ (I.novelMuts.map NVar.VNEWOR) +
      I.minorPhase * (I.phaseCells.map fun c => (c.cnt : Rat) *
          (((c.pos.zipIdx).map fun vi => σ (.PH c.ai c.ri) - σ (.PH2 c.ai c.ri vi.2)).sum +
           ((c.neg.zipIdx).map fun vi => σ (.PH3 c.ai c.ri vi.2)).sum)).sum := by
  simp only [Ilp.objective, MinorInst.build, evalTerms_append]
  have e1 : evalTerms σ (I.errRows.map fun m => ((1 : Rat), NVar.ABS m)) = (I.errRows.map fun m => σ (.ABS m)).sum := by
    rw [evalTerms_map_sum]; simp
  have e23 : evalTerms σ (I.slots.map fun cs => (I.minorMiss * (cs.1.defMuts.length : Rat), NVar.A cs.2)) +
      evalTerms σ (I.slots.flatMap fun cs => cs.1.defMuts.map fun m => (-I.minorMiss, NVar.MULK m cs.2)) =
      I.minorMiss * (I.slots.map fun cs => (cs.1.defMuts.map fun m => σ (.A cs.2) - σ (.MULK m cs.2)).sum).sum := by
    rw [evalTerms_map_sum, evalTerms_flatMap_sum, sum_add_sum, ← sum_map_mul_left_rat]
    apply sum_map_congr
    intro cs _
    induction cs.1.defMuts with
    | nil => simp
    | cons x xs ih =>
      simp only [List.length_cons, List.map_cons, evalTerms_cons, List.sum_cons] at ih ⊢
      push_cast
      linarith
  have e4 : evalTerms σ (I.newSelectors.zipIdx.map fun e =>
      (I.minorAdd * (1 + (e.2 : Rat) / Const.MINOR_TIEBREAK_DIV), NVar.N e.1.1 e.1.2)) =
      (I.newSelectors.zipIdx.map fun e =>
          I.minorAdd * (1 + (e.2 : Rat) / Const.MINOR_TIEBREAK_DIV) * σ (.N e.1.1 e.1.2)).sum := by
    rw [evalTerms_map_sum]
  have e5 : evalTerms σ (I.novelMuts.map fun m => (I.minorAdd / Const.MINOR_NOVEL_DIV, NVar.VNEWOR m)) =
      I.minorAdd / Const.MINOR_NOVEL_DIV * sumVars σ (I.novelMuts.map NVar.VNEWOR) := by
    have := evalTerms_map_coeff σ (I.minorAdd / Const.MINOR_NOVEL_DIV) (I.novelMuts.map NVar.VNEWOR)
    rw [List.map_map] at this
    exact this
  have e6 : evalTerms σ I.phaseObj = I.minorPhase * (I.phaseCells.map fun c => (c.cnt : Rat) *
          (((c.pos.zipIdx).map fun vi => σ (.PH c.ai c.ri) - σ (.PH2 c.ai c.ri vi.2)).sum +
           ((c.neg.zipIdx).map fun vi => σ (.PH3 c.ai c.ri vi.2)).sum)).sum := by
    unfold MinorInst.phaseObj
    rw [evalTerms_flatMap_sum, ← sum_map_mul_left_rat]
    apply sum_map_congr
    intro c _
    rw [evalTerms_append, evalTerms_flatMap_sum, evalTerms_map_sum]
    have a1 : ((c.pos.zipIdx).map fun vi => evalTerms σ
        [(I.minorPhase * (c.cnt : Rat), NVar.PH c.ai c.ri), (-(I.minorPhase * (c.cnt : Rat)), NVar.PH2 c.ai c.ri vi.2)]).sum =
        I.minorPhase * (c.cnt : Rat) * ((c.pos.zipIdx).map fun vi => σ (.PH c.ai c.ri) - σ (.PH2 c.ai c.ri vi.2)).sum := by
      rw [← sum_map_mul_left_rat]
      apply sum_map_congr
      intro vi _
      simp only [evalTerms_cons, evalTerms_nil]; ring
    have a2 : ((c.neg.zipIdx).map fun vi => (I.minorPhase * (c.cnt : Rat)) * σ (NVar.PH3 c.ai c.ri vi.2)).sum =
        I.minorPhase * (c.cnt : Rat) * ((c.neg.zipIdx).map fun vi => σ (.PH3 c.ai c.ri vi.2)).sum := by
      rw [← sum_map_mul_left_rat]
    rw [a1, a2]; ring
  rw [e1, ← e23, e4, e5, e6]
  ring

/-- **minor_dropped_term** at a feasible point the "dropped" summand of a definition variant is
1 exactly for a selected slot whose keep selector is off, else 0 -/
theorem minor_dropped_term (I : MinorInst) (σ : NVar → Rat) (h : I.build.Sat σ) (cs : MinorCand × MSlot)
    (hcs : cs ∈ I.slots) (m : Mut) (hm : m ∈ cs.1.defMuts) (hmm : m ∈ I.mutations) :
    σ (.A cs.2) - σ (.MULK m cs.2) = if σ (.A cs.2) = 1 ∧ σ (.K m cs.2) = 0 then 1 else 0 := by
  have hA := sat_A I σ h cs hcs
  have hK := sat_K I σ h cs hcs m hm
  have hp := minor_products_exact I σ h cs hcs m hm hmm
  rcases hA with a0 | a1 <;> rcases hK.1 with k0 | k1 <;> rcases hK.2 with p0 | p1
  all_goals first
    | (simp [a0, k0, p0]; done)
    | (simp [a0, k1, p0]; done)
    | (simp [a1, k0, p0]; done)
    | (simp [a1, k1, p1]; done)
    | (exfalso; have := hp.mp p1; simp_all; done)
    | (exfalso; have := hp.mpr ⟨a1, k1⟩; simp_all; done)

/-- **minor_vnewor_exact** the novel-core indicator of a variant is set exactly if the variant is
added to some allele that does not have it among its core variants -/
theorem minor_vnewor_exact (I : MinorInst) (σ : NVar → Rat) (h : I.build.Sat σ) (m : Mut) (hm : m ∈ I.novelMuts) :
    σ (.VNEWOR m) = 1 ↔ ∃ v ∈ I.novelCoreSel m, σ v = 1 := by
  have hz : IsBin (σ (.VNEWOR m)) := h.1 (NVar.VNEWOR m, Kind.bin) (by
    simp only [MinorInst.build, List.mem_append, List.mem_map]
    exact Or.inl (Or.inr ⟨m, hm, rfl⟩))
  have hxs : ∀ x ∈ I.novelCoreSel m, IsBin (σ x) := by
    intro x hx
    obtain ⟨cs, hcs, hsome⟩ := List.mem_filterMap.mp hx
    split_ifs at hsome with hc
    cases hsome
    simp only [Bool.and_eq_true] at hc
    exact (sat_N I σ h cs hcs m (by simpa using hc.1.1)).1
  refine (or_gadget σ (.VNEWOR m) (I.novelCoreSel m) hz hxs).mp ?_
  intro c hc
  apply h.2
  apply mem_build
  refine Or.inr (Or.inr (Or.inr (Or.inr (Or.inr (Or.inr (Or.inr (Or.inr (Or.inr (Or.inr (Or.inr (Or.inr (Or.inr ?_))))))))))))
  simp only [MinorInst.consVNEWOR, List.mem_flatMap]
  exact ⟨m, hm, hc⟩

/-! ### the read-phase summands -/

theorem foldl_inv {α β : Type} (P : β → Prop) (f : β → α → β) (l : List α) (init : β)
    (h0 : P init) (hstep : ∀ acc x, x ∈ l → P acc → P (f acc x)) : P (l.foldl f init) := by
  induction l generalizing init with
  | nil => exact h0
  | cons x xs ih =>
    exact ih (f init x) (hstep init x (by simp) h0) (fun acc y hy => hstep acc y (by simp [hy]))

/-- the selectors of a phase cell are keep selectors of definition variants and add selectors of
addable variants of the cell's slot -/
theorem phaseSel_mem (I : MinorInst) (cs : MinorCand × MSlot) (r : List (Int × String)) :
    ∀ v, v ∈ (I.phaseSel cs r).1 ∨ v ∈ (I.phaseSel cs r).2 →
      (∃ m ∈ cs.1.defMuts, v = .K m cs.2) ∨ (∃ m ∈ I.newMuts cs.1, v = .N m cs.2) := by
  unfold MinorInst.phaseSel
  apply foldl_inv (fun acc : List NVar × List NVar => ∀ v, v ∈ acc.1 ∨ v ∈ acc.2 →
      (∃ m ∈ cs.1.defMuts, v = .K m cs.2) ∨ (∃ m ∈ I.newMuts cs.1, v = .N m cs.2))
  · intro v hv; simp at hv
  · intro acc m _ hacc
    cases hl : r.lookup m.pos with
    | none => simpa [hl] using hacc
    | some o =>
      simp only [hl]
      by_cases hcov : I.hasCov cs.1 m.pos = true
      · simp only [hcov, Bool.not_true, Bool.false_eq_true, if_false]
        by_cases hd : cs.1.defMuts.contains m = true
        · simp only [hd, if_true]
          have hmem : m ∈ cs.1.defMuts := by simpa using hd
          split_ifs
          · intro v hv
            simp only [List.mem_append, List.mem_singleton] at hv
            rcases hv with (hv | rfl) | hv
            · exact hacc v (Or.inl hv)
            · exact Or.inl ⟨m, hmem, rfl⟩
            · exact hacc v (Or.inr hv)
          · intro v hv
            simp only [List.mem_append, List.mem_singleton] at hv
            rcases hv with hv | (hv | rfl)
            · exact hacc v (Or.inl hv)
            · exact hacc v (Or.inr hv)
            · exact Or.inl ⟨m, hmem, rfl⟩
        · simp only [hd, Bool.false_eq_true, if_false]
          by_cases hn : (I.newMuts cs.1).contains m = true
          · simp only [hn, if_true]
            have hmem : m ∈ I.newMuts cs.1 := by simpa using hn
            split_ifs
            · intro v hv
              simp only [List.mem_append, List.mem_singleton] at hv
              rcases hv with (hv | rfl) | hv
              · exact hacc v (Or.inl hv)
              · exact Or.inr ⟨m, hmem, rfl⟩
              · exact hacc v (Or.inr hv)
            · intro v hv
              simp only [List.mem_append, List.mem_singleton] at hv
              rcases hv with hv | (hv | rfl)
              · exact hacc v (Or.inl hv)
              · exact hacc v (Or.inr hv)
              · exact Or.inr ⟨m, hmem, rfl⟩
          · have hn' : m ∉ I.newMuts cs.1 := by simpa using hn
            simpa [hn'] using hacc
      · simpa [hcov] using hacc

theorem phase_selector_bin (I : MinorInst) (σ : NVar → Rat) (h : I.build.Sat σ) (c : PhaseCell) (hc : c ∈ I.phaseCells) :
    ∀ v, v ∈ c.pos ∨ v ∈ c.neg → IsBin (σ v) := by
  unfold MinorInst.phaseCells at hc
  obtain ⟨rc, _, hc⟩ := List.mem_flatMap.mp hc
  obtain ⟨ca, hca, hsome⟩ := List.mem_filterMap.mp hc
  simp only at hsome
  split_ifs at hsome
  cases hsome
  have hslot : ca.1 ∈ I.slots := (List.of_mem_zip ((List.zipIdx_eq_zip_range' ..) ▸ hca)).1
  intro v hv
  rcases phaseSel_mem I ca.1 rc.1.1 v hv with ⟨m, hm, rfl⟩ | ⟨m, hm, rfl⟩
  · exact (sat_K I σ h ca.1 hslot m hm).1
  · exact (sat_N I σ h ca.1 hslot m hm).1

/-- **minor_phase_terms** at a feasible point the two read-phase summands of a cell are indicators:
an agreeing selector costs 1 exactly if the pattern is attributed to the cell and the selector is
off; a disagreeing selector costs 1 exactly if the pattern is attributed to the cell and the
selector is on -/
theorem minor_phase_terms (I : MinorInst) (σ : NVar → Rat) (h : I.build.Sat σ) (c : PhaseCell) (hc : c ∈ I.phaseCells) :
    (∀ vi ∈ c.pos.zipIdx, σ (.PH c.ai c.ri) - σ (.PH2 c.ai c.ri vi.2) =
        if σ (.PH c.ai c.ri) = 1 ∧ σ vi.1 = 0 then 1 else 0) ∧
    (∀ vi ∈ c.neg.zipIdx, σ (.PH3 c.ai c.ri vi.2) = if σ (.PH c.ai c.ri) = 1 ∧ σ vi.1 = 1 then 1 else 0) := by
  obtain ⟨hPH, hP2, hP3⟩ := minor_phase_bin I σ h c hc
  have hsel := phase_selector_bin I σ h c hc
  have hcons : ∀ k ∈ I.consPHASE, k.holds σ := fun k hk =>
    h.2 k (mem_build I k (Or.inr (Or.inr (Or.inr (Or.inr (Or.inr (Or.inr (Or.inr (Or.inr (Or.inr (Or.inr (Or.inr (Or.inl hk)))))))))))))
  constructor
  · intro vi hvi
    have hv : IsBin (σ vi.1) := hsel vi.1 (Or.inl (List.of_mem_zip ((List.zipIdx_eq_zip_range' ..) ▸ hvi)).1)
    have hp : ∀ k ∈ prodCons (NVar.PH2 c.ai c.ri vi.2) [NVar.PH c.ai c.ri, vi.1], k.holds σ := by
      intro k hk
      apply hcons
      simp only [MinorInst.consPHASE, List.mem_append, List.mem_flatMap]
      refine Or.inl ⟨c, hc, ?_⟩
      simp only [List.mem_cons, List.mem_append, List.mem_flatMap]
      exact Or.inl (Or.inr ⟨vi, hvi, hk⟩)
    have hiff := (prod_gadget σ _ _ (hP2 vi hvi) (by
      intro t ht
      simp only [List.mem_cons, List.mem_nil_iff, or_false] at ht
      rcases ht with rfl | rfl
      · exact hPH
      · exact hv)).mp hp
    rcases hPH with a0 | a1 <;> rcases hv with k0 | k1 <;> rcases hP2 vi hvi with p0 | p1
    all_goals first
      | (simp [a0, k0, p0]; done)
      | (simp [a0, k1, p0]; done)
      | (simp [a1, k0, p0]; done)
      | (simp [a1, k1, p1]; done)
      | (exfalso; have := hiff.mp p1; simp_all; done)
      | (exfalso; have := hiff.mpr (by intro t ht; simp at ht; rcases ht with rfl | rfl <;> assumption); simp_all; done)
  · intro vi hvi
    have hv : IsBin (σ vi.1) := hsel vi.1 (Or.inr (List.of_mem_zip ((List.zipIdx_eq_zip_range' ..) ▸ hvi)).1)
    have hp : ∀ k ∈ prodCons (NVar.PH3 c.ai c.ri vi.2) [NVar.PH c.ai c.ri, vi.1], k.holds σ := by
      intro k hk
      apply hcons
      simp only [MinorInst.consPHASE, List.mem_append, List.mem_flatMap]
      refine Or.inl ⟨c, hc, ?_⟩
      simp only [List.mem_cons, List.mem_append, List.mem_flatMap]
      exact Or.inr ⟨vi, hvi, hk⟩
    have hiff := (prod_gadget σ _ _ (hP3 vi hvi) (by
      intro t ht
      simp only [List.mem_cons, List.mem_nil_iff, or_false] at ht
      rcases ht with rfl | rfl
      · exact hPH
      · exact hv)).mp hp
    rcases hPH with a0 | a1 <;> rcases hv with k0 | k1 <;> rcases hP3 vi hvi with p0 | p1
    all_goals first
      | (simp [a0, k0, p0]; done)
      | (simp [a0, k1, p0]; done)
      | (simp [a1, k0, p0]; done)
      | (simp [a1, k1, p1]; done)
      | (exfalso; have := hiff.mp p1; simp_all; done)
      | (exfalso; have := hiff.mpr (by intro t ht; simp at ht; rcases ht with rfl | rfl <;> assumption); simp_all; done)

/-! ### non-vacuity: the closed form evaluated at the planted point of the phased example -/
example : exMInstPhased.build.objective (zeroσ exCopies (fun ri => if ri = 0 then some 2 else none)) = 0 := by
  rw [minor_score_closed_form]; decide +kernel

end Aldy
