import Aldy.Model.Select
import Aldy.Props.C11
import Mathlib.Tactic.Linarith
import Mathlib.Algebra.Order.Ring.Rat
import Mathlib.Data.Rat.Floor
import Mathlib.Tactic.NormNum

/-!
# C10 — reported solutions are the best candidates and are internally consistent

Theorems about `selectStage` / `carryMajor` / `rescaleMinor` (model of genotype.py 237-335).
-/

namespace Aldy
open Const

theorem minScore_le (cs : List Cand) (m : Rat) (h : minScore cs = some m) : ∀ c ∈ cs, m ≤ c.score := by
  unfold minScore at h
  have gen : ∀ (l : List Cand) (acc : Option Rat) (r : Rat),
      l.foldl (fun acc c => match acc with
        | none => some c.score
        | some m => some (if c.score < m then c.score else m)) acc = some r →
      (∀ a, acc = some a → r ≤ a) ∧ ∀ c ∈ l, r ≤ c.score := by
    intro l
    induction l with
    | nil => intro acc r h; simp at h; exact ⟨fun a ha => by rw [h] at ha; cases ha; exact le_refl _, by simp⟩
    | cons x xs ih =>
      intro acc r h
      simp only [List.foldl_cons] at h
      cases acc with
      | none =>
        obtain ⟨h1, h2⟩ := ih _ _ h
        refine ⟨by simp, ?_⟩
        intro c hc
        rcases List.mem_cons.mp hc with rfl | hc
        · exact h1 _ rfl
        · exact h2 c hc
      | some a =>
        obtain ⟨h1, h2⟩ := ih _ _ h
        have := h1 _ rfl
        constructor
        · intro a' ha'; cases ha'
          split at this <;> linarith
        · intro c hc
          rcases List.mem_cons.mp hc with rfl | hc
          · split at this <;> linarith
          · exact h2 c hc
  exact (gen cs none m h).2

theorem minScore_none (cs : List Cand) : minScore cs = none ↔ cs = [] := by
  constructor
  · intro h
    cases cs with
    | nil => rfl
    | cons x xs =>
      exfalso
      unfold minScore at h
      simp only [List.foldl_cons] at h
      have : ∀ (l : List Cand) (a : Rat), l.foldl (fun acc c => match acc with
        | none => some c.score
        | some m => some (if c.score < m then c.score else m)) (some a) ≠ none := by
        intro l
        induction l with
        | nil => intro a; simp
        | cons y ys ih => intro a; simp only [List.foldl_cons]; exact ih _
      exact this xs _ h
  · intro h; subst h; rfl

/-- **select_exact** the selected list consists of exactly the candidates whose score lies
within `gap + SOLUTION_PRECISION` of the best score - nothing dropped, nothing added,
multiplicities kept. -/
theorem select_exact (cs : List Cand) (gap m : Rat) (h : minScore cs = some m) :
    (selectStage cs gap).Perm (cs.filter fun c => decide (c.score - m - gap < SOLUTION_PRECISION)) := by
  unfold selectStage
  rw [h]
  exact sortStable_perm _ _

/-- **select_best_kept** the best candidate is always among the selected ones (gap ≥ 0). -/
theorem select_best_kept (cs : List Cand) (gap m : Rat) (h : minScore cs = some m) (hgap : 0 ≤ gap)
    (c : Cand) (hc : c ∈ cs) (hbest : c.score = m) : c ∈ selectStage cs gap := by
  apply (select_exact cs gap m h).mem_iff.mpr
  simp only [List.mem_filter, decide_eq_true_eq]
  refine ⟨hc, ?_⟩
  have : 0 < SOLUTION_PRECISION := by unfold SOLUTION_PRECISION; norm_num
  rw [hbest]; linarith

/-- **empty_stage** a stage without candidates selects nothing (the code raises). -/
theorem select_empty (gap : Rat) : selectStage [] gap = [] := rfl

/-! ### order -/

theorem candLt_key {a b : Cand} (h : candLt a b = true) : truncKey a.score ≤ truncKey b.score := by
  unfold candLt at h
  simp only [Bool.or_eq_true, decide_eq_true_eq, Bool.and_eq_true, beq_iff_eq] at h
  rcases h with h | h
  · exact le_of_lt h
  · exact le_of_eq h.1

theorem not_candLt_key {a b : Cand} (h : candLt a b = false) : truncKey b.score ≤ truncKey a.score := by
  unfold candLt at h
  simp only [Bool.or_eq_false_iff, decide_eq_false_iff_not, not_lt] at h
  exact h.1

theorem insertStable_sorted (x : Cand) (l : List Cand)
    (hs : l.Pairwise fun a b => truncKey a.score ≤ truncKey b.score) :
    (insertStable candLt x l).Pairwise fun a b => truncKey a.score ≤ truncKey b.score := by
  induction l with
  | nil => simp [insertStable]
  | cons y ys ih =>
    unfold insertStable
    have hy := List.pairwise_cons.mp hs
    by_cases h : candLt x y = true
    · simp only [h, if_true]
      refine List.pairwise_cons.mpr ⟨?_, hs⟩
      intro z hz
      rcases List.mem_cons.mp hz with rfl | hz
      · exact candLt_key h
      · exact le_trans (candLt_key h) (hy.1 z hz)
    · have h' : candLt x y = false := by simpa using h
      simp only [h', Bool.false_eq_true, if_false]
      refine List.pairwise_cons.mpr ⟨?_, ih hy.2⟩
      intro z hz
      have := (insertStable_perm candLt x ys).mem_iff.mp hz
      rcases List.mem_cons.mp this with rfl | hz'
      · exact not_candLt_key h'
      · exact hy.1 z hz'

theorem sortStable_sorted (l : List Cand) :
    (sortStable candLt l).Pairwise fun a b => truncKey a.score ≤ truncKey b.score := by
  unfold sortStable
  have : ∀ (l acc : List Cand), acc.Pairwise (fun a b => truncKey a.score ≤ truncKey b.score) →
      (l.foldl (fun acc x => insertStable candLt x acc) acc).Pairwise fun a b => truncKey a.score ≤ truncKey b.score := by
    intro l
    induction l with
    | nil => intro acc h; simpa using h
    | cons x xs ih => intro acc h; simp only [List.foldl_cons]; exact ih _ (insertStable_sorted x acc h)
  exact this l [] List.Pairwise.nil

theorem truncKey_le_imp (a b : Rat) (ha : 0 ≤ a) (hb : 0 ≤ b) (h : truncKey a ≤ truncKey b) :
    a < b + 1 / SORT_SCALE := by
  unfold truncKey at h
  have hs : (0 : Rat) < SORT_SCALE := by unfold SORT_SCALE; norm_num
  have e1 : SORT_SCALE * a ≥ 0 := mul_nonneg hs.le ha
  have e2 : SORT_SCALE * b ≥ 0 := mul_nonneg hs.le hb
  simp only [ha, hb, if_true, ge_iff_le] at h
  have f1 : SORT_SCALE * a < ((SORT_SCALE * a).floor : Rat) + 1 := by
    by_contra hcon
    push Not at hcon
    have : ((SORT_SCALE * a).floor + 1 : Int) ≤ (SORT_SCALE * a).floor := Rat.le_floor_iff.mpr (by push_cast; exact hcon)
    omega
  have f2 : ((SORT_SCALE * b).floor : Rat) ≤ SORT_SCALE * b := Rat.le_floor_iff.mp (le_refl _)
  have f3 : ((SORT_SCALE * a).floor : Rat) ≤ ((SORT_SCALE * b).floor : Rat) := by exact_mod_cast h
  have : SORT_SCALE * a < SORT_SCALE * b + 1 := by linarith
  have : a < b + 1 / SORT_SCALE := by
    rw [div_eq_mul_inv, one_mul]
    have hinv : SORT_SCALE * SORT_SCALE⁻¹ = 1 := mul_inv_cancel₀ (ne_of_gt hs)
    nlinarith [inv_pos.mpr hs]
  exact this

/-- **select_sorted** "best first" up to the code's own sort resolution: for `i < j` in the
reported list, `scoreᵢ < scoreⱼ + 1/1000` (scores are non-negative objective values). -/
theorem select_sorted (cs : List Cand) (gap : Rat) (hnn : ∀ c ∈ cs, 0 ≤ c.score) :
    (selectStage cs gap).Pairwise fun a b => a.score < b.score + 1 / SORT_SCALE := by
  unfold selectStage
  cases h : minScore cs with
  | none => simp
  | some m =>
    simp only
    have hs := sortStable_sorted (cs.filter fun c => decide (c.score - m - gap < SOLUTION_PRECISION))
    have hmem : ∀ c ∈ sortStable candLt (cs.filter fun c => decide (c.score - m - gap < SOLUTION_PRECISION)), 0 ≤ c.score := by
      intro c hc
      have := (sortStable_perm candLt _).mem_iff.mp hc
      exact hnn c (List.mem_filter.mp this).1
    refine (List.Pairwise.and_mem.mp hs).imp ?_
    intro a b hab
    exact truncKey_le_imp a.score b.score (hmem a hab.1) (hmem b hab.2.1) hab.2.2

/-- the sort resolution is finer than the solution precision (regenerated constants) -/
theorem sort_resolution_below_precision : 1 / SORT_SCALE < SOLUTION_PRECISION := by
  unfold SORT_SCALE SOLUTION_PRECISION; norm_num

theorem slack_pos : 0 < SLACK := by unfold SLACK; norm_num

/-! ### score carry -/

/-- **score_carry_major** a major candidate's score is its own objective plus the score
difference of the structure it was derived from. -/
theorem score_carry_major (cnSorted : List Cand) (majors : List (List Cand)) (mcn : Rat)
    (h : minScore cnSorted = some mcn) (c : Cand) (hc : c ∈ carryMajor cnSorted majors) :
    ∃ cn ∈ cnSorted, ∃ raw : Cand, c.score = raw.score + (cn.score - mcn) ∧ c.nice = raw.nice := by
  unfold carryMajor at hc
  rw [h] at hc
  simp only [List.mem_flatMap, List.mem_map] at hc
  obtain ⟨e, he, raw, _, rfl⟩ := hc
  have hmem : e.1 ∈ cnSorted.zip majors := by
    have := List.mem_zipIdx he
    simpa using (List.mem_iff_getElem.mpr ⟨e.2 - 0, by omega, by simpa using this.2.2.symm⟩)
  exact ⟨e.1.1, (List.of_mem_zip hmem).1, raw, rfl, rfl⟩

/-- **rescale_monotone** the final rescaling multiplies by a factor ≥ 1 that grows with the
structure's score: candidates from the best structure keep their score. -/
theorem rescale_factor_ge_one (cn mcn : Rat) (h : mcn ≤ cn) (h0 : 0 ≤ mcn) :
    1 ≤ (cn + SLACK) / (mcn + SLACK) := by
  have hs := slack_pos
  rw [le_div_iff₀ (by linarith)]
  linarith

/-! ### Non-vacuity -/
example : selectStage [⟨3/2, "b", 0⟩, ⟨1, "a", 0⟩, ⟨7/4, "c", 0⟩] (1/2) = [⟨1, "a", 0⟩, ⟨3/2, "b", 0⟩] := by decide +kernel
example : selectStage [⟨1, "b", 0⟩, ⟨1, "a", 0⟩] 0 = [⟨1, "a", 0⟩, ⟨1, "b", 0⟩] := by decide +kernel

end Aldy
