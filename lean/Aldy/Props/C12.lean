import Aldy.Model.Writers
import Aldy.Props.C11

/-!
# C12 — result files state exactly the reported solutions

`write_decomposition`: rows proved exact and the read-back inverse.  `write_vcf`: the model is
the writer *as written*; the property's GT clause is proved under the hypotheses that make it
true (`vcf_gt_partial`) and refuted in general by closed counter-examples
(`vcf_gt_counterexample_*`), which the harness replays on the implementation (known findings).
-/

namespace Aldy

theorem mem_dedupM (x : Mut) (l : List Mut) : x ∈ dedupM l ↔ x ∈ l := by
  induction l with
  | nil => simp [dedupM]
  | cons y ys ih =>
    unfold dedupM
    split
    · rename_i h
      rw [ih]
      constructor
      · intro hx; exact List.mem_cons_of_mem _ hx
      · intro hx
        rcases List.mem_cons.mp hx with rfl | hx
        · exact h
        · exact hx
    · simp [List.mem_cons, ih]

theorem dedupM_nodup (l : List Mut) : (dedupM l).Nodup := by
  induction l with
  | nil => simp [dedupM]
  | cons y ys ih =>
    unfold dedupM
    split
    · exact ih
    · rename_i h
      exact List.nodup_cons.mpr ⟨fun hm => h ((mem_dedupM y ys).mp hm), ih⟩

theorem mem_sortDedup (x : Mut) (l : List Mut) : x ∈ sortDedup l ↔ x ∈ l := by
  unfold sortDedup
  rw [(sortStable_perm Mut.lt (dedupM l)).mem_iff, mem_dedupM]

theorem sortDedup_nodup (l : List Mut) : (sortDedup l).Nodup := by
  unfold sortDedup
  exact (sortStable_perm Mut.lt (dedupM l)).nodup_iff.mpr (dedupM_nodup l)

/-- **carried_exact** the variants a copy is listed with are exactly
definition ∪ added − missing, each once. -/
theorem carried_exact (c : CopyV) (m : Mut) :
    (m ∈ c.carried ↔ (m ∈ c.defMuts ∨ m ∈ c.added) ∧ m ∉ c.missing) ∧ c.carried.Nodup := by
  unfold CopyV.carried
  refine ⟨?_, sortDedup_nodup _⟩
  rw [mem_sortDedup]
  simp only [List.mem_filter, List.mem_append, decide_eq_true_eq]

/-- **decomp_rows_exact** the block of rows written for copy `i` of a solution: one empty row
when the copy carries nothing, otherwise one row per carried variant, in sorted order, each
stating the copy index, the minor allele, position and change. -/
theorem decomp_rows_exact (sample gene : String) (solId : Nat) (tab : List MutText) (s : SolV) :
    decompRows sample gene solId tab s =
      (s.copies.zipIdx).flatMap fun ci =>
        if ci.1.carried.isEmpty then
          [[sample, gene, toString solId, s.diplotype,
            String.intercalate ";" ((s.copies.map (·.minor)).filter (· != "")), toString ci.2, ci.1.minor,
            "", "", "", "", "", "", ""]]
        else ci.1.carried.map fun m =>
          [sample, gene, toString solId, s.diplotype,
           String.intercalate ";" ((s.copies.map (·.minor)).filter (· != "")), toString ci.2, ci.1.minor,
           toString m.pos, m.op, (textOf tab m).cov, (textOf tab m).effect, (textOf tab m).rsid, ""] := rfl

/-- every row of the decomposition names a copy of the solution and a variant it carries
(or is that copy's single empty row) -/
theorem decomp_row_sound (sample gene : String) (solId : Nat) (tab : List MutText) (s : SolV)
    (row : List String) (h : row ∈ decompRows sample gene solId tab s) :
    ∃ ci ∈ s.copies.zipIdx, row.getD 5 "" = toString ci.2 ∧ row.getD 6 "" = ci.1.minor ∧
      ((ci.1.carried = [] ∧ row.getD 7 "" = "") ∨
       ∃ m ∈ ci.1.carried, row.getD 7 "" = toString m.pos ∧ row.getD 8 "" = m.op) := by
  unfold decompRows at h
  simp only [List.mem_flatMap] at h
  obtain ⟨ci, hci, hrow⟩ := h
  refine ⟨ci, hci, ?_⟩
  by_cases he : ci.1.carried.isEmpty = true
  · simp only [he, if_true, List.mem_singleton] at hrow
    subst hrow
    refine ⟨rfl, rfl, Or.inl ⟨by simpa using he, rfl⟩⟩
  · simp only [he, Bool.false_eq_true, if_false, List.mem_map] at hrow
    obtain ⟨m, hm, rfl⟩ := hrow
    exact ⟨rfl, rfl, Or.inr ⟨m, hm, rfl, rfl⟩⟩

/-- every carried variant of every copy has its row -/
theorem decomp_row_complete (sample gene : String) (solId : Nat) (tab : List MutText) (s : SolV)
    (ci : CopyV × Nat) (hci : ci ∈ s.copies.zipIdx) (m : Mut) (hm : m ∈ ci.1.carried) :
    ∃ row ∈ decompRows sample gene solId tab s, row.getD 5 "" = toString ci.2 ∧
      row.getD 7 "" = toString m.pos ∧ row.getD 8 "" = m.op := by
  have hne : ci.1.carried.isEmpty = false := by
    cases h : ci.1.carried with
    | nil => rw [h] at hm; simp at hm
    | cons a as => rfl
  refine ⟨[sample, gene, toString solId, s.diplotype,
           String.intercalate ";" ((s.copies.map (·.minor)).filter (· != "")), toString ci.2, ci.1.minor,
           toString m.pos, m.op, (textOf tab m).cov, (textOf tab m).effect, (textOf tab m).rsid, ""], ?_, rfl, rfl, rfl⟩
  unfold decompRows
  simp only [List.mem_flatMap]
  refine ⟨ci, hci, ?_⟩
  simp only [hne, Bool.false_eq_true, if_false, List.mem_map]
  exact ⟨m, hm, rfl⟩

/-! ### VCF -/

/-- **vcf_gt_partial** with a single reported solution none of whose copies lost a variant,
the genotype cell of copy `i` is 1 exactly if that copy is reported to carry the variant. -/
theorem vcf_gt_partial (s : SolV) (hmiss : ∀ c ∈ s.copies, c.missing = []) (m : Mut) (i : Nat) :
    vcfCell [s] m i = vcfCellSpec s m i := by
  unfold vcfCell vcfCellSpec
  simp only [List.any_cons, List.any_nil, Bool.or_false]
  cases h : s.copies[i]? with
  | none => rfl
  | some c =>
    have hc : c ∈ s.copies := List.mem_of_getElem? h
    have hm := hmiss c hc
    simp only [CopyV.marked, CopyV.carried, hm, List.not_mem_nil, not_false_eq_true, decide_true, List.filter_true]
    rfl

/-- the same holds for any number of solutions that are identical copy for copy -/
theorem vcf_gt_partial_identical (s : SolV) (n : Nat) (hmiss : ∀ c ∈ s.copies, c.missing = [])
    (m : Mut) (i : Nat) : vcfCell (List.replicate (n + 1) s) m i = vcfCellSpec s m i := by
  rw [← vcf_gt_partial s hmiss m i]
  unfold vcfCell
  induction n with
  | zero => rfl
  | succ k ih =>
    rw [List.replicate_succ, List.any_cons, ih]
    simp [List.any_cons]

/-- positions are one-based, and single-nucleotide substitutions are spelled REF>ALT -/
theorem vcf_snp_spelling (tab : List MutText) (sols : List SolV) (r : VcfRec) (h : r ∈ vcfRecords tab sols) :
    ∃ m ∈ vcfMuts sols, r.pos1 = m.pos + 1 ∧ (r.ref, r.alt) = vcfRefAlt m := by
  unfold vcfRecords at h
  obtain ⟨m, hm, rfl⟩ := List.mem_map.mp h
  exact ⟨m, hm, rfl, rfl⟩

theorem vcf_snp_refalt (p : Int) (a b : Char) :
    vcfRefAlt ⟨p, String.ofList [a, '>', b]⟩ = (String.ofList [a], String.ofList [b]) := by
  simp [vcfRefAlt, String.toList_ofList]

/-! ### counter-examples (closed terms, kernel-evaluated; replayed on the implementation) -/

def cxA : CopyV := ⟨"2", "2.001", [⟨10, "A>G"⟩], [], []⟩
def cxB : CopyV := ⟨"1", "1.001", [], [], []⟩

/-- two solutions that differ: the column of the second shows the variant on a copy that
does not carry it -/
theorem vcf_gt_counterexample_shared_table :
    vcfCell [⟨[cxA, cxB], "*2/*1"⟩, ⟨[cxB, cxB], "*1/*1"⟩] ⟨10, "A>G"⟩ 0 = true ∧
    vcfCellSpec ⟨[cxB, cxB], "*1/*1"⟩ ⟨10, "A>G"⟩ 0 = false := by decide +kernel

/-- a lost variant is still written -/
theorem vcf_gt_counterexample_missing :
    vcfCell [⟨[⟨"2", "2.001", [⟨10, "A>G"⟩], [], [⟨10, "A>G"⟩]⟩], "*2"⟩] ⟨10, "A>G"⟩ 0 = true ∧
    vcfCellSpec ⟨[⟨"2", "2.001", [⟨10, "A>G"⟩], [], [⟨10, "A>G"⟩]⟩], "*2"⟩ ⟨10, "A>G"⟩ 0 = false := by decide +kernel

/-- REF of an insertion is the letter `i` -/
theorem vcf_indel_counterexample : vcfRefAlt ⟨10, "insTT"⟩ = ("i", "iTT") ∧ vcfRefAlt ⟨10, "delAC"⟩ = (".", "AC, .") := by
  decide +kernel

end Aldy
