import Aldy.Model.World
import Aldy.Props.C13
import Aldy.Lemmas.MutOrder
import Mathlib.Data.List.Sort
import Mathlib.Data.List.Dedup

/-!
# C14 — genotyping is deterministic, isolated and leaves the database untouched
-/

namespace Aldy

/-- the accessor works on a copy (regenerated from `SolvedAllele.mutations`) -/
theorem accessor_copies : Const.MUTATIONS_ACCESSOR_COPIES = true := by decide

/-- the minor-stage evidence filter uses the structure of the candidate group it filters for,
not a variable left over from an earlier loop (regenerated from `estimate_minor`) -/
theorem minor_filter_uses_own_structure : Const.MINOR_FILTER_PER_STRUCTURE = true := by decide

/-- the considered variants are sorted before the tie-breaking coefficients are handed out, so
the construction order - and with it every coefficient of the minor objective - is a function
of the input, not of the interpreter's string hashes (regenerated from `solve_minor_model`) -/
theorem tiebreak_order_is_canonical : Const.MINOR_MUTATIONS_SORTED = true := by decide

/-- **construction_order_canonical** whatever order the caller's collection of considered variants
is iterated in (a Python `set`: the order depends on the interpreter's hash seed), the order in
which the minor model is constructed is the same -/
theorem constructionOrder_perm (l₁ l₂ : List Mut) (h : l₁.Perm l₂) (hs : Const.MINOR_MUTATIONS_SORTED = true) :
    constructionOrder l₁ = constructionOrder l₂ := by
  unfold constructionOrder; simp only [hs, if_true]
  obtain ⟨s1, p1⟩ := sortFold_spec l₁ [] List.Pairwise.nil
  obtain ⟨s2, p2⟩ := sortFold_spec l₂ [] List.Pairwise.nil
  simp only [List.append_nil] at p1 p2
  exact List.Perm.eq_of_pairwise (fun a b _ _ => Mut.le_antisymm) s1 s2 (p1.trans (h.trans p2.symm))


/-- ... hence the whole minor-stage model (variables, rows, tie-breaking coefficients) is the same -/
theorem minor_build_independent_of_iteration_order (I : MinorInst) (l₁ l₂ : List Mut) (h : l₁.Perm l₂)
    (hs : Const.MINOR_MUTATIONS_SORTED = true) :
    ({ I with mutations := constructionOrder l₁ } : MinorInst).build = ({ I with mutations := constructionOrder l₂ } : MinorInst).build := by
  rw [constructionOrder_perm l₁ l₂ h hs]

/-- non-vacuity: two iteration orders of one set, one construction order -/
example : constructionOrder [⟨5, "A>C"⟩, ⟨3, "insT"⟩, ⟨5, "A>B"⟩] = constructionOrder [⟨5, "A>B"⟩, ⟨5, "A>C"⟩, ⟨3, "insT"⟩] := by decide

/-- the pooled candidate alleles are de-duplicated and sorted before they reach the model
(regenerated from `estimate_minor`) -/
theorem candidates_are_sorted : Const.MINOR_CANDIDATES_SORTED = true := by decide

/-- what `estimate_minor` hands to the model: the pooled candidates without repetitions, in the
order of their keys -/
def canonCands {α : Type} [LinearOrder α] (pool : List α) : List α := (pool.dedup).insertionSort (· ≤ ·)

/-- **candidate_order_canonical** the candidates pooled from the major solutions reach the model in
one and the same order whatever order the major solutions are given in (any permutation of the
pool, repetitions included): with `minor_build_independent_of_iteration_order` no list the minor
model is built from depends on the order of the candidates.  (The key order of the
implementation - natural order of the (major, minor) names - is a linear order on distinct
candidates: checked by the candidate-order runs of the harness.) -/
theorem candidate_order_canonical {α : Type} [LinearOrder α] (p₁ p₂ : List α) (h : p₁.Perm p₂) :
    canonCands p₁ = canonCands p₂ := by
  unfold canonCands
  exact List.Perm.eq_of_pairwise' (r := (· ≤ ·)) (List.pairwise_insertionSort _ _) (List.pairwise_insertionSort _ _)
    ((List.perm_insertionSort _ _).trans (h.dedup.trans (List.perm_insertionSort _ _).symm))

example : canonCands [21, 12, 21, 11] = canonCands [11, 21, 12] := by decide

/-- **readonly_ops_preserve_world (one step)** no modelled query, accessor, filter or stage
changes the catalogue or the evidence. -/
theorem step_preserves_world (w : World) (o : Op) : (step w o).1 = w := by
  cases o <;> simp [step, accessor_copies]

/-- **readonly_ops_preserve_world** after any history of operations the catalogue and the
evidence equal the initial ones. -/
theorem run_preserves_world (w : World) (ops : List Op) : run w ops = w := by
  unfold run
  induction ops generalizing w with
  | nil => rfl
  | cons o os ih =>
    rw [List.foldl_cons, step_preserves_world]
    exact ih w

/-- consequently every operation answers the same at any point of any history -/
theorem answers_history_independent (w : World) (ops : List Op) (o : Op) :
    (step (run w ops) o).2 = (step w o).2 := by
  rw [run_preserves_world]

/-- **mutations_accessor_counterexample (historical)** the in-place variant of the accessor -
what the code did before the repair - does change the catalogue: asking a solved `*1` allele
with one added variant for its mutations makes that variant a core variant of `*1`. -/
theorem accessor_inplace_changes_catalogue :
    let g : GeneView := { name := "G", regionNames := [], nGenes := 1, uniqueRegions := [], regionAt := [], mutations := [],
                          alleles := [⟨"1", "1", [], [⟨"1.001", [], none⟩]⟩], cnConfigs := [] }
    (accessorInPlace g "1" "1.001" [⟨5, "A>G"⟩] []).alleles.map (·.func) ≠ g.alleles.map (·.func) := by
  decide +kernel

/-- **filter_depends_only_on_own_structure** the evidence handed to the refinement of a candidate
group is a function of the raw evidence, the considered-variant set and the group's *own*
structure: two calls that agree on these agree on the filtered evidence, whatever other
candidates are refined alongside and in whatever order. -/
theorem filter_depends_only_on_own_structure (g : GeneView) (p : ProfileV) (c : Cov) (considered : List Mut)
    (own : CNSol) (others others' : List CNSol) :
    (fun (_ : List CNSol) => minorFilteredCov g p own considered c) others =
    (fun (_ : List CNSol) => minorFilteredCov g p own considered c) others' := rfl

/-- **stage_perm_invariant (algebra)** what "a different hash seed" can change is the order in
which sets and dictionaries are enumerated, i.e. the order of constraints and of terms; neither
changes feasibility or objective (`sat_of_same_constraints`, `objective_of_perm`, `evalTerms_perm`
of Props/C13).  Restated for a model and a permutation of its constraint list: -/
theorem sat_constraint_perm {V : Type} (m : Ilp V) (cons' : List (LinCon V)) (h : m.cons.Perm cons') (σ : V → Rat) :
    m.Sat σ ↔ ({ m with cons := cons' } : Ilp V).Sat σ :=
  sat_of_same_constraints m { m with cons := cons' } (fun _ => Iff.rfl) (fun c => h.mem_iff) σ

/-! ### Non-vacuity -/
example : (step ⟨{ name := "G", regionNames := [], nGenes := 1, uniqueRegions := [], regionAt := [], mutations := [],
                   alleles := [⟨"1", "1", [⟨3, "C>T"⟩], [⟨"1.001", [⟨9, "G>A"⟩], none⟩]⟩], cnConfigs := [] }, ⟨[], []⟩⟩
               (.mutationsAccessor "1" "1.001" [⟨5, "A>G"⟩] [⟨3, "C>T"⟩])).2 matches .muts [⟨9, "G>A"⟩, ⟨5, "A>G"⟩] := by
  decide +kernel

end Aldy
