import Aldy.Model.Dump
import Aldy.Props.C11

/-!
# C17 — a debug dump replays to the same result
-/

namespace Aldy

def countObs (o : Obs) (l : List Obs) : Nat := l.count o

theorem expand_count_step (acc : List (Obs × Nat)) (o x : Obs) (hnd : (acc.map (·.1)).Nodup) :
    (expandObs (if acc.any (fun e => e.1 == o) then acc.map fun e => if e.1 == o then (e.1, e.2 + 1) else e
                else acc ++ [(o, 1)])).count x = (expandObs acc).count x + (if o = x then 1 else 0) := by
  split
  · rename_i hany
    induction acc with
    | nil => simp at hany
    | cons e es ih =>
      have hnd' : e.1 ∉ es.map (·.1) ∧ (es.map (·.1)).Nodup := by
        rw [List.map_cons] at hnd; exact List.nodup_cons.mp hnd
      simp only [List.map_cons, expandObs, List.flatMap_cons, List.count_append]
      by_cases he : e.1 = o
      · have hb : (e.1 == o) = true := by simpa using he
        simp only [hb, if_true]
        have hrest : (es.map fun e' => if (e'.1 == o) = true then (e'.1, e'.2 + 1) else e') = es := by
          conv_rhs => rw [← List.map_id es]
          apply List.map_congr_left
          intro e' he'
          have : e'.1 ≠ o := by
            intro hk; apply hnd'.1; rw [he, ← hk]; exact List.mem_map.mpr ⟨e', he', rfl⟩
          have hb' : (e'.1 == o) = false := by simpa using this
          simp [hb']
        rw [hrest]
        simp only [List.replicate_succ, List.count_cons, List.count_replicate, he]
        by_cases hx : o = x
        · subst hx; simp; omega
        · have : ¬ (x = o) := fun h => hx h.symm
          simp [hx, this]
      · have hb : (e.1 == o) = false := by simpa using he
        simp only [hb, Bool.false_eq_true, if_false]
        have hany' : es.any (fun e => e.1 == o) = true := by
          simp only [List.any_cons, hb, Bool.false_or] at hany; exact hany
        have := ih hnd'.2 hany'
        simp only [expandObs] at this
        rw [this]; omega
  · simp only [expandObs, List.flatMap_append, List.flatMap_cons, List.flatMap_nil, List.append_nil, List.count_append,
      List.replicate_one, List.count_cons, List.count_nil]
    by_cases hx : o = x
    · subst hx; simp
    · have : ¬ (x = o) := fun h => hx h.symm
      simp [hx, this]

theorem compress_keys_nodup (l : List Obs) : ((compressObs l).map (·.1)).Nodup := by
  unfold compressObs
  have : ∀ (l : List Obs) (acc : List (Obs × Nat)), (acc.map (·.1)).Nodup →
      ((l.foldl (fun acc o =>
        if acc.any (fun e => e.1 == o) then acc.map fun e => if e.1 == o then (e.1, e.2 + 1) else e
        else acc ++ [(o, 1)]) acc).map (·.1)).Nodup := by
    intro l
    induction l with
    | nil => intro acc h; exact h
    | cons o os ih =>
      intro acc h
      simp only [List.foldl_cons]
      apply ih
      split
      · have : (acc.map fun e => if (e.1 == o) = true then (e.1, e.2 + 1) else e).map (·.1) = acc.map (·.1) := by
          rw [List.map_map]; apply List.map_congr_left; intro e _; simp only [Function.comp]; split <;> rfl
        rw [this]; exact h
      · rename_i hn
        simp only [List.map_append, List.map_cons, List.map_nil]
        rw [List.nodup_append]
        refine ⟨h, by simp, ?_⟩
        intro a ha b hb
        simp only [List.mem_singleton] at hb
        subst hb
        intro heq
        apply hn
        obtain ⟨e, he, rfl⟩ := List.mem_map.mp ha
        exact List.any_eq_true.mpr ⟨e, he, by simpa using heq⟩
  exact this l [] (by simp)

/-- **dump_roundtrip** writing the observations of a site into the dump and loading them back
gives the same multiset of observations: every (mapping quality, base quality) pair occurs
exactly as often as before. -/
theorem dump_roundtrip (l : List Obs) : (expandObs (compressObs l)).Perm l := by
  rw [List.perm_iff_count]
  intro x
  unfold compressObs
  have : ∀ (l : List Obs) (acc : List (Obs × Nat)), (acc.map (·.1)).Nodup →
      (expandObs (l.foldl (fun acc o =>
        if acc.any (fun e => e.1 == o) then acc.map fun e => if e.1 == o then (e.1, e.2 + 1) else e
        else acc ++ [(o, 1)]) acc)).count x = (expandObs acc).count x + l.count x := by
    intro l
    induction l with
    | nil => intro acc _; simp
    | cons o os ih =>
      intro acc h
      simp only [List.foldl_cons]
      have hk : ((if acc.any (fun e => e.1 == o) then acc.map fun e => if e.1 == o then (e.1, e.2 + 1) else e
                  else acc ++ [(o, 1)]).map (·.1)).Nodup := by
        have := compress_keys_nodup
        split
        · have : (acc.map fun e => if (e.1 == o) = true then (e.1, e.2 + 1) else e).map (·.1) = acc.map (·.1) := by
            rw [List.map_map]; apply List.map_congr_left; intro e _; simp only [Function.comp]; split <;> rfl
          rw [this]; exact h
        · rename_i hn
          simp only [List.map_append, List.map_cons, List.map_nil]
          rw [List.nodup_append]
          refine ⟨h, by simp, ?_⟩
          intro a ha b hb
          simp only [List.mem_singleton] at hb
          subst hb
          intro heq
          apply hn
          obtain ⟨e, he, rfl⟩ := List.mem_map.mp ha
          exact List.any_eq_true.mpr ⟨e, he, by simpa using heq⟩
      rw [ih _ hk, expand_count_step acc o x h, List.count_cons]
      by_cases hx : o = x
      · subst hx; simp; omega
      · have : ¬ (x = o) := fun h => hx h.symm
        simp [hx, this]
  simpa [expandObs] using this l [] (by simp)

/-- **stages_respect_equiv (counts)** what the stages read from a site - the number of
observations and the number of qualifying observations - is the same for the replayed list. -/
theorem dump_counts_equal (l : List Obs) (p : Obs → Bool) :
    (expandObs (compressObs l)).length = l.length ∧
    ((expandObs (compressObs l)).filter p).length = (l.filter p).length := by
  have h := dump_roundtrip l
  exact ⟨h.length_eq, (h.filter p).length_eq⟩

/-- **phase_modes_equal** dropping fragments that cover a single site does not change the
read-phase patterns the minor stage uses (it only uses patterns over at least two sites). -/
theorem phase_modes_equal (mutPos : List Int) (frags : List (List (Int × String))) :
    phaseModes mutPos (dumpPhases frags) = phaseModes mutPos frags := by
  unfold phaseModes dumpPhases
  -- the fold ignores every fragment whose restriction has at most one site
  have key : ∀ (l : List (List (Int × String))) (acc : List (List (Int × String) × Nat)),
      (l.filter fun v => v.length > 1).foldl (fun acc rv =>
        let c := sortPairs (rv.filter fun kv => mutPos.contains kv.1)
        if c.length > 1 then
          (if acc.any (fun e => e.1 == c) then acc.map fun e => if e.1 == c then (e.1, e.2 + 1) else e else acc ++ [(c, 1)])
        else acc) acc =
      l.foldl (fun acc rv =>
        let c := sortPairs (rv.filter fun kv => mutPos.contains kv.1)
        if c.length > 1 then
          (if acc.any (fun e => e.1 == c) then acc.map fun e => if e.1 == c then (e.1, e.2 + 1) else e else acc ++ [(c, 1)])
        else acc) acc := by
    intro l
    induction l with
    | nil => intro acc; rfl
    | cons v vs ih =>
      intro acc
      by_cases hv : v.length > 1
      · simp only [List.filter_cons, hv, decide_true, if_true, List.foldl_cons]
        exact ih _
      · simp only [List.filter_cons, hv, decide_false, Bool.false_eq_true, if_false, List.foldl_cons]
        have hlen : ∀ (l : List (Int × String)), (sortPairs l).length = l.length := by
          intro l
          induction l with
          | nil => rfl
          | cons x xs ihx =>
            have hins : ∀ (y : Int × String) (ys : List (Int × String)), (insertPair y ys).length = ys.length + 1 := by
              intro y ys
              induction ys with
              | nil => rfl
              | cons z zs ihz => simp only [insertPair]; split <;> simp [ihz]
            simp only [sortPairs, List.foldr_cons] at ihx ⊢
            rw [hins]; simp [ihx]
        have hc : ¬ ((sortPairs (v.filter fun kv => mutPos.contains kv.1)).length > 1) := by
          rw [hlen]
          have := List.length_filter_le (fun kv : Int × String => mutPos.contains kv.1) v
          omega
        simp only [hc, if_false]
        exact ih acc
  exact key frags []

/-! ### Non-vacuity -/
example : compressObs [(60, 40), (60, 25), (60, 40)] = [((60, 40), 2), ((60, 25), 1)] := by decide +kernel
example : expandObs (compressObs [(60, 40), (60, 25), (60, 40)]) = [(60, 40), (60, 40), (60, 25)] := by decide +kernel

end Aldy
