import Aldy.Lemmas.Planted

/-!
# C02 — the score of a major-allele call is the documented one, and it is attained

`MajorInst.specMajor I k` is the documented score of calling `k a` copies of every candidate
allele `a` (`Model/Planted.lean`): the absolute difference between observed and called copies for
every observed core variant and every reference row - a variant nobody carries being called once,
as novel - plus the novelty penalties.  It never looks at the ILP.

* `major_decision_achievable` : for every admissible multiset `k` (fits and fills the structure,
  at most one uncarried non-insertion variant per site) the model has a feasible point that
  selects exactly `k` and whose objective **is** `specMajor I k`;
* `major_spec_lower_bound` : every feasible point that selects `k` scores at least `specMajor I k`.

Hence the least objective among the feasible points that select `k` is `specMajor I k`
(`major_min_objective_is_spec`), and an optimum of the model is a multiset of least documented
score among the admissible ones (`major_optimum_is_spec_min`).
-/

namespace Aldy
open MajorInst

theorem absQ_eq_abs (x : Rat) : absQ x = |x| := by
  unfold absQ
  split_ifs with h
  · exact (abs_of_neg h).symm
  · exact (abs_of_nonneg (not_lt.mp h)).symm

theorem sumVars_congr {V : Type} (σ τ : V → Rat) (vs : List V) (h : ∀ v ∈ vs, σ v = τ v) :
    sumVars σ vs = sumVars τ vs := by
  unfold sumVars
  rw [List.map_congr_left h]

/-- the assignment a multiset `k` of candidate alleles determines: copy selectors, carried /
novel flags, the error every row is left with, and its absolute value -/
def decσ (I : MajorInst) (k : String → Nat) : MVar → Rat
  | .A a i => if i < k a then 1 else 0
  | .OR m => if carriedB I k m then 1 else 0
  | .XOR _ => 1
  | .N m => if carriedB I k m then 0 else 1
  | .E m =>
    if m.op == "_" then I.observed m - I.refCount k m.pos
    else I.observed m - (I.carriersCount k m + (if carriedB I k m then 0 else 1))
  | .ABS m =>
    if m.op == "_" then |I.observed m - I.refCount k m.pos|
    else |I.observed m - (I.carriersCount k m + (if carriedB I k m then 0 else 1))|
  | .NOVEL => if (I.novelOf k).isEmpty then 0 else 1

/-- what `admissibleB` decides -/
structure Admissible (I : MajorInst) (k : String → Nat) : Prop where
  fits : ∀ a ∈ I.alleles, k a.name ≤ max 1 (I.cn.count a.cnConfig)
  fills : ∀ cc ∈ I.cn.solution, plantedSum k (I.alleles.filter fun a => a.cnConfig == cc.1) = (cc.2 : Rat)
  oneNovel : ∀ pos ∈ I.positions, ((I.novelOf k).filter fun m => m.pos == pos && !m.isIns).length ≤ 1

theorem admissibleB_iff (I : MajorInst) (k : String → Nat) : I.admissibleB k = true ↔ Admissible I k := by
  simp only [admissibleB, Bool.and_eq_true, List.all_eq_true, decide_eq_true_eq]
  constructor
  · rintro ⟨⟨h1, h2⟩, h3⟩; exact ⟨h1, h2, h3⟩
  · intro h; exact ⟨⟨h.fits, h.fills⟩, h.oneNovel⟩

theorem decσ_A_eq_planted (I : MajorInst) (k : String → Nat) (a : String) (i : Nat) :
    decσ I k (.A a i) = plantedσ I k (.A a i) := rfl

theorem dec_sum_slots (I : MajorInst) (k : String → Nat) (P : MajorA → Bool)
    (hfit : ∀ a ∈ I.alleles, k a.name ≤ max 1 (I.cn.count a.cnConfig)) :
    sumVars (decσ I k) ((I.slots.filter fun s => P s.1).map va) = plantedSum k (I.alleles.filter P) := by
  rw [sumVars_congr (decσ I k) (plantedσ I k)]
  · exact planted_sum_slots I k P I.alleles hfit
  · intro v hv
    obtain ⟨s, _, rfl⟩ := List.mem_map.mp hv
    rfl

theorem dec_bin (I : MajorInst) (k : String → Nat) (v : MVar) (hv : ∀ m, v ≠ .E m ∧ v ≠ .ABS m) : IsBin (decσ I k v) := by
  cases v with
  | E m => exact absurd rfl (hv m).1
  | ABS m => exact absurd rfl (hv m).2
  | _ => simp only [decσ] <;> (try split_ifs) <;> simp [IsBin]

/-- a slot of a carried variant that is switched on -/
theorem carried_iff_slot (I : MajorInst) (k : String → Nat) (m : Mut)
    (hfit : ∀ a ∈ I.alleles, k a.name ≤ max 1 (I.cn.count a.cnConfig)) :
    carriedB I k m = true ↔ ∃ x ∈ (I.carriers m).map va, decσ I k x = 1 := by
  unfold carriedB
  rw [List.any_eq_true]
  constructor
  · rintro ⟨a, ha, hc⟩
    simp only [Bool.and_eq_true, decide_eq_true_eq] at hc
    refine ⟨va (a, 0), ?_, ?_⟩
    · refine List.mem_map.mpr ⟨(a, 0), ?_, rfl⟩
      refine List.mem_filter.mpr ⟨?_, by simpa using hc.1⟩
      exact List.mem_flatMap.mpr ⟨a, ha, List.mem_map.mpr ⟨0, by simp [MajorInst.copies], rfl⟩⟩
    · simp [va, decσ, hc.2]
  · rintro ⟨x, hx, h1⟩
    obtain ⟨s, hs, rfl⟩ := List.mem_map.mp hx
    obtain ⟨hs1, hs2⟩ := List.mem_filter.mp hs
    obtain ⟨a, ha, hs3⟩ := List.mem_flatMap.mp hs1
    obtain ⟨i, _, rfl⟩ := List.mem_map.mp hs3
    refine ⟨a, ha, ?_⟩
    simp only [va, decσ] at h1
    have : i < k a.name := by
      by_contra hlt
      simp [hlt] at h1
    simp only [Bool.and_eq_true, decide_eq_true_eq]
    exact ⟨by simpa using hs2, by omega⟩

section Achievable
variable (I : MajorInst) (k : String → Nat)

theorem dec_N_sum_filter (ms : List Mut) :
    sumVars (decσ I k) (ms.map MVar.N) = ((ms.filter fun m => !carriedB I k m).length : Rat) := by
  induction ms with
  | nil => simp
  | cons m ms ih =>
    simp only [List.map_cons, sumVars_cons, ih, List.filter_cons, decσ]
    by_cases h : carriedB I k m = true
    · simp [h]
    · simp [h]; ring

theorem novelOf_filter (pos : Int) :
    (I.novelOf k).filter (fun m => m.pos == pos && !m.isIns) =
      (I.funcMuts.filter fun m => m.pos == pos && !m.isIns).filter fun m => !carriedB I k m := by
  unfold MajorInst.novelOf
  rw [List.filter_filter, List.filter_filter]
  apply List.filter_congr
  intro m _
  exact Bool.and_comm _ _

/-- **major_decision_achievable** every admissible multiset is the decision of a feasible point
whose objective is its documented score -/
theorem major_decision_achievable (hA : Admissible I k) (hops : ∀ m ∈ I.funcMuts, (m.op == "_") = false) :
    I.build.Sat (decσ I k) ∧ I.build.objective (decσ I k) = I.specMajor k := by
  set σ := decσ I k with hσ
  have hfit := hA.fits
  have hE : ∀ m ∈ I.funcMuts, σ (.E m) = I.observed m - (I.carriersCount k m + σ (.N m)) := by
    intro m hm
    simp only [hσ, decσ, hops m hm, Bool.false_eq_true, if_false]
  have hEref : ∀ pos, σ (.E (refMut pos)) = I.observed (refMut pos) - I.refCount k pos := by
    intro pos
    simp [hσ, decσ, refMut]
  have hsat : I.build.Sat σ := by
   refine ⟨?_, ?_⟩
   · intro vk hvk
     simp only [MajorInst.build, List.mem_append, List.mem_map, List.mem_flatMap, List.mem_singleton] at hvk
     rcases hvk with ((((⟨s, _, rfl⟩ | ⟨m, _, rfl⟩) | ⟨m, _, rfl⟩) | ⟨m, _, hm⟩) | ⟨m, _, rfl⟩) | rfl
     · exact dec_bin I k _ (by intro m; constructor <;> simp [va])
     · simp [Kind.ok]
     · exact dec_bin I k _ (by intro m'; constructor <;> simp)
     · simp only [List.mem_cons, List.mem_nil_iff, or_false] at hm
       rcases hm with rfl | rfl
       · exact dec_bin I k _ (by intro m'; constructor <;> simp)
       · exact dec_bin I k _ (by intro m'; constructor <;> simp)
     · refine ⟨?_, by intro u h; cases h⟩
       intro l h
       cases h
       simp only [hσ, decσ]
       split_ifs <;> exact abs_nonneg _
     · exact dec_bin I k _ (by intro m'; constructor <;> simp)
   · intro c hc
     simp only [MajorInst.build, List.mem_append] at hc
     rcases hc with (((((hc | hc) | hc) | hc) | hc) | hc) | hc
     · -- CORD
       obtain ⟨s, hs, rfl⟩ := List.mem_map.mp hc
       rw [leVar_holds]
       have hpos : s.2 > 0 := by simpa using (List.mem_filter.mp hs).2
       simp only [hσ, va, decσ]
       by_cases h1 : s.2 < k s.1.name
       · have h2 : s.2 - 1 < k s.1.name := by omega
         simp [h1, h2]
       · simp only [h1, if_false]
         split_ifs <;> norm_num
     · -- CONE
       obtain ⟨pos, hp, rfl⟩ := List.mem_map.mp hc
       simp only [LinCon.holds, evalTerms_ones, hσ, dec_N_sum_filter]
       have := hA.oneNovel pos hp
       rw [novelOf_filter] at this
       exact_mod_cast this
     · -- CFUNC
       simp only [consCFUNC, List.mem_append, List.mem_flatMap] at hc
       rcases hc with ⟨m, hm, hc⟩ | ⟨pos, hp, hc⟩
       · have hsum : sumVars σ ((I.carriers m).map va) = I.carriersCount k m :=
           dec_sum_slots I k (fun a => a.func.contains m) hfit
         simp only [eqCons, List.mem_cons, List.mem_nil_iff, or_false] at hc
         rcases hc with rfl | rfl <;>
           simp only [LinCon.holds, evalTerms_append, evalTerms_ones, evalTerms_cons, evalTerms_nil, hsum, hE m hm] <;>
           linarith
       · have hsum : sumVars σ ((I.refCarriers pos).map va) = I.refCount k pos :=
           dec_sum_slots I k
             (fun a => I.gene.hasCoverage a.name pos && !(a.func.any fun ma => ma.pos == pos && !ma.isIns)) hfit
         simp only [eqCons, List.mem_cons, List.mem_nil_iff, or_false] at hc
         rcases hc with rfl | rfl <;>
           simp only [LinCon.holds, evalTerms_append, evalTerms_ones, evalTerms_cons, evalTerms_nil, hsum, hEref] <;>
           linarith
     · -- CSAT
       obtain ⟨cc, hcc, hc⟩ := List.mem_flatMap.mp hc
       have hsum : sumVars σ ((I.slots.filter fun s => s.1.cnConfig == cc.1).map va) = (cc.2 : Rat) := by
         rw [← hA.fills cc hcc]
         exact dec_sum_slots I k (fun a => a.cnConfig == cc.1) hfit
       simp only [eqCons, List.mem_cons, List.mem_nil_iff, or_false] at hc
       rcases hc with rfl | rfl <;> simp only [LinCon.holds, evalTerms_ones, hsum] <;> exact le_refl _
     · -- XOR / OR
       obtain ⟨m, hm, hc⟩ := List.mem_flatMap.mp hc
       have hOR : IsBin (σ (.OR m)) := dec_bin I k _ (by intro m'; constructor <;> simp)
       rcases List.mem_append.mp hc with hc | hc
       · have hbin : ∀ x ∈ (I.carriers m).map va, IsBin (σ x) := by
           intro x hx
           obtain ⟨s, _, rfl⟩ := List.mem_map.mp hx
           exact dec_bin I k _ (by intro m'; constructor <;> simp [va])
         refine (or_gadget σ (.OR m) _ hOR hbin).mpr ?_ c hc
         rw [← carried_iff_slot I k m hfit]
         simp only [hσ, decσ]
         by_cases h : carriedB I k m = true <;> simp [h]
       · refine (xor_gadget σ (.XOR m) (.N m) (.OR m) (Or.inr rfl)
           (dec_bin I k _ (by intro m'; constructor <;> simp)) hOR).mpr ?_ c hc
         refine ⟨rfl, ?_⟩
         simp only [hσ, decσ]
         by_cases h : carriedB I k m = true <;> simp [h]
     · -- ABS
       obtain ⟨m, _, hc⟩ := List.mem_flatMap.mp hc
       refine (abs_gadget σ (.ABS m) (.E m)).mpr ?_ c hc
       simp only [hσ, decσ]
       split_ifs <;> exact le_refl _
     · -- NOVEL
       simp only [consNOVEL, List.mem_append, List.mem_map, List.mem_singleton] at hc
       rcases hc with ⟨m, hm, rfl⟩ | rfl
       · simp only [LinCon.holds, evalTerms_cons, evalTerms_nil, hσ, decσ]
         by_cases h : carriedB I k m = true
         · simp only [h, if_true]
           split_ifs <;> norm_num
         · have hne : (I.novelOf k).isEmpty = false := by
             have : m ∈ I.novelOf k := List.mem_filter.mpr ⟨hm, by simpa using h⟩
             cases hl : I.novelOf k with
             | nil => rw [hl] at this; cases this
             | cons _ _ => rfl
           simp [h, hne]
       · simp only [LinCon.holds, evalTerms_cons]
         have hs : evalTerms σ (I.funcMuts.map fun m => ((-1 : Rat), MVar.N m)) = -((I.novelOf k).length : Rat) := by
           have := evalTerms_map_coeff σ (-1 : Rat) (I.funcMuts.map MVar.N)
           rw [List.map_map] at this
           rw [show (fun m => ((-1 : Rat), MVar.N m)) = ((fun x => ((-1 : Rat), x)) ∘ MVar.N) from rfl, this,
             hσ, dec_N_sum_filter]
           unfold MajorInst.novelOf
           ring
         rw [hs]
         simp only [hσ, decσ]
         cases hl : I.novelOf k with
         | nil => simp
         | cons x xs =>
           simp only [List.isEmpty_cons, Bool.false_eq_true, if_false, List.length_cons]
           push_cast
           have : (0 : Rat) ≤ (xs.length : Rat) := by positivity
           linarith
  refine ⟨hsat, ?_⟩
  rw [(major_score_closed_form I σ hsat).1]
  unfold MajorInst.specMajor MajorInst.errRows
  rw [List.map_append, List.sum_append, List.map_map]
  have h1 : (I.funcMuts.map fun m => σ (.ABS m)) =
      I.funcMuts.map fun m => absQ (I.observed m - (I.carriersCount k m + (if carriedB I k m then 0 else 1))) := by
    apply List.map_congr_left
    intro m hm
    simp only [hσ, decσ, hops m hm, Bool.false_eq_true, if_false, absQ_eq_abs]
  have h2 : (I.positions.map ((fun m => σ (.ABS m)) ∘ refMut)) =
      I.positions.map fun pos => absQ (I.observed (refMut pos) - I.refCount k pos) := by
    apply List.map_congr_left
    intro pos _
    simp [hσ, decσ, refMut, absQ_eq_abs]
  rw [h1, h2, hσ, dec_N_sum_filter]
  simp only [decσ]
  unfold MajorInst.novelOf
  ring

end Achievable

section LowerBound
variable (I : MajorInst) (k : String → Nat)

/-- a feasible point that selects `k` flags exactly the uncarried variants as novel -/
theorem sat_N_of_decision (σ : MVar → Rat) (h : I.build.Sat σ)
    (hfit : ∀ a ∈ I.alleles, k a.name ≤ max 1 (I.cn.count a.cnConfig))
    (hdec : ∀ s ∈ I.slots, σ (va s) = decσ I k (va s)) (m : Mut) (hm : m ∈ I.funcMuts) :
    σ (.N m) = decσ I k (.N m) := by
  obtain ⟨hor, _, hsum, hO, hN⟩ := major_or_xor_values I σ h m hm
  have hc : (∃ s ∈ I.carriers m, σ (va s) = 1) ↔ carriedB I k m = true := by
    rw [carried_iff_slot I k m hfit]
    constructor
    · rintro ⟨s, hs, h1⟩
      exact ⟨va s, List.mem_map.mpr ⟨s, hs, rfl⟩, by rw [← hdec s (List.mem_filter.mp hs).1]; exact h1⟩
    · rintro ⟨x, hx, h1⟩
      obtain ⟨s, hs, rfl⟩ := List.mem_map.mp hx
      exact ⟨s, hs, by rw [hdec s (List.mem_filter.mp hs).1]; exact h1⟩
  simp only [decσ]
  by_cases hcar : carriedB I k m = true
  · have : σ (.OR m) = 1 := hor.mpr (hc.mpr hcar)
    simp only [hcar, if_true]
    linarith
  · have hno : ¬ σ (.OR m) = 1 := fun h1 => hcar (hc.mp (hor.mp h1))
    have h0 : σ (.OR m) = 0 := by
      rcases hO with h0 | h1
      · exact h0
      · exact absurd h1 hno
    simp only [hcar, Bool.false_eq_true, if_false]
    linarith

/-- **major_spec_lower_bound** a feasible point that selects `k` scores at least the documented
score of `k` -/
theorem major_spec_lower_bound (σ : MVar → Rat) (h : I.build.Sat σ)
    (hfit : ∀ a ∈ I.alleles, k a.name ≤ max 1 (I.cn.count a.cnConfig))
    (hdec : ∀ s ∈ I.slots, σ (va s) = decσ I k (va s)) :
    I.specMajor k ≤ I.build.objective σ := by
  obtain ⟨hobj, _⟩ := major_score_closed_form I σ h
  obtain ⟨hrows, hrefs⟩ := major_error_rows I σ h
  have hNeq := sat_N_of_decision I k σ h hfit hdec
  have hsumA : ∀ P : MajorA → Bool, sumVars σ ((I.slots.filter fun s => P s.1).map va) = plantedSum k (I.alleles.filter P) := by
    intro P
    rw [← dec_sum_slots I k P hfit]
    apply sumVars_congr
    intro v hv
    obtain ⟨s, hs, rfl⟩ := List.mem_map.mp hv
    exact hdec s (List.mem_filter.mp hs).1
  -- novelty terms are equal
  have hNsum : sumVars σ (I.funcMuts.map MVar.N) = ((I.novelOf k).length : Rat) := by
    rw [sumVars_congr σ (decσ I k), dec_N_sum_filter]
    · rfl
    · intro v hv
      obtain ⟨m, hm, rfl⟩ := List.mem_map.mp hv
      exact hNeq m hm
  have hNOVEL : σ .NOVEL = if (I.novelOf k).isEmpty then 0 else 1 := by
    have hflag := major_novel_flag I σ h
    have hZ : IsBin (σ .NOVEL) := h.1 (MVar.NOVEL, Kind.bin) (by simp [MajorInst.build])
    have hiff : (∃ m ∈ I.funcMuts, σ (.N m) = 1) ↔ (I.novelOf k).isEmpty = false := by
      constructor
      · rintro ⟨m, hm, h1⟩
        have hnc : carriedB I k m = false := by
          rw [hNeq m hm] at h1
          simp only [decσ] at h1
          by_contra hc
          simp [hc] at h1
        have : m ∈ I.novelOf k := List.mem_filter.mpr ⟨hm, by simp [hnc]⟩
        cases hl : I.novelOf k with
        | nil => rw [hl] at this; cases this
        | cons _ _ => rfl
      · intro hne
        cases hl : I.novelOf k with
        | nil => simp [hl] at hne
        | cons x xs =>
          have hx : x ∈ I.novelOf k := by rw [hl]; simp
          obtain ⟨hx1, hx2⟩ := List.mem_filter.mp hx
          refine ⟨x, hx1, ?_⟩
          rw [hNeq x hx1]
          simp only [decσ]
          have : carriedB I k x = false := by simpa using hx2
          simp [this]
    by_cases hne : (I.novelOf k).isEmpty = true
    · simp only [hne, if_true]
      rcases hZ with h0 | h1
      · exact h0
      · have := hiff.mp (hflag.mp h1); simp [hne] at this
    · have hne' : (I.novelOf k).isEmpty = false := by simpa using hne
      simp only [hne', Bool.false_eq_true, if_false]
      exact hflag.mpr (hiff.mpr hne')
  -- error helpers dominate the documented absolute errors
  have hA1 : (I.funcMuts.map fun m => absQ (I.observed m - (I.carriersCount k m + (if carriedB I k m then 0 else 1)))).sum ≤
      (I.funcMuts.map fun m => σ (.ABS m)).sum := by
    apply list_sum_le_sum
    intro m hm
    obtain ⟨he, ha⟩ := hrows m hm
    have hc : sumVars σ ((I.carriers m).map va) = I.carriersCount k m := hsumA (fun a => a.func.contains m)
    have hn : σ (.N m) = if carriedB I k m then 0 else 1 := by rw [hNeq m hm]; rfl
    rw [absQ_eq_abs, ← hn, ← hc, ← he]
    exact ha
  have hA2 : (I.positions.map fun pos => absQ (I.observed (refMut pos) - I.refCount k pos)).sum ≤
      (I.positions.map fun pos => σ (.ABS (refMut pos))).sum := by
    apply list_sum_le_sum
    intro pos hp
    obtain ⟨he, ha⟩ := hrefs pos hp
    have hc : sumVars σ ((I.refCarriers pos).map va) = I.refCount k pos :=
      hsumA (fun a => I.gene.hasCoverage a.name pos && !(a.func.any fun ma => ma.pos == pos && !ma.isIns))
    rw [absQ_eq_abs, ← hc, ← he]
    exact ha
  rw [hobj, hNsum, hNOVEL]
  unfold MajorInst.specMajor MajorInst.errRows
  rw [List.map_append, List.sum_append, List.map_map]
  have : (I.positions.map ((fun m => σ (.ABS m)) ∘ refMut)) = I.positions.map fun pos => σ (.ABS (refMut pos)) := rfl
  rw [this]
  linarith

/-- **major_min_objective_is_spec** among the feasible points that select an admissible multiset
`k` the least objective is the documented score of `k`, and it is attained -/
theorem major_min_objective_is_spec (hA : Admissible I k) (hops : ∀ m ∈ I.funcMuts, (m.op == "_") = false) :
    (∃ σ, I.build.Sat σ ∧ (∀ s ∈ I.slots, σ (va s) = decσ I k (va s)) ∧ I.build.objective σ = I.specMajor k) ∧
    (∀ σ, I.build.Sat σ → (∀ s ∈ I.slots, σ (va s) = decσ I k (va s)) → I.specMajor k ≤ I.build.objective σ) := by
  obtain ⟨hs, ho⟩ := major_decision_achievable I k hA hops
  exact ⟨⟨decσ I k, hs, fun _ _ => rfl, ho⟩, fun σ h hd => major_spec_lower_bound I k σ h hA.fits hd⟩

/-- **major_optimum_is_spec_min** if an optimum of the model selects `k`, its objective is the
documented score of `k`, and no admissible multiset has a lower documented score -/
theorem major_optimum_is_spec_min (hops : ∀ m ∈ I.funcMuts, (m.op == "_") = false)
    (σ : MVar → Rat) (h : I.build.Sat σ) (hopt : ∀ τ, I.build.Sat τ → I.build.objective σ ≤ I.build.objective τ)
    (hA : Admissible I k) (hdec : ∀ s ∈ I.slots, σ (va s) = decσ I k (va s)) :
    I.build.objective σ = I.specMajor k ∧ ∀ k', Admissible I k' → I.specMajor k ≤ I.specMajor k' := by
  have hlow := major_spec_lower_bound I k σ h hA.fits hdec
  obtain ⟨hs, ho⟩ := major_decision_achievable I k hA hops
  have hup : I.build.objective σ ≤ I.specMajor k := ho ▸ hopt _ hs
  have heq : I.build.objective σ = I.specMajor k := le_antisymm hup hlow
  refine ⟨heq, ?_⟩
  intro k' hA'
  obtain ⟨hs', ho'⟩ := major_decision_achievable I k' hA' hops
  rw [← heq, ← ho']
  exact hopt _ hs'

end LowerBound


/-! ### every feasible point selects an admissible multiset -/

/-- a non-increasing 0/1 sequence is the indicator of an initial segment -/
theorem mono_bin_prefix (f : Nat → Rat) (N : Nat) (hbin : ∀ i < N, IsBin (f i))
    (hmono : ∀ i, 0 < i → i < N → f i ≤ f (i - 1)) :
    ∀ i < N, f i = if i < ((List.range N).filter fun j => decide (f j = 1)).length then 1 else 0 := by
  induction N with
  | zero => intro i hi; omega
  | succ N ih =>
    have ih' := ih (fun i hi => hbin i (by omega)) (fun i h0 hi => hmono i h0 (by omega))
    have hlen : ((List.range N).filter fun j => decide (f j = 1)).length ≤ N := by
      have := List.length_filter_le (fun j => decide (f j = 1)) (List.range N)
      simpa using this
    rw [List.range_succ, List.filter_append]
    intro i hi
    by_cases hN1 : f N = 1
    · -- all earlier ones are 1 as well
      have hdown : ∀ d, d ≤ N → f (N - d) = 1 := by
        intro d
        induction d with
        | zero => intro _; simpa using hN1
        | succ d ihd =>
          intro hd
          have h1 : f (N - d) = 1 := ihd (by omega)
          have hm := hmono (N - d) (by omega) (by omega)
          have e : N - d - 1 = N - (d + 1) := by omega
          rw [e] at hm
          rcases hbin (N - (d + 1)) (by omega) with h0 | h1'
          · rw [h1, h0] at hm; norm_num at hm
          · exact h1'
      have hall : ∀ j ≤ N, f j = 1 := by
        intro j hj
        have := hdown (N - j) (by omega)
        have e : N - (N - j) = j := by omega
        rwa [e] at this
      have hcount : ((List.range N).filter fun j => decide (f j = 1)).length = N := by
        rw [List.filter_eq_self.mpr]
        · simp
        · intro j hj
          simp [hall j (by have := List.mem_range.mp hj; omega)]
      simp only [List.filter_cons, hN1, decide_true, if_true, List.filter_nil, List.length_append, hcount,
        List.length_cons, List.length_nil]
      rw [hall i (by omega)]
      have : i < N + (0 + 1) := by omega
      simp [this]
    · simp only [List.filter_cons, hN1, decide_false, Bool.false_eq_true, if_false, List.filter_nil, List.append_nil]
      by_cases hiN : i < N
      · exact ih' i hiN
      · have hi' : i = N := by omega
        subst hi'
        have h0 : f i = 0 := by
          rcases hbin i (by omega) with h0 | h1
          · exact h0
          · exact absurd h1 hN1
        rw [h0]
        have : ¬ i < ((List.range i).filter fun j => decide (f j = 1)).length := by omega
        simp [this]

/-- the multiset a point selects: per candidate allele, the number of its copy selectors that are on -/
def kOf (I : MajorInst) (σ : MVar → Rat) (name : String) : Nat :=
  match I.alleles.find? (fun a => a.name == name) with
  | some a => ((List.range (max 1 (I.cn.count a.cnConfig))).filter fun j => decide (σ (.A name j) = 1)).length
  | none => 0

theorem find_of_mem_nodup (l : List MajorA) (h : (l.map (·.name)).Nodup) (a : MajorA) (ha : a ∈ l) :
    l.find? (fun b => b.name == a.name) = some a := by
  induction l with
  | nil => cases ha
  | cons x xs ih =>
    rw [List.map_cons, List.nodup_cons] at h
    rw [List.find?_cons]
    rcases List.mem_cons.mp ha with rfl | ha'
    · simp
    · have hne : x.name ≠ a.name := fun e => h.1 (e ▸ List.mem_map.mpr ⟨a, ha', rfl⟩)
      have : (x.name == a.name) = false := by simpa using hne
      simp only [this]
      exact ih h.2 ha'

/-- **major_decision_of_sat** every feasible point selects an admissible multiset: its copy
selectors are exactly those of `kOf I σ` (copy selectors are ordered), which fits and fills the
structure and leaves at most one uncarried variant per site -/
theorem major_decision_of_sat (I : MajorInst) (σ : MVar → Rat) (h : I.build.Sat σ)
    (hnames : (I.alleles.map (·.name)).Nodup) :
    (∀ s ∈ I.slots, σ (va s) = decσ I (kOf I σ) (va s)) ∧ Admissible I (kOf I σ) := by
  have hk : ∀ a ∈ I.alleles, kOf I σ a.name =
      ((List.range (max 1 (I.cn.count a.cnConfig))).filter fun j => decide (σ (.A a.name j) = 1)).length := by
    intro a ha
    unfold kOf
    rw [find_of_mem_nodup I.alleles hnames a ha]
  have hslot : ∀ a ∈ I.alleles, ∀ i < max 1 (I.cn.count a.cnConfig), (a, i) ∈ I.slots := by
    intro a ha i hi
    refine List.mem_flatMap.mpr ⟨a, ha, List.mem_map.mpr ⟨i, ?_, rfl⟩⟩
    rw [copies_eq_range]; exact List.mem_range.mpr hi
  have hdec : ∀ s ∈ I.slots, σ (va s) = decσ I (kOf I σ) (va s) := by
    intro s hs
    obtain ⟨a, ha, hs2⟩ := List.mem_flatMap.mp hs
    obtain ⟨i, hi, rfl⟩ := List.mem_map.mp hs2
    rw [copies_eq_range] at hi
    have hiN := List.mem_range.mp hi
    have := mono_bin_prefix (fun j => σ (.A a.name j)) (max 1 (I.cn.count a.cnConfig))
      (fun j hj => I.sat_bin_slot h (hslot a ha j hj))
      (fun j h0 hj => major_copy_order I σ h (a, j) (hslot a ha j hj) h0) i hiN
    simp only [va, decσ, hk a ha]
    exact this
  have hfit : ∀ a ∈ I.alleles, kOf I σ a.name ≤ max 1 (I.cn.count a.cnConfig) := by
    intro a ha
    rw [hk a ha]
    have := List.length_filter_le (fun j => decide (σ (.A a.name j) = 1)) (List.range (max 1 (I.cn.count a.cnConfig)))
    simpa using this
  refine ⟨hdec, hfit, ?_, ?_⟩
  · intro cc hcc
    have hc := major_csat I σ h cc hcc
    have hbin : ∀ v ∈ (I.slots.filter fun s => s.1.cnConfig == cc.1).map va, IsBin (σ v) := by
      intro v hv
      obtain ⟨s, hs, rfl⟩ := List.mem_map.mp hv
      exact I.sat_bin_slot h (List.mem_filter.mp hs).1
    have h1 := sumVars_eq_countOnes σ _ hbin
    rw [hc] at h1
    rw [← h1, ← dec_sum_slots I (kOf I σ) (fun a => a.cnConfig == cc.1) hfit]
    apply sumVars_congr
    intro v hv
    obtain ⟨s, hs, rfl⟩ := List.mem_map.mp hv
    exact (hdec s (List.mem_filter.mp hs).1).symm
  · intro pos hp
    have hc := major_one_novel_per_site I σ h pos hp
    rw [novelOf_filter]
    have hbin : ∀ v ∈ (I.funcMuts.filter fun m => m.pos == pos && !m.isIns).map MVar.N, IsBin (σ v) := by
      intro v hv
      obtain ⟨m, hm, rfl⟩ := List.mem_map.mp hv
      exact I.sat_bin_N h (List.mem_filter.mp hm).1
    have h1 := sumVars_eq_countOnes σ _ hbin
    have h2 : sumVars σ ((I.funcMuts.filter fun m => m.pos == pos && !m.isIns).map MVar.N) =
        (((I.funcMuts.filter fun m => m.pos == pos && !m.isIns).filter fun m => !carriedB I (kOf I σ) m).length : Rat) := by
      rw [← dec_N_sum_filter]
      apply sumVars_congr
      intro v hv
      obtain ⟨m, hm, rfl⟩ := List.mem_map.mp hv
      exact sat_N_of_decision I (kOf I σ) σ h hfit hdec m (List.mem_filter.mp hm).1
    rw [h2] at h1
    have : ((I.funcMuts.filter fun m => m.pos == pos && !m.isIns).filter fun m => !carriedB I (kOf I σ) m).length =
        countOnes σ ((I.funcMuts.filter fun m => m.pos == pos && !m.isIns).map MVar.N) := by exact_mod_cast h1
    omega

/-- **major_optimal_score_is_least_documented** END TO END for the major model: the objective of
any optimum is the documented score of the multiset it selects, that multiset is admissible, and
no admissible multiset has a lower documented score -/
theorem major_optimal_score_is_least_documented (I : MajorInst) (σ : MVar → Rat) (h : I.build.Sat σ)
    (hopt : ∀ τ, I.build.Sat τ → I.build.objective σ ≤ I.build.objective τ)
    (hnames : (I.alleles.map (·.name)).Nodup) (hops : ∀ m ∈ I.funcMuts, (m.op == "_") = false) :
    Admissible I (kOf I σ) ∧ I.build.objective σ = I.specMajor (kOf I σ) ∧
      ∀ k', Admissible I k' → I.specMajor (kOf I σ) ≤ I.specMajor k' := by
  obtain ⟨hdec, hA⟩ := major_decision_of_sat I σ h hnames
  obtain ⟨h1, h2⟩ := major_optimum_is_spec_min I (kOf I σ) hops σ h hopt hA hdec
  exact ⟨hA, h1, h2⟩

/-! ### non-vacuity: the example instance of C02 -/
example : exInst.admissibleB (fun a => if a == "1" then 1 else if a == "2" then 1 else 0) = true := by decide +kernel
example : exInst.specMajor (fun a => if a == "1" then 1 else if a == "2" then 1 else 0) = 0 := by decide +kernel
example : exInst.specMajor (fun a => if a == "1" then 2 else 0) > 0 := by decide +kernel

end Aldy
