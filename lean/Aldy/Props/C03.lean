import Aldy.Model.CN
import Aldy.Lemmas.Gadgets
import Aldy.Lemmas.Enumerate

/-!
# C03 — gene-structure (copy number) calls are well-formed and optimal

Theorems about `CNInst.build` (model of `solve_cn_model`'s construction), `foldCN` (the
read-out) and `cnDecision` (decision table of `estimate_cn`) for every instance.
-/

namespace Aldy
open CNInst

def countOnesC (σ : CVar → Rat) (vs : List CVar) : Nat := (vs.filter fun v => decide (σ v = 1)).length

theorem sumVars_eq_countOnesC (σ : CVar → Rat) (vs : List CVar) (h : ∀ v ∈ vs, IsBin (σ v)) :
    sumVars σ vs = (countOnesC σ vs : Rat) := by
  induction vs with
  | nil => simp [countOnesC]
  | cons v vs ih =>
    have ih' := ih (fun x hx => h x (by simp [hx]))
    simp only [sumVars_cons, ih', countOnesC, List.filter_cons]
    rcases h v (by simp) with h0 | h1
    · simp [h0]
    · simp [h1]; ring

theorem CNInst.sat_bin_slot {I : CNInst} {σ : CVar → Rat} (h : I.build.Sat σ)
    {s : Slot} (hs : s ∈ I.slots) : IsBin (σ (sv s)) := by
  exact h.1 (sv s, Kind.bin) (by
    simp only [CNInst.build, List.mem_append, List.mem_map]
    exact Or.inl (Or.inl (Or.inl ⟨s, hs, rfl⟩)))

theorem cn_eqCons_le_mem (t : List (Rat × CVar)) (r : Rat) : (⟨t, .le, r⟩ : LinCon CVar) ∈ CNInst.eqCons t r := by
  simp [CNInst.eqCons]
theorem cn_eqCons_ge_mem (t : List (Rat × CVar)) (r : Rat) : (⟨t, .ge, r⟩ : LinCon CVar) ∈ CNInst.eqCons t r := by
  simp [CNInst.eqCons]

/-! ## Well-formedness of every feasible point -/

/-- **cn_two_complete** exactly two complete haplotype slots (index 0 or −1; the whole-gene
deletion configuration counts as one) are set. -/
theorem cn_two_complete (I : CNInst) (σ : CVar → Rat) (h : I.build.Sat σ) :
    countOnesC σ ((I.slots.filter fun s => s.idx ≤ 0).map sv) = 2 := by
  have hmem : ∀ c ∈ I.consDIPLO, c ∈ I.build.cons := by
    intro c hc
    simp only [CNInst.build, List.mem_append]
    exact Or.inl (Or.inl (Or.inl (Or.inl hc)))
  have hle := h.2 _ (hmem _ (cn_eqCons_le_mem _ _))
  have hge := h.2 _ (hmem _ (cn_eqCons_ge_mem _ _))
  have e : evalTerms σ ((I.slots.filter fun s => s.idx ≤ 0).map fun s => ((1 : Rat), sv s)) =
      sumVars σ ((I.slots.filter fun s => s.idx ≤ 0).map sv) := by
    have := evalTerms_map_coeff σ 1 ((I.slots.filter fun s => s.idx ≤ 0).map sv)
    simp only [List.map_map, Function.comp_def, one_mul] at this
    exact this
  simp only [LinCon.holds, e] at hle hge
  have hbin : ∀ v ∈ (I.slots.filter fun s => s.idx ≤ 0).map sv, IsBin (σ v) := by
    intro v hv
    obtain ⟨s, hs, rfl⟩ := List.mem_map.mp hv
    exact I.sat_bin_slot h (List.mem_filter.mp hs).1
  rw [sumVars_eq_countOnesC σ _ hbin] at hle hge
  have : ((countOnesC σ ((I.slots.filter fun s => s.idx ≤ 0).map sv) : Nat) : Rat) = 2 := le_antisymm hle hge
  exact_mod_cast this

/-- **cn_deletion_exclusive** if the second deletion slot is set (double deletion) then no
slot of any other name — configuration, extra copy or pseudogene copy — is set. -/
theorem cn_deletion_exclusive (I : CNInst) (σ : CVar → Rat) (h : I.build.Sat σ)
    (d : String) (hd : I.delAllele = some d) (hdd : σ (.S d (-1)) = 1)
    (s : Slot) (hs : s ∈ I.slots) (hne : s.name ≠ d) : σ (sv s) = 0 := by
  have hc := h.2 ⟨[(1, sv s), (1, .S d (-1))], .le, 1⟩ (by
    simp only [CNInst.build, List.mem_append]
    refine Or.inl (Or.inl (Or.inl (Or.inr ?_)))
    simp only [consDEL, hd, List.mem_map]
    exact ⟨s, List.mem_filter.mpr ⟨hs, by simpa using hne⟩, rfl⟩)
  simp only [LinCon.holds, evalTerms_cons, evalTerms_nil, hdd] at hc
  rcases I.sat_bin_slot h hs with h0 | h1
  · exact h0
  · rw [h1] at hc; norm_num at hc

/-- **cn_second_needs_first** the second haplotype slot of a configuration is used only with
the first; extra copies `i > 1` only with copy `i − 1`. -/
theorem cn_slot_order (I : CNInst) (σ : CVar → Rat) (h : I.build.Sat σ) (s : Slot) (hs : s ∈ I.slots) :
    (s.idx = -1 → σ (sv s) ≤ σ (.S s.name 0)) ∧ (s.idx > 1 → σ (sv s) ≤ σ (.S s.name (s.idx - 1))) := by
  constructor
  · intro hi
    have hc := h.2 (leVar (sv s) (.S s.name 0)) (by
      simp only [CNInst.build, List.mem_append]
      refine Or.inl (Or.inl (Or.inr ?_))
      simp only [consORD, List.mem_filterMap]
      exact ⟨s, hs, by simp [hi]⟩)
    exact (leVar_holds σ _ _).mp hc
  · intro hi
    have hne : ¬ s.idx = -1 := by omega
    have hc := h.2 (leVar (sv s) (.S s.name (s.idx - 1))) (by
      simp only [CNInst.build, List.mem_append]
      refine Or.inl (Or.inl (Or.inr ?_))
      simp only [consORD, List.mem_filterMap]
      refine ⟨s, hs, ?_⟩
      have : (s.idx == -1) = false := by simpa using hne
      simp [this, hi])
    exact (leVar_holds σ _ _).mp hc

/-- **cn_extra_copies_are_default** a slot with positive index is an extra, pseudogene-free
copy of a DEFAULT-kind configuration or a pseudogene slot: fusion, deletion and custom
configurations own only the two complete slots, hence are used at most twice. -/
theorem cn_extra_copies_are_default (I : CNInst) (s : Slot) (hs : s ∈ I.slots) (hpos : s.idx > 0) :
    s.name = "PSEUDO" ∨ ∃ c ∈ I.baseConfigs, c.kind = .default ∧ c.name = s.name := by
  simp only [CNInst.slots, List.mem_append, List.mem_map, List.mem_flatMap] at hs
  rcases hs with (⟨c, _, rfl⟩ | ⟨c, hc, hmem⟩) | hps
  · simp at hpos
  · simp only [List.mem_cons] at hmem
    rcases hmem with rfl | hmem
    · simp at hpos
    · by_cases hk : c.kind = .default
      · right
        simp only [hk, beq_self_eq_true, if_true, List.mem_map] at hmem
        obtain ⟨i, _, rfl⟩ := hmem
        exact ⟨c, hc, hk, rfl⟩
      · have : (c.kind == CNKind.default) = false := by simpa using hk
        simp [this] at hmem
  · left
    revert hps
    cases I.delAllele with
    | none => simp
    | some d =>
      simp only
      split
      · cases I.baseConfigs.find? (fun c => c.name == d) with
        | none => simp
        | some dc =>
          simp only [List.mem_map]
          rintro ⟨i, _, rfl⟩; rfl
      · simp

/-- **cn_errors_bounded** every per-region error term lies within `±cn_max` and its helper
dominates the absolute value. -/
theorem cn_errors_bounded (I : CNInst) (σ : CVar → Rat) (h : I.build.Sat σ)
    (rc : String × (Rat × Rat)) (hr : rc ∈ I.rows) :
    |σ (.E rc.1)| ≤ I.prof.cnMax ∧ |σ (.EG rc.1)| ≤ I.prof.cnMax ∧
    |σ (.E rc.1)| ≤ σ (.ABSE rc.1) ∧ |σ (.EG rc.1)| ≤ σ (.ABSEG rc.1) := by
  have hE := h.1 (CVar.E rc.1, Kind.cont (some (-I.prof.cnMax)) (some I.prof.cnMax)) (by
    simp only [CNInst.build, List.mem_append, List.mem_flatMap]
    exact Or.inl (Or.inl (Or.inr ⟨rc, hr, by simp⟩)))
  have hEG := h.1 (CVar.EG rc.1, Kind.cont (some (-I.prof.cnMax)) (some I.prof.cnMax)) (by
    simp only [CNInst.build, List.mem_append, List.mem_flatMap]
    exact Or.inl (Or.inl (Or.inr ⟨rc, hr, by simp⟩)))
  simp only [Kind.ok] at hE hEG
  have a1 : |σ (.E rc.1)| ≤ σ (.ABSE rc.1) := by
    apply (abs_gadget σ _ _).mp
    intro c hc
    apply h.2
    simp only [CNInst.build, List.mem_append]
    refine Or.inr ?_
    simp only [consABS, List.mem_append]
    exact Or.inl (List.mem_flatMap.mpr ⟨rc, hr, hc⟩)
  have a2 : |σ (.EG rc.1)| ≤ σ (.ABSEG rc.1) := by
    apply (abs_gadget σ _ _).mp
    intro c hc
    apply h.2
    simp only [CNInst.build, List.mem_append]
    refine Or.inr ?_
    simp only [consABS, List.mem_append]
    exact Or.inr (List.mem_flatMap.mpr ⟨rc, hr, hc⟩)
  refine ⟨abs_le.mpr ⟨hE.1 _ rfl, hE.2 _ rfl⟩, abs_le.mpr ⟨hEG.1 _ rfl, hEG.2 _ rfl⟩, a1, a2⟩

/-- **cn_fit_rows** the error terms are exactly the documented residuals: gene-fit error
`g_r − Σ gene copies`, and scaled difference error
`((g_r − p_r) − (Σ gene copies − Σ pseudogene copies)) / (max(g_r, p_r) + 1)`. -/
theorem cn_fit_rows (I : CNInst) (σ : CVar → Rat) (h : I.build.Sat σ)
    (rc : String × (Rat × Rat)) (hr : rc ∈ I.rows) :
    σ (.EG rc.1) = rc.2.1 - evalTerms σ (I.geneTerms rc.1) ∧
    σ (.E rc.1) = (rc.2.1 - rc.2.2) / scaleOf rc.2.1 rc.2.2 -
      evalTerms σ (I.diffTerms rc.1 (scaleOf rc.2.1 rc.2.2)) := by
  have mem : ∀ c ∈ CNInst.eqCons (I.geneTerms rc.1 ++ [(1, CVar.EG rc.1)]) rc.2.1 ++
      CNInst.eqCons (I.diffTerms rc.1 (scaleOf rc.2.1 rc.2.2) ++ [(1, CVar.E rc.1)])
        ((rc.2.1 - rc.2.2) / scaleOf rc.2.1 rc.2.2), c ∈ I.build.cons := by
    intro c hc
    simp only [CNInst.build, List.mem_append]
    refine Or.inl (Or.inr ?_)
    exact List.mem_flatMap.mpr ⟨rc, hr, by simpa using hc⟩
  have g1 := h.2 _ (mem _ (List.mem_append_left _ (cn_eqCons_le_mem _ _)))
  have g2 := h.2 _ (mem _ (List.mem_append_left _ (cn_eqCons_ge_mem _ _)))
  have d1 := h.2 _ (mem _ (List.mem_append_right _ (cn_eqCons_le_mem _ _)))
  have d2 := h.2 _ (mem _ (List.mem_append_right _ (cn_eqCons_ge_mem _ _)))
  simp only [LinCon.holds, evalTerms_append, evalTerms_cons, evalTerms_nil] at g1 g2 d1 d2
  constructor <;> linarith

/-- **cn_objective** the objective is the documented one: weighted depth-difference helpers
+ gene-fit helpers + parsimony/fusion penalties of the set slots. -/
theorem cn_objective (I : CNInst) (σ : CVar → Rat) :
    I.build.objective σ =
      (I.rows.map fun rc => I.prof.cnDiff / I.nU *
          (if (CVar.E rc.1).name == Const.CN_PCE_VAR then I.prof.cnPcePenalty else 1) * σ (.ABSE rc.1)).sum +
      (I.rows.map fun rc => I.prof.cnFit / I.nU * σ (.ABSEG rc.1)).sum +
      (I.slots.map fun s => I.prof.cnParsimony * I.penalty s.name * σ (sv s)).sum := by
  simp only [Ilp.objective, CNInst.build, evalTerms_append]
  have e1 : ∀ (l : List (String × (Rat × Rat))) (f : String × (Rat × Rat) → Rat) (g : String × (Rat × Rat) → CVar),
      evalTerms σ (l.map fun rc => (f rc, g rc)) = (l.map fun rc => f rc * σ (g rc)).sum := by
    intro l f g; induction l with
    | nil => simp
    | cons x xs ih => simp [ih]
  have e2 : evalTerms σ (I.slots.map fun s => (I.prof.cnParsimony * I.penalty s.name, sv s)) =
      (I.slots.map fun s => I.prof.cnParsimony * I.penalty s.name * σ (sv s)).sum := by
    induction I.slots with
    | nil => simp
    | cons x xs ih => simp [ih]
  rw [e1, e1, e2]

/-- parsimony penalties are positive when the literals of the source are (generated constant) -/
theorem cn_parsimony_base_pos : 0 < Const.CN_PARSIMONY_BASE := by
  unfold Const.CN_PARSIMONY_BASE; norm_num

theorem cn_scale_pos (c0 c1 : Rat) (h0 : 0 ≤ c0) : 0 < scaleOf c0 c1 := by
  unfold scaleOf Const.CN_SCALE_ADD
  split <;> linarith

theorem cn_sum_map_nonneg {α : Type} (l : List α) (f : α → Rat) (h : ∀ x ∈ l, 0 ≤ f x) : 0 ≤ (l.map f).sum := by
  induction l with
  | nil => simp
  | cons x xs ih =>
    have h1 := h x (by simp)
    have h2 := ih (fun y hy => h y (by simp [hy]))
    simp only [List.map_cons, List.sum_cons]; linarith

/-- **cn_objective_nonneg** the objective of the structure model is non-negative at every
feasible point: absolute-error helpers are bounded below by 0, selectors are binary, and all
weights are non-negative -/
theorem cn_objective_nonneg (I : CNInst) (σ : CVar → Rat) (h : I.build.Sat σ)
    (hd : 0 ≤ I.prof.cnDiff) (hf : 0 ≤ I.prof.cnFit) (hp : 0 ≤ I.prof.cnParsimony) (hpce : 0 ≤ I.prof.cnPcePenalty)
    (hl : 0 ≤ I.prof.cnFusionLeft) (hr : 0 ≤ I.prof.cnFusionRight) :
    0 ≤ I.build.objective σ := by
  rw [cn_objective]
  have hnU : 0 ≤ I.nU := by unfold CNInst.nU; positivity
  have hbase : 0 ≤ I.parsimonyBase := by
    unfold CNInst.parsimonyBase
    exact div_nonneg (le_of_lt cn_parsimony_base_pos) hnU
  have hABSE : ∀ rc ∈ I.rows, 0 ≤ σ (.ABSE rc.1) := by
    intro rc hrc
    have := h.1 (CVar.ABSE rc.1, Kind.cont (some 0) none) (by
      simp only [CNInst.build, List.mem_append, List.mem_map]
      exact Or.inl (Or.inr ⟨rc, hrc, rfl⟩))
    exact this.1 0 rfl
  have hABSEG : ∀ rc ∈ I.rows, 0 ≤ σ (.ABSEG rc.1) := by
    intro rc hrc
    have := h.1 (CVar.ABSEG rc.1, Kind.cont (some 0) none) (by
      simp only [CNInst.build, List.mem_append, List.mem_map]
      exact Or.inr ⟨rc, hrc, rfl⟩)
    exact this.1 0 rfl
  have hS : ∀ s ∈ I.slots, 0 ≤ σ (CNInst.sv s) := by
    intro s hs
    have : IsBin (σ (CNInst.sv s)) := h.1 (CNInst.sv s, Kind.bin) (by
      simp only [CNInst.build, List.mem_append, List.mem_map]
      exact Or.inl (Or.inl (Or.inl ⟨s, hs, rfl⟩)))
    exact this.nonneg
  have hpen : ∀ name, 0 ≤ I.penalty name := by
    intro name
    unfold CNInst.penalty
    cases I.gene.config? name with
    | none => simp; exact hbase
    | some c =>
      simp only
      have a1 : 0 ≤ (if c.kind == .rightFusion then I.parsimonyBase * I.prof.cnFusionRight else 0) := by
        split_ifs
        · exact mul_nonneg hbase hr
        · exact le_refl _
      have a2 : 0 ≤ (if c.kind == .leftFusion then I.parsimonyBase * I.prof.cnFusionLeft else 0) := by
        split_ifs
        · exact mul_nonneg hbase hl
        · exact le_refl _
      linarith
  have t1 := cn_sum_map_nonneg I.rows (fun rc => I.prof.cnDiff / I.nU *
      (if (CVar.E rc.1).name == Const.CN_PCE_VAR then I.prof.cnPcePenalty else 1) * σ (.ABSE rc.1)) (by
    intro rc hrc
    have w : 0 ≤ (if (CVar.E rc.1).name == Const.CN_PCE_VAR then I.prof.cnPcePenalty else 1) := by
      split_ifs
      · exact hpce
      · norm_num
    exact mul_nonneg (mul_nonneg (div_nonneg hd hnU) w) (hABSE rc hrc))
  have t2 := cn_sum_map_nonneg I.rows (fun rc => I.prof.cnFit / I.nU * σ (.ABSEG rc.1)) (by
    intro rc hrc
    exact mul_nonneg (div_nonneg hf hnU) (hABSEG rc hrc))
  have t3 := cn_sum_map_nonneg I.slots (fun s => I.prof.cnParsimony * I.penalty s.name * σ (CNInst.sv s)) (by
    intro s hs
    exact mul_nonneg (mul_nonneg hp (hpen s.name)) (hS s hs))
  linarith


/-! ## The fold of yielded assignments into reported structures -/

def foldStep (del : Option String) (acc : List (List String × Rat)) (y : Rat × List (String × Int)) :
    List (List String × Rat) :=
  if acc.any (fun e => e.1 == decodeCN del y.2) then acc else acc ++ [(decodeCN del y.2, y.1)]

theorem foldCN_eq (del : Option String) (ys : List (Rat × List (String × Int))) :
    foldCN del ys = ys.foldl (foldStep del) [] := rfl

theorem foldl_step_invariants (del : Option String) (ys : List (Rat × List (String × Int)))
    (acc : List (List String × Rat))
    (hnd : (acc.map (·.1)).Nodup) :
    ((ys.foldl (foldStep del) acc).map (·.1)).Nodup ∧
    (∀ e ∈ ys.foldl (foldStep del) acc, e ∈ acc ∨ ∃ y ∈ ys, decodeCN del y.2 = e.1 ∧ y.1 = e.2) ∧
    (∀ e ∈ acc, e ∈ ys.foldl (foldStep del) acc) ∧
    (∀ y ∈ ys, ∃ e ∈ ys.foldl (foldStep del) acc, e.1 = decodeCN del y.2) := by
  induction ys generalizing acc with
  | nil => exact ⟨hnd, fun e he => Or.inl he, fun e he => he, by simp⟩
  | cons y ys ih =>
    simp only [List.foldl_cons]
    by_cases hany : acc.any (fun e => e.1 == decodeCN del y.2) = true
    · have hs : foldStep del acc y = acc := by simp [foldStep, hany]
      rw [hs]
      obtain ⟨i1, i2, i3, i4⟩ := ih acc hnd
      refine ⟨i1, ?_, i3, ?_⟩
      · intro e he
        rcases i2 e he with h | ⟨y', hy', h⟩
        · exact Or.inl h
        · exact Or.inr ⟨y', List.mem_cons_of_mem _ hy', h⟩
      · intro y' hy'
        rcases List.mem_cons.mp hy' with rfl | hy'
        · obtain ⟨e, he, hee⟩ := List.any_eq_true.mp hany
          exact ⟨e, i3 e he, by simpa using hee⟩
        · exact i4 y' hy'
    · have hany' : acc.any (fun e => e.1 == decodeCN del y.2) = false := Bool.eq_false_iff.mpr hany
      have hs : foldStep del acc y = acc ++ [(decodeCN del y.2, y.1)] := by simp [foldStep, hany']
      rw [hs]
      have hnd' : ((acc ++ [(decodeCN del y.2, y.1)]).map (·.1)).Nodup := by
        simp only [List.map_append, List.map_cons, List.map_nil]
        rw [List.nodup_append]
        refine ⟨hnd, by simp, ?_⟩
        intro a ha b hb
        simp only [List.mem_singleton] at hb
        subst hb
        obtain ⟨e, he, rfl⟩ := List.mem_map.mp ha
        intro heq
        have := List.any_eq_false.mp hany' e he
        simp [heq] at this
      obtain ⟨i1, i2, i3, i4⟩ := ih _ hnd'
      refine ⟨i1, ?_, ?_, ?_⟩
      · intro e he
        rcases i2 e he with h | ⟨y', hy', h⟩
        · rcases List.mem_append.mp h with h | h
          · exact Or.inl h
          · simp only [List.mem_singleton] at h
            subst h
            exact Or.inr ⟨y, List.mem_cons_self, rfl, rfl⟩
        · exact Or.inr ⟨y', List.mem_cons_of_mem _ hy', h⟩
      · intro e he; exact i3 e (List.mem_append_left _ he)
      · intro y' hy'
        rcases List.mem_cons.mp hy' with rfl | hy'
        · exact ⟨(decodeCN del y'.2, y'.1), i3 _ (List.mem_append_right _ (List.mem_singleton.mpr rfl)), rfl⟩
        · exact i4 y' hy'

/-- **cn_fold_distinct** no structure is reported twice. -/
theorem cn_fold_distinct (del : Option String) (ys : List (Rat × List (String × Int))) :
    ((foldCN del ys).map (·.1)).Nodup := by
  rw [foldCN_eq]; exact (foldl_step_invariants del ys [] (by simp)).1

/-- **cn_fold_sound** every reported (structure, score) is the decoding of a yielded
assignment with exactly that objective. -/
theorem cn_fold_sound (del : Option String) (ys : List (Rat × List (String × Int)))
    (e : List String × Rat) (he : e ∈ foldCN del ys) :
    ∃ y ∈ ys, decodeCN del y.2 = e.1 ∧ y.1 = e.2 := by
  rw [foldCN_eq] at he
  rcases (foldl_step_invariants del ys [] (by simp)).2.1 e he with h | h
  · simp at h
  · exact h

/-- **cn_fold_complete** every yielded assignment's structure is reported. -/
theorem cn_fold_complete (del : Option String) (ys : List (Rat × List (String × Int)))
    (y : Rat × List (String × Int)) (hy : y ∈ ys) :
    ∃ e ∈ foldCN del ys, e.1 = decodeCN del y.2 := by
  rw [foldCN_eq]; exact (foldl_step_invariants del ys [] (by simp)).2.2.2 y hy

theorem eq_of_nodup_keys {α β : Type} {l : List (α × β)} (h : (l.map (·.1)).Nodup)
    {a b : α × β} (ha : a ∈ l) (hb : b ∈ l) (hk : a.1 = b.1) : a = b := by
  induction l with
  | nil => simp at ha
  | cons x xs ih =>
    simp only [List.map_cons, List.nodup_cons, List.mem_map, not_exists, not_and] at h
    rcases List.mem_cons.mp ha with rfl | ha' <;> rcases List.mem_cons.mp hb with rfl | hb'
    · rfl
    · exact absurd hk.symm (h.1 b hb')
    · exact absurd hk (h.1 a ha')
    · exact ih h.2 ha' hb'

theorem foldl_step_min (del : Option String) (ys : List (Rat × List (String × Int)))
    (acc : List (List String × Rat)) (hnd : (acc.map (·.1)).Nodup)
    (hs : ys.Pairwise fun a b => a.1 ≤ b.1)
    (hP : ∀ e ∈ acc, ∀ y ∈ ys, e.2 ≤ y.1) :
    ∀ e ∈ ys.foldl (foldStep del) acc, ∀ y ∈ ys, decodeCN del y.2 = e.1 → e.2 ≤ y.1 := by
  induction ys generalizing acc with
  | nil => simp
  | cons y0 ys ih =>
    have hs' := (List.pairwise_cons.mp hs)
    simp only [List.foldl_cons]
    -- the entry for y0's structure after the step, with score ≤ y0's
    have hstep : (((foldStep del acc y0).map (·.1)).Nodup) ∧
        (∀ e ∈ foldStep del acc y0, ∀ y ∈ ys, e.2 ≤ y.1) ∧
        (∃ e0 ∈ foldStep del acc y0, e0.1 = decodeCN del y0.2 ∧ e0.2 ≤ y0.1) := by
      by_cases hany : acc.any (fun e => e.1 == decodeCN del y0.2) = true
      · have hst : foldStep del acc y0 = acc := by simp [foldStep, hany]
        rw [hst]
        obtain ⟨e, he, hee⟩ := List.any_eq_true.mp hany
        exact ⟨hnd, fun e he y hy => hP e he y (List.mem_cons_of_mem _ hy),
          e, he, by simpa using hee, hP e he y0 List.mem_cons_self⟩
      · have hany' : acc.any (fun e => e.1 == decodeCN del y0.2) = false := Bool.eq_false_iff.mpr hany
        have hst : foldStep del acc y0 = acc ++ [(decodeCN del y0.2, y0.1)] := by simp [foldStep, hany']
        rw [hst]
        refine ⟨?_, ?_, (decodeCN del y0.2, y0.1), List.mem_append_right _ (List.mem_singleton.mpr rfl), rfl, le_refl _⟩
        · simp only [List.map_append, List.map_cons, List.map_nil]
          rw [List.nodup_append]
          refine ⟨hnd, by simp, ?_⟩
          intro a ha b hb
          simp only [List.mem_singleton] at hb
          subst hb
          obtain ⟨e, he, rfl⟩ := List.mem_map.mp ha
          intro heq
          have := List.any_eq_false.mp hany' e he
          simp [heq] at this
        · intro e he y hy
          rcases List.mem_append.mp he with he | he
          · exact hP e he y (List.mem_cons_of_mem _ hy)
          · simp only [List.mem_singleton] at he
            subst he
            exact hs'.1 y hy
    obtain ⟨hnd', hP', e0, he0, hk0, hle0⟩ := hstep
    intro e he y hy hdec
    rcases List.mem_cons.mp hy with rfl | hy
    · have inv := foldl_step_invariants del ys _ hnd'
      have he0' := inv.2.2.1 e0 he0
      have : e = e0 := eq_of_nodup_keys inv.1 he he0' (by rw [← hdec, hk0])
      rw [this]; exact hle0
    · exact ih _ hnd' hs'.2 hP' e he y hy hdec

/-- **cn_fold_min** when yields arrive in non-decreasing objective order (C05 T4), the score
attached to a reported structure is the least objective among all yielded explanations of it. -/
theorem cn_fold_min (del : Option String) (ys : List (Rat × List (String × Int)))
    (hs : ys.Pairwise fun a b => a.1 ≤ b.1)
    (e : List String × Rat) (he : e ∈ foldCN del ys) :
    ∀ y ∈ ys, decodeCN del y.2 = e.1 → e.2 ≤ y.1 := by
  rw [foldCN_eq] at he
  exact foldl_step_min del ys [] (by simp) hs (by simp) e he

/-! ## Decision table -/

/-- **cn_user_verbatim** a non-empty user structure of known configurations is used as is. -/
theorem cn_user_verbatim (g : GeneView) (sol : List String) (hne : sol ≠ [])
    (hknown : ∀ s ∈ sol, (g.config? s).isSome) (dcn male xy : Bool) (arc : List Rat) (rows : List (Rat × Rat)) :
    cnDecision g (some sol) dcn male xy arc rows = .user sol := by
  unfold cnDecision
  have h1 : sol.isEmpty = false := by cases sol <;> simp_all
  simp only [h1, Bool.false_eq_true, if_false]
  have : sol.find? (fun s => (g.config? s).isNone) = none := by
    rw [List.find?_eq_none]
    intro s hs
    have := hknown s hs
    cases h : g.config? s <;> simp_all
  simp [this]

/-- **cn_unknown_rejected** a user structure with an unknown configuration name is rejected. -/
theorem cn_unknown_rejected (g : GeneView) (sol : List String)
    (s : String) (hs : s ∈ sol) (hunk : (g.config? s).isNone) (dcn male xy : Bool) (arc : List Rat) (rows : List (Rat × Rat)) :
    ∃ bad, cnDecision g (some sol) dcn male xy arc rows = .unknownConfig bad ∧ bad ∈ sol ∧ (g.config? bad).isNone := by
  unfold cnDecision
  have h1 : sol.isEmpty = false := by cases sol <;> simp_all
  simp only [h1, Bool.false_eq_true, if_false]
  cases hf : sol.find? (fun s => (g.config? s).isNone) with
  | none =>
    rw [List.find?_eq_none] at hf
    have := hf s hs
    simp [hunk] at this
  | some bad =>
    refine ⟨bad, rfl, List.mem_of_find?_eq_some hf, ?_⟩
    have := List.find?_some hf
    simpa using this

/-- **cn_default_two** where copy-number calling is unavailable and no structure is given,
exactly two default copies are assumed - one for an X/Y-linked gene of a male sample. -/
theorem cn_default_two (g : GeneView) (male xy : Bool) (arc : List Rat) (rows : List (Rat × Rat)) :
    cnDecision g none false male xy arc rows =
      .fixed (List.replicate (if male && xy then 1 else 2)
        (((g.cnConfigs.filter fun c => c.kind == .default).map (·.name)).headD "1")) := by
  simp [cnDecision]

/-! ### Non-vacuity -/
section Example
def exCNGene : GeneView :=
  { name := "G", regionNames := ["e1"], nGenes := 1, uniqueRegions := ["e1"], regionAt := [],
    mutations := [], alleles := [],
    cnConfigs := [⟨"1", .default, [[("e1", 1)]], []⟩, ⟨"5", .deletion, [[("e1", 0)]], []⟩] }
def exProf : ProfileV :=
  { threshold := 1/2, minCoverage := 2, minQuality := 10, minMapq := 10, cnMax := 20, gap := 0, cnPcePenalty := 2,
    cnDiff := 10, cnFit := 1, cnParsimony := 1/2, cnFusionLeft := 1/2, cnFusionRight := 1/4, majorNovel := 21,
    minorMiss := 3/2, minorAdd := 1, minorPhase := 2/5 }
def exCN : CNInst :=
  { gene := exCNGene, prof := exProf, configs := exCNGene.cnConfigs, maxCn := 3,
    regionCov := [("e1", (2, 0))], fusionSupport := [] }
def exCNσ : CVar → Rat
  | .S "1" 0 => 1 | .S "1" (-1) => 1 | _ => 0
example : (exCN.slots.map fun s => (s.name, s.idx)) =
    [("1", 0), ("5", 0), ("1", -1), ("1", 1), ("1", 2), ("5", -1)] := by decide +kernel
example : ∀ c ∈ exCN.build.cons, c.holds exCNσ := by decide +kernel
example : foldCN (some "5") [(1, [("1", 0), ("1", -1)]), (2, [("1", 0), ("5", 0), ("1", 1)]), (3, [("5", 0), ("5", -1)])]
    = [(["1", "1"], 1), ([], 3)] := by decide +kernel
end Example

end Aldy
