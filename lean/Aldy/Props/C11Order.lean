import Aldy.Props.C11

/-!
# C11 — for two called copies the printed diplotype does not depend on their order

`estimate_diplotype` with exactly two copies: whatever the allele numbers (one group of two, or
two groups of one), whatever the deletion allele and the tandem list (tandems are only paired for
more than two copies), the arrangement before the final ordering is copy 0 on one haplotype and
copy 1 on the other (`diplotype_two_arrangement`).  The final natural sort then makes the
*names shown* independent of the order in which the two copies were produced
(`diplotype_two_order_independent`), provided two different names have different natural-sort
keys (`keyLt` decides them one way or the other; decided per input by the driver).  The order
`keyLt` is asymmetric for all keys (`keyLt_asymm`).
-/

namespace Aldy

/-! ### the natural-sort order is asymmetric -/

theorem chunkLt_asymm (a b : Chunk) (h : chunkLt a b = true) : chunkLt b a = false := by
  cases a <;> cases b <;> simp only [chunkLt, decide_eq_true_eq, decide_eq_false_iff_not] at h ⊢
  · exact List.lt_asymm h
  · cases h
  · omega

theorem keyLt_asymm : ∀ (a b : List Chunk), keyLt a b = true → keyLt b a = false
  | [], [], h => by simp [keyLt] at h
  | [], _ :: _, _ => by simp [keyLt]
  | _ :: _, [], h => by simp [keyLt] at h
  | x :: xs, y :: ys, h => by
    simp only [keyLt] at h ⊢
    by_cases h1 : chunkLt x y = true
    · simp [chunkLt_asymm x y h1, h1]
    · simp only [h1, Bool.false_eq_true, if_false] at h
      by_cases h2 : chunkLt y x = true
      · simp [h2] at h
      · simp only [h2, Bool.false_eq_true, if_false] at h ⊢
        simp only [h1, Bool.false_eq_true, if_false]
        exact keyLt_asymm xs ys h

/-! ### two copies -/

theorem sortStable_two {α : Type} (lt : α → α → Bool) (x y : α) :
    sortStable lt [x, y] = if lt y x then [y, x] else [x, y] := by
  simp [sortStable, insertStable]

theorem flatten_one (I : DipIn) (i : Int) : flatten I [Item.one i] = [i] := by
  simp [flatten, sortStable, insertStable, Item.flat]

/-- the state after all phases, for two copies -/
theorem two_state (I : DipIn) (a b : String) (h : I.majors = [a, b]) :
    phaseFix (phaseRest (phaseDup (phaseEven (phaseTandem I
      { dict := phaseGroup I, d0 := [], d1 := [], dc := 0 })))) = ([Item.one 0], [Item.one 1]) := by
  have hg : phaseGroup I = dictAppend (dictAppend [] (realKey a) 0) (realKey b) 1 := by
    unfold phaseGroup
    rw [h]
    cases I.delAllele <;> simp [List.zipIdx]
  have ht : ∀ s, phaseTandem I s = s := by
    intro s; unfold phaseTandem; rw [h]; simp
  rw [ht, hg]
  by_cases hk : realKey a = realKey b
  · simp [dictAppend, hk, phaseEven, DipState.addTo, phaseDup, phaseRest, phaseFix]
  · have hk' : ¬ realKey b = realKey a := fun e => hk e.symm
    simp [dictAppend, hk, hk', phaseEven, phaseDup, phaseRest, phaseFix, dictGet, dictSet, balance, DipState.side,
      DipState.addTo, xlen, Item.xlen]

/-- **diplotype_two_arrangement** two called copies are always put on different haplotypes -/
theorem diplotype_two_arrangement (I : DipIn) (a b : String) (h : I.majors = [a, b]) :
    estimateDiplotype I =
      sortStable (fun x y => keysLt (x.map fun i => natKey (nameOf I i)) (y.map fun i => natKey (nameOf I i)))
        [[0], [1]] := by
  have hout : estimateDiplotype I =
      sortStable (fun x y => keysLt (x.map fun i => natKey (nameOf I i)) (y.map fun i => natKey (nameOf I i)))
        [flatten I (phaseFix (phaseRest (phaseDup (phaseEven (phaseTandem I
            { dict := phaseGroup I, d0 := [], d1 := [], dc := 0 }))))).1,
         flatten I (phaseFix (phaseRest (phaseDup (phaseEven (phaseTandem I
            { dict := phaseGroup I, d0 := [], d1 := [], dc := 0 }))))).2] := rfl
  rw [hout, two_state I a b h, flatten_one, flatten_one]

/-- the names a diplotype shows, haplotype by haplotype -/
def shownNames (I : DipIn) : List (List String) := (estimateDiplotype I).map fun h => h.map (nameOf I)

theorem keysLt_single (x y : List Chunk) : keysLt [x] [y] = keyLt x y := by
  simp only [keysLt]
  by_cases h : keyLt x y = true
  · simp [h]
  · simp only [h, Bool.false_eq_true, if_false]
    split_ifs <;> simp_all

theorem shown_two (I : DipIn) (a b na nb : String) (hm : I.majors = [a, b]) (hn : I.names = [na, nb]) :
    shownNames I = if keyLt (natKey nb) (natKey na) then [[nb], [na]] else [[na], [nb]] := by
  have h0 : nameOf I 0 = na := by simp [nameOf, hn]
  have h1 : nameOf I 1 = nb := by simp [nameOf, hn]
  unfold shownNames
  rw [diplotype_two_arrangement I a b hm, sortStable_two]
  simp only [List.map_cons, List.map_nil, h0, h1, keysLt_single]
  split_ifs <;> simp [h0, h1]

/-- **diplotype_two_order_independent** the names shown for two called copies do not depend on
the order in which the copies were produced (same gene: deletion allele and tandem list may be
anything), provided different names have different natural-sort keys -/
theorem diplotype_two_order_independent (I J : DipIn) (a b na nb : String)
    (hI : I.majors = [a, b]) (hIn : I.names = [na, nb]) (hJ : J.majors = [b, a]) (hJn : J.names = [nb, na])
    (hkeys : na ≠ nb → keyLt (natKey na) (natKey nb) = true ∨ keyLt (natKey nb) (natKey na) = true) :
    shownNames I = shownNames J := by
  rw [shown_two I a b na nb hI hIn, shown_two J b a nb na hJ hJn]
  by_cases hba : keyLt (natKey nb) (natKey na) = true
  · have hab := keyLt_asymm _ _ hba
    simp [hba, hab]
  · by_cases hab : keyLt (natKey na) (natKey nb) = true
    · simp [hba, hab]
    · have : na = nb := by
        by_contra hne
        rcases hkeys hne with h | h
        · exact hab h
        · exact hba h
      subst this
      simp

/-- **diplotype_one_copy** a single called copy is shown with the deletion placeholder on the
other haplotype when the gene has a deletion allele (there is only one order) -/
example : shownNames { majors := ["2"], names := ["2"], delAllele := some "5", tandems := [] } = [["2"], ["5"]] := by
  decide +kernel

/-! ### non-vacuity -/
example : shownNames { majors := ["10", "2"], names := ["10", "2"], delAllele := some "5", tandems := [("2", "10")] }
    = shownNames { majors := ["2", "10"], names := ["2", "10"], delAllele := some "5", tandems := [("2", "10")] } :=
  diplotype_two_order_independent _ _ "10" "2" "10" "2" rfl rfl rfl rfl (by intro _; right; decide +kernel)

end Aldy
