import Aldy.Props.C17
import Aldy.Model.Filters

/-!
# C17, continued — the stages cannot tell a replayed sample from the original

The dump stores, per site and observed allele, a counter of `(mapping quality, base quality)`
pairs; loading expands it again, which reorders the observations of a site (`dump_roundtrip`:
a permutation).  Here: every query of `Coverage` the stages use (`coverage`, `total`,
`percentage`, `single_copy`, `average_coverage`, `basic_filter`, `quality_filter`, `filtered`)
gives the same answer on two tables that differ only by such reorderings; hence the candidate
filter of the major stage selects the same alleles, the filtered evidence of the major and
minor stages is again equivalent, and the linear models `solve_major_model` /
`solve_minor_model` build from it are *equal*.
-/

namespace Aldy

/-- same observed alleles in the same order, observation lists equal up to order -/
def OpsEquiv (a b : List (String × List Obs)) : Prop :=
  List.Forall₂ (fun x y => x.1 = y.1 ∧ x.2.Perm y.2) a b

/-- same sites in the same order, each with equivalent allele tables -/
def TableEquiv (a b : List (Int × List (String × List Obs))) : Prop :=
  List.Forall₂ (fun x y => x.1 = y.1 ∧ OpsEquiv x.2 y.2) a b

structure CovEquiv (a b : Cov) : Prop where
  table : TableEquiv a.table b.table
  indels : a.indels = b.indels

theorem OpsEquiv.refl (a : List (String × List Obs)) : OpsEquiv a a := by
  induction a with
  | nil => exact .nil
  | cons x xs ih => exact .cons ⟨rfl, List.Perm.refl _⟩ ih

theorem TableEquiv.refl (a : List (Int × List (String × List Obs))) : TableEquiv a a := by
  induction a with
  | nil => exact .nil
  | cons x xs ih => exact .cons ⟨rfl, OpsEquiv.refl _⟩ ih

/-- what `_load_dump` makes of what `_dump_alignments` wrote, for a whole table -/
def replayTable (t : List (Int × List (String × List Obs))) : List (Int × List (String × List Obs)) :=
  t.map fun e => (e.1, e.2.map fun oq => (oq.1, expandObs (compressObs oq.2)))

theorem replayTable_equiv (t : List (Int × List (String × List Obs))) : TableEquiv (replayTable t) t := by
  unfold replayTable
  induction t with
  | nil => exact .nil
  | cons e es ih =>
    refine .cons ⟨rfl, ?_⟩ ih
    show OpsEquiv (e.2.map fun oq => (oq.1, expandObs (compressObs oq.2))) e.2
    induction e.2 with
    | nil => exact .nil
    | cons o os ih2 => exact .cons ⟨rfl, dump_roundtrip o.2⟩ ih2

/-! ### look-ups -/

theorem lookup_getD_rel {κ α : Type} [BEq κ] [LawfulBEq κ] (R : α → α → Prop) (d : α) (hd : R d d)
    {a b : List (κ × α)} (h : List.Forall₂ (fun x y => x.1 = y.1 ∧ R x.2 y.2) a b) (k : κ) :
    R ((a.lookup k).getD d) ((b.lookup k).getD d) := by
  induction h with
  | nil => simpa using hd
  | @cons x y xs ys hxy _ ih =>
    obtain ⟨xk, xv⟩ := x
    obtain ⟨yk, yv⟩ := y
    obtain ⟨hk, hv⟩ := hxy
    simp only at hk hv
    subst hk
    simp only [List.lookup_cons]
    cases hkk : k == xk
    · simpa using ih
    · simpa using hv

theorem CovEquiv.ops {a b : Cov} (h : CovEquiv a b) (p : Int) : OpsEquiv (a.ops p) (b.ops p) :=
  lookup_getD_rel OpsEquiv [] .nil h.table p

theorem CovEquiv.quals {a b : Cov} (h : CovEquiv a b) (m : Mut) : (a.quals m).Perm (b.quals m) := by
  have := h.ops m.pos
  unfold OpsEquiv at this
  exact lookup_getD_rel (fun x y : List Obs => x.Perm y) [] (List.Perm.refl _) this m.op

theorem CovEquiv.indelEq {a b : Cov} (h : CovEquiv a b) (m : Mut) : a.indel? m = b.indel? m := by
  unfold Cov.indel?; rw [h.indels]

/-! ### the queries -/

theorem CovEquiv.coverage {a b : Cov} (h : CovEquiv a b) (m : Mut) : a.coverage m = b.coverage m := by
  unfold Cov.coverage
  rw [h.indelEq m, (h.quals m).length_eq]

theorem opsEquiv_depth {x y : List (String × List Obs)} (h : OpsEquiv x y) :
    ((x.filter fun (op, _) => !opIsIns op).map fun (_, q) => (q.length : Rat)).sum =
    ((y.filter fun (op, _) => !opIsIns op).map fun (_, q) => (q.length : Rat)).sum := by
  induction h with
  | nil => rfl
  | @cons u v us vs huv _ ih =>
    obtain ⟨uo, uq⟩ := u
    obtain ⟨vo, vq⟩ := v
    obtain ⟨ho, hq⟩ := huv
    simp only at ho hq
    subst ho
    simp only [List.filter_cons]
    cases hi : opIsIns uo
    · simp only [Bool.not_false, if_true, List.map_cons, List.sum_cons, ih, hq.length_eq]
    · simpa using ih

theorem CovEquiv.totalPos {a b : Cov} (h : CovEquiv a b) (p : Int) : a.totalPos p = b.totalPos p := by
  unfold Cov.totalPos
  exact opsEquiv_depth (h.ops p)

theorem CovEquiv.total {a b : Cov} (h : CovEquiv a b) (m : Mut) : a.total m = b.total m := by
  unfold Cov.total
  rw [h.indelEq m, h.totalPos m.pos]

theorem CovEquiv.percentage {a b : Cov} (h : CovEquiv a b) (m : Mut) : a.percentage m = b.percentage m := by
  unfold Cov.percentage
  rw [h.total m, h.coverage m]

theorem CovEquiv.singleCopy {a b : Cov} (h : CovEquiv a b) (g : GeneView) (s : CNSol) (m : Mut) :
    a.singleCopy g s m = b.singleCopy g s m := by
  unfold Cov.singleCopy
  rw [h.total m]

theorem CovEquiv.singleCopyPos {a b : Cov} (h : CovEquiv a b) (g : GeneView) (s : CNSol) (p : Int) :
    a.singleCopyPos g s p = b.singleCopyPos g s p := by
  unfold Cov.singleCopyPos
  rw [h.totalPos p]

theorem tableEquiv_keys {a b : List (Int × List (String × List Obs))} (h : TableEquiv a b) :
    a.map (·.1) = b.map (·.1) := by
  induction h with
  | nil => rfl
  | cons hxy _ ih => simp only [List.map_cons, hxy.1, ih]

theorem CovEquiv.averageCoverage {a b : Cov} (h : CovEquiv a b) : a.averageCoverage = b.averageCoverage := by
  unfold Cov.averageCoverage
  have hf : a.totalPos = b.totalPos := funext h.totalPos
  have hk := tableEquiv_keys h.table
  have h1 : (a.table.map fun (pos, _) => a.totalPos pos) = (a.table.map (·.1)).map a.totalPos := by
    rw [List.map_map]; rfl
  have h2 : (b.table.map fun (pos, _) => b.totalPos pos) = (b.table.map (·.1)).map b.totalPos := by
    rw [List.map_map]; rfl
  have hl : a.table.length = b.table.length := by
    have := congrArg List.length hk
    simpa using this
  rw [h1, h2, hk, hf, hl]

theorem CovEquiv.basicFilter {a b : Cov} (h : CovEquiv a b) (p : ProfileV) (m : Mut) (cn thres : Option Rat) :
    a.basicFilter p m cn thres = b.basicFilter p m cn thres := by
  unfold Cov.basicFilter
  rw [h.coverage m, h.total m]

theorem CovEquiv.qualityFilter {a b : Cov} (h : CovEquiv a b) (p : ProfileV) (m : Mut) :
    (a.qualityFilter p m).Perm (b.qualityFilter p m) := by
  unfold Cov.qualityFilter
  exact (h.quals m).filter _

/-! ### `filtered` -/

/-- two filter answers the caller cannot tell apart -/
def FilterResEquiv : Cov.FilterRes → Cov.FilterRes → Prop
  | .quals l, .quals l' => l.Perm l'
  | .keep x, .keep y => x = y
  | _, _ => False

theorem FilterResEquiv.refl : ∀ r : Cov.FilterRes, FilterResEquiv r r
  | .quals l => List.Perm.refl l
  | .keep _ => rfl

theorem filterMap_forall2 {α β : Type} {R : α → α → Prop} {P : β → β → Prop} (f g : α → Option β)
    (hfg : ∀ u v, R u v → (match f u, g v with
      | some x, some y => P x y
      | none, none => True
      | _, _ => False))
    {x y : List α} (h : List.Forall₂ R x y) : List.Forall₂ P (x.filterMap f) (y.filterMap g) := by
  induction h with
  | nil => exact .nil
  | @cons u v us vs huv _ ih =>
    have := hfg u v huv
    simp only [List.filterMap_cons]
    cases hfu : f u <;> cases hgv : g v <;> simp only [hfu, hgv] at this
    · exact ih
    · exact .cons this ih

theorem filtered_table_equiv (fa fb : Mut → Cov.FilterRes) (hf : ∀ m, FilterResEquiv (fa m) (fb m))
    {t t' : List (Int × List (String × List Obs))} (ht : TableEquiv t t') :
    TableEquiv
      (t.map fun (pos, ops) =>
        (pos, ops.filterMap fun (op, q) =>
          match fa ⟨pos, op⟩ with
          | .quals l => if l.isEmpty then none else some (op, l)
          | .keep true => some (op, q)
          | .keep false => none))
      (t'.map fun (pos, ops) =>
        (pos, ops.filterMap fun (op, q) =>
          match fb ⟨pos, op⟩ with
          | .quals l => if l.isEmpty then none else some (op, l)
          | .keep true => some (op, q)
          | .keep false => none)) := by
  induction ht with
  | nil => exact .nil
  | @cons x y xs ys hxy _ ih =>
    obtain ⟨xp, xo⟩ := x
    obtain ⟨yp, yo⟩ := y
    obtain ⟨hp, ho⟩ := hxy
    simp only at hp ho
    subst hp
    refine .cons ⟨rfl, ?_⟩ ih
    show OpsEquiv (xo.filterMap _) (yo.filterMap _)
    unfold OpsEquiv at ho
    apply filterMap_forall2 (R := fun x y => x.1 = y.1 ∧ x.2.Perm y.2) _ _ _ ho
    rintro ⟨uo, uq⟩ ⟨vo, vq⟩ ⟨ho', hq⟩
    simp only at ho' hq
    subst ho'
    have := hf ⟨xp, uo⟩
    cases hfa : fa ⟨xp, uo⟩ <;> cases hfb : fb ⟨xp, uo⟩ <;> simp only [hfa, hfb, FilterResEquiv] at this
    · rename_i l l'
      have he : l.isEmpty = l'.isEmpty := by
        cases l <;> cases l' <;> simp_all
      simp only [hfa, hfb, he]
      cases l'.isEmpty
      · simpa using this
      · simp
    · subst this
      rename_i k
      simp only [hfa, hfb]
      cases k
      · simp
      · simpa using hq

theorem CovEquiv.filtered {a b : Cov} (h : CovEquiv a b) (f : Cov → Mut → Cov.FilterRes)
    (hf : ∀ m, FilterResEquiv (f a m) (f b m)) : CovEquiv (a.filtered f) (b.filtered f) := by
  constructor
  · exact filtered_table_equiv (f a) (f b) hf h.table
  · unfold Cov.filtered
    show a.indels.filter _ = b.indels.filter _
    rw [h.indels]
    apply List.filter_congr
    rintro ⟨m, v⟩ _
    have := hf m
    cases hfa : f a m <;> cases hfb : f b m <;> simp only [hfa, hfb, FilterResEquiv] at this
    · simp only [hfa, hfb]
    · subst this; simp only [hfa, hfb]

theorem CovEquiv.qfiltered {a b : Cov} (h : CovEquiv a b) (p : ProfileV) :
    CovEquiv (a.qfiltered p) (b.qfiltered p) :=
  h.filtered _ fun m => h.qualityFilter p m

theorem CovEquiv.majorFiltered {a b : Cov} (h : CovEquiv a b) (g : GeneView) (p : ProfileV) (s : CNSol) :
    CovEquiv (majorFilteredCov g p s a) (majorFilteredCov g p s b) := by
  unfold majorFilteredCov
  have hq := h.qfiltered p
  apply hq.filtered
  intro m
  unfold majorFilterFn
  simp only [hq.basicFilter]
  exact FilterResEquiv.refl _

theorem CovEquiv.minorFiltered {a b : Cov} (h : CovEquiv a b) (g : GeneView) (p : ProfileV) (s : CNSol)
    (considered : List Mut) :
    CovEquiv (minorFilteredCov g p s considered a) (minorFilteredCov g p s considered b) := by
  unfold minorFilteredCov
  have hq := h.qfiltered p
  apply hq.filtered
  intro m
  unfold minorFilterFn
  simp only [hq.basicFilter]
  exact FilterResEquiv.refl _

theorem make_equiv {t t' : List (Int × List (String × List Obs))} (h : TableEquiv t t')
    (ind : List (Mut × (Rat × Rat))) : CovEquiv (Cov.make t ind) (Cov.make t' ind) := by
  constructor
  · unfold Cov.make
    show TableEquiv (t.map _) (t'.map _)
    induction h with
    | nil => exact .nil
    | @cons x y xs ys hxy _ ih =>
      obtain ⟨xp, xo⟩ := x
      obtain ⟨yp, yo⟩ := y
      obtain ⟨hp, ho⟩ := hxy
      simp only at hp ho
      subst hp
      refine .cons ⟨rfl, ?_⟩ ih
      show OpsEquiv (xo.filter _) (yo.filter _)
      induction ho with
      | nil => exact .nil
      | @cons u v us vs huv _ ih2 =>
        obtain ⟨uo, uq⟩ := u
        obtain ⟨vo, vq⟩ := v
        obtain ⟨ho', hq⟩ := huv
        simp only at ho' hq
        subst ho'
        simp only [List.filter_cons]
        split
        · exact .cons ⟨rfl, hq⟩ ih2
        · exact ih2
  · rfl

/-! ### the stages -/

/-- **replay_same_candidates** the candidate filter of the major stage selects the same alleles. -/
theorem filterAlleles_congr {a b : Cov} (h : CovEquiv a b) (g : GeneView) (p : ProfileV) (s : CNSol) :
    (filterAlleles g p s a).1 = (filterAlleles g p s b).1 ∧
    CovEquiv (filterAlleles g p s a).2 (filterAlleles g p s b).2 := by
  have hm := h.majorFiltered g p s
  refine ⟨?_, hm⟩
  unfold filterAlleles
  simp only [hm.coverage]

/-- **replay_same_major_model** `solve_major_model` builds the same linear model from
equivalent evidence. -/
theorem major_build_congr (I : MajorInst) {a b : Cov} (h : CovEquiv a b) :
    ({ I with cov := a } : MajorInst).build = ({ I with cov := b } : MajorInst).build := by
  have hc : a.coverage = b.coverage := funext h.coverage
  have hs : a.singleCopy = b.singleCopy := by
    funext g s m; exact h.singleCopy g s m
  have hp : a.singleCopyPos = b.singleCopyPos := by
    funext g s p; exact h.singleCopyPos g s p
  simp only [MajorInst.build, MajorInst.consCORD, MajorInst.consCONE, MajorInst.consCFUNC, MajorInst.consCSAT,
    MajorInst.consXOR, MajorInst.consABS, MajorInst.consNOVEL, MajorInst.errRows, MajorInst.funcMuts,
    MajorInst.slots, MajorInst.copies, MajorInst.observed, MajorInst.positions, MajorInst.carriers, MajorInst.refCarriers, hc, hs, hp]

/-- **replay_same_minor_model** `solve_minor_model` builds the same linear model from equivalent
evidence (the phase patterns are covered by `phase_modes_equal`). -/
theorem minor_build_congr (I : MinorInst) {a b : Cov} (h : CovEquiv a b) :
    ({ I with cov := a } : MinorInst).build = ({ I with cov := b } : MinorInst).build := by
  have hc : a.coverage = b.coverage := funext h.coverage
  have hs : a.singleCopy = b.singleCopy := by
    funext g s m; exact h.singleCopy g s m
  simp only [MinorInst.count, MinorInst.slots, MinorInst.hasCov, MinorInst.newMuts, MinorInst.positions, MinorInst.consCORD, MinorInst.consCCNT, MinorInst.consPROD, MinorInst.varTerms, MinorInst.newAt, MinorInst.refTerms, MinorInst.consCONE, MinorInst.observed, MinorInst.consCCOV, MinorInst.consRULE1, MinorInst.consRULE2, MinorInst.consRULE3, MinorInst.keptAt, MinorInst.addAt, MinorInst.consRULE4, MinorInst.carrierTerms, MinorInst.consRULE5, MinorInst.rule6Per, MinorInst.rule6Rhs, MinorInst.consRULE6, MinorInst.phaseSel, MinorInst.phaseCells, MinorInst.consPHASE, MinorInst.phaseObj, MinorInst.errRows, MinorInst.consABS, MinorInst.newSelectors, MinorInst.novelCoreSel, MinorInst.novelMuts, MinorInst.consVNEWOR, MinorInst.build, hc, hs]
  rfl

/-! ### End to end: original table versus what the dump gives back -/

/-- **replay_depths_equal** the depth of every site, hence every region sum the copy-number stage
normalises, and the average depth the no-data guard reads are the same for the replayed sample. -/
theorem replay_depths_equal (t : List (Int × List (String × List Obs))) (ind : List (Mut × (Rat × Rat))) :
    (∀ pos, (Cov.make (replayTable t) ind).totalPos pos = (Cov.make t ind).totalPos pos) ∧
    (Cov.make (replayTable t) ind).averageCoverage = (Cov.make t ind).averageCoverage :=
  let h := make_equiv (replayTable_equiv t) ind
  ⟨h.totalPos, h.averageCoverage⟩

/-- **replay_major_stage_equal** the major stage sees the same candidates and builds the same
model for the replayed sample, for every gene, profile and structure. -/
theorem replay_major_stage_equal (g : GeneView) (p : ProfileV) (s : CNSol)
    (t : List (Int × List (String × List Obs))) (ind : List (Mut × (Rat × Rat))) (novel gap : Rat) :
    let orig := filterAlleles g p s (Cov.make t ind)
    let rep := filterAlleles g p s (Cov.make (replayTable t) ind)
    rep.1 = orig.1 ∧
    (⟨g, rep.2, s, rep.1, novel, gap⟩ : MajorInst).build = (⟨g, orig.2, s, orig.1, novel, gap⟩ : MajorInst).build := by
  intro orig rep
  have h := filterAlleles_congr (make_equiv (replayTable_equiv t) ind) g p s
  refine ⟨h.1, ?_⟩
  show (⟨g, rep.2, s, rep.1, novel, gap⟩ : MajorInst).build = _
  rw [show rep.1 = orig.1 from h.1]
  exact major_build_congr ⟨g, orig.2, s, orig.1, novel, gap⟩ h.2

/-- **replay_minor_stage_equal** the refinement model built from the replayed evidence is the
model built from the original evidence, for every candidate list and considered-variant set;
with `phase_modes_equal` (the phase patterns) nothing the minor stage reads differs. -/
theorem replay_minor_stage_equal (I : MinorInst) (p : ProfileV) (considered : List Mut)
    (t : List (Int × List (String × List Obs))) (ind : List (Mut × (Rat × Rat))) :
    ({ I with cov := minorFilteredCov I.gene p I.cn considered (Cov.make (replayTable t) ind) } : MinorInst).build =
    ({ I with cov := minorFilteredCov I.gene p I.cn considered (Cov.make t ind) } : MinorInst).build :=
  minor_build_congr I ((make_equiv (replayTable_equiv t) ind).minorFiltered I.gene p I.cn considered)

/-! ### Non-vacuity: a table the dump really reorders -/
example : replayTable [(5, [("_", [(60, 40), (60, 25), (60, 40)]), ("A>G", [(10, 40)])])]
    = [(5, [("_", [(60, 40), (60, 40), (60, 25)]), ("A>G", [(10, 40)])])] := by decide +kernel
example : replayTable [(5, [("_", [(60, 40), (60, 25), (60, 40)])])] ≠ [(5, [("_", [(60, 40), (60, 25), (60, 40)])])] := by
  decide +kernel

end Aldy
