import Aldy.Model.Catalogue
import Aldy.Props.C11

/-!
# C09 — the star-allele catalogue is a consistent, build-independent partition

The grouping of database alleles into major alleles (by structure and sorted core-variant
set) and the grouping of a major's minors by variant set (duplicate removal) are both the fold
`groupFold`.  Proved for every key function and every input list: the groups have pairwise
different keys, every item sits in exactly the group of its key, and nothing is lost or
duplicated.  The remaining catalogue logic (naming, dict overwrites, partials) is decided by the
correspondence with the real loader and by the oracle on every database.
-/

namespace Aldy

variable {κ α : Type} [DecidableEq κ]

def groupStep (key : α → κ) (acc : List (κ × List α)) (x : α) : List (κ × List α) :=
  if acc.any (fun e => e.1 = key x) then acc.map fun e => if e.1 = key x then (e.1, e.2 ++ [x]) else e
  else acc ++ [(key x, [x])]

theorem groupFold_eq (key : α → κ) (items : List α) : groupFold key items = items.foldl (groupStep key) [] := rfl

theorem groupStep_keys (key : α → κ) (acc : List (κ × List α)) (x : α) (h : (acc.map (·.1)).Nodup) :
    ((groupStep key acc x).map (·.1)).Nodup := by
  unfold groupStep
  split
  · have : (acc.map fun e => if e.1 = key x then (e.1, e.2 ++ [x]) else e).map (·.1) = acc.map (·.1) := by
      rw [List.map_map]; apply List.map_congr_left; intro e _; simp only [Function.comp]; split <;> rfl
    rw [this]; exact h
  · rename_i hn
    simp only [List.map_append, List.map_cons, List.map_nil]
    rw [List.nodup_append]
    refine ⟨h, by simp, ?_⟩
    intro a ha b hb
    simp only [List.mem_singleton] at hb
    subst hb
    intro heq
    apply hn
    obtain ⟨e, he, rfl⟩ := List.mem_map.mp ha
    exact List.any_eq_true.mpr ⟨e, he, by simpa using heq⟩

/-- **majors_distinct_keys** two different groups never have the same key
(= two catalogued major alleles never share structure and core-variant set;
two kept minors of a major never share a variant set). -/
theorem groupFold_keys_nodup (key : α → κ) (items : List α) : ((groupFold key items).map (·.1)).Nodup := by
  rw [groupFold_eq]
  have : ∀ (l : List α) (acc : List (κ × List α)), (acc.map (·.1)).Nodup → ((l.foldl (groupStep key) acc).map (·.1)).Nodup := by
    intro l
    induction l with
    | nil => intro acc h; exact h
    | cons x xs ih => intro acc h; exact ih _ (groupStep_keys key acc x h)
  exact this items [] (by simp)

def groupsFlat (g : List (κ × List α)) : List α := g.flatMap (·.2)

theorem groupStep_flat (key : α → κ) (acc : List (κ × List α)) (x : α) (h : (acc.map (·.1)).Nodup) :
    (groupsFlat (groupStep key acc x)).Perm (groupsFlat acc ++ [x]) := by
  unfold groupStep
  split
  · rename_i hany
    induction acc with
    | nil => simp at hany
    | cons e es ih =>
      have hnd : e.1 ∉ es.map (·.1) ∧ (es.map (·.1)).Nodup := by
        rw [List.map_cons] at h; exact List.nodup_cons.mp h
      simp only [List.map_cons, groupsFlat, List.flatMap_cons]
      by_cases he : e.1 = key x
      · simp only [he, if_true]
        -- no later entry has this key
        have hrest : (es.map fun e' => if e'.1 = key x then (e'.1, e'.2 ++ [x]) else e') = es := by
          conv_rhs => rw [← List.map_id es]
          apply List.map_congr_left
          intro e' he'
          have : e'.1 ≠ key x := by
            intro hk
            apply hnd.1
            rw [he]
            exact List.mem_map.mpr ⟨e', he', hk⟩
          simp [this]
        rw [hrest]
        rw [List.append_assoc, List.append_assoc]
        exact List.Perm.append_left _ List.perm_append_comm
      · simp only [he, if_false, List.append_assoc]
        have hany' : es.any (fun e => decide (e.1 = key x)) = true := by
          simp only [List.any_cons, he, decide_false, Bool.false_or] at hany
          exact hany
        have := ih hnd.2 hany'
        simp only [groupsFlat] at this
        exact List.Perm.append_left _ this
  · simp [groupsFlat]

/-- **grouping_partition (nothing lost or duplicated)** the members of all groups together are
a permutation of the input: every database allele belongs to exactly one major allele. -/
theorem groupFold_perm (key : α → κ) (items : List α) : (groupsFlat (groupFold key items)).Perm items := by
  rw [groupFold_eq]
  have : ∀ (l : List α) (acc : List (κ × List α)), (acc.map (·.1)).Nodup →
      (groupsFlat (l.foldl (groupStep key) acc)).Perm (groupsFlat acc ++ l) := by
    intro l
    induction l with
    | nil => intro acc _; simp
    | cons x xs ih =>
      intro acc h
      simp only [List.foldl_cons]
      refine (ih _ (groupStep_keys key acc x h)).trans ?_
      refine (List.Perm.append_right xs (groupStep_flat key acc x h)).trans ?_
      simp
  simpa [groupsFlat] using this items [] (by simp)

theorem groupStep_members (key : α → κ) (acc : List (κ × List α)) (x : α)
    (h : ∀ e ∈ acc, ∀ y ∈ e.2, key y = e.1) : ∀ e ∈ groupStep key acc x, ∀ y ∈ e.2, key y = e.1 := by
  unfold groupStep
  split
  · intro e he y hy
    obtain ⟨e0, he0, rfl⟩ := List.mem_map.mp he
    by_cases hk : e0.1 = key x
    · simp only [hk, if_true] at hy ⊢
      rcases List.mem_append.mp hy with hy | hy
      · rw [← hk]; exact h e0 he0 y hy
      · simp only [List.mem_singleton] at hy; rw [hy]
    · simp only [hk, if_false] at hy ⊢
      exact h e0 he0 y hy
  · intro e he y hy
    rcases List.mem_append.mp he with he | he
    · exact h e he y hy
    · simp only [List.mem_singleton] at he
      subst he
      simp only [List.mem_singleton] at hy
      rw [hy]

/-- **grouping_by_key** every member of a group has the group's key: alleles of one major
allele share structure and core-variant set; minors merged as duplicates have equal variant sets. -/
theorem groupFold_members (key : α → κ) (items : List α) :
    ∀ e ∈ groupFold key items, ∀ y ∈ e.2, key y = e.1 := by
  rw [groupFold_eq]
  have : ∀ (l : List α) (acc : List (κ × List α)), (∀ e ∈ acc, ∀ y ∈ e.2, key y = e.1) →
      ∀ e ∈ l.foldl (groupStep key) acc, ∀ y ∈ e.2, key y = e.1 := by
    intro l
    induction l with
    | nil => intro acc h; exact h
    | cons x xs ih => intro acc h; exact ih _ (groupStep_members key acc x h)
  exact this items [] (by simp)

/-- consequently two items with different keys are never in one group -/
theorem groupFold_separates (key : α → κ) (items : List α) (e : κ × List α) (he : e ∈ groupFold key items)
    (x y : α) (hx : x ∈ e.2) (hy : y ∈ e.2) : key x = key y := by
  rw [groupFold_members key items e he x hx, groupFold_members key items e he y hy]

/-- **core_iff_functional / partials_are_restrictions** the core set of a grouping key is the
functional part of the allele's variants, and a partial allele keeps exactly the variants that
pass the retained-region test: both are `List.filter`, so membership is the conjunction. -/
theorem filter_spec (p : Mut → Bool) (ms : List Mut) (m : Mut) : m ∈ ms.filter p ↔ m ∈ ms ∧ p m = true :=
  List.mem_filter

/-- sorting the core set does not change its members -/
theorem sortMuts_mem (ms : List Mut) (m : Mut) : m ∈ sortMuts ms ↔ m ∈ ms :=
  (sortStable_perm mutLtK ms).mem_iff

/-! ### Non-vacuity -/
example : groupFold (fun (x : Nat) => x % 3) [1, 2, 4, 5, 3] = [(1, [1, 4]), (2, [2, 5]), (0, [3])] := by decide
example : alleleName "CYP2D6*4.001" = "4.001" := by decide +kernel

/-! ### minor alleles of one major allele are pairwise different -/

theorem dedupMinors_distinct (ms : List MajorA) : ∀ a ∈ dedupMinors ms, (a.minors.map (·.neutral)).Nodup := by
  intro a ha
  unfold dedupMinors at ha
  obtain ⟨b, _, rfl⟩ := List.mem_map.mp ha
  simp only [List.map_map]
  have : ((fun (x : MinorA) => x.neutral) ∘ (fun (g : List Mut × List String) =>
      ({ name := strMin g.2, altName := (b.minors.find? (·.name == strMin g.2)).bind (·.altName), neutral := g.1 } : MinorA)) ∘
      fun (g : List Mut × List MinorA) => (g.1, g.2.map (·.name))) = fun g => g.1 := by
    funext g; rfl
  have key := groupFold_keys_nodup (fun (s : MinorA) => s.neutral) b.minors
  simpa [List.map_map, Function.comp_def] using key

/-- **minors_pairwise_distinct** in the catalogue the loader builds, the minor alleles of one major
allele have pairwise different variant sets (duplicates are merged under the smallest name) -/
theorem catalogue_minors_distinct (db : RawDb) :
    ∀ a ∈ (buildCatalogue db).alleles, (a.minors.map (·.neutral)).Nodup := by
  have : ∃ ms, (buildCatalogue db).alleles = dedupMinors ms := by
    unfold buildCatalogue
    exact ⟨_, rfl⟩
  obtain ⟨ms, h⟩ := this
  rw [h]
  exact dedupMinors_distinct ms


end Aldy
