import Aldy.Props.C02Spec
import Mathlib.Data.List.Perm.Basic

/-!
# C13 — the major stage cannot tell two builds apart (spec level)

`Props/C02Spec.lean` shows that the objective of any optimum of the major model is the least
documented score `specMajor I k` among the admissible multisets `k` (keyed by allele *name*, which
is the same in every build).  Here: if two instances `I` (one build) and `J` (the other build /
strand) *correspond* - same candidate alleles up to a relabelling `π` of their core variants, the
observed core variants and sites are the relabelled ones (in any order), the relabelling keeps
"sits at this site", "is an insertion" and "allele carries variant", observed copy numbers and gene
copies at a site agree - then for **every** multiset `k`

    Admissible I k ↔ Admissible J k      and      specMajor I k = specMajor J k

(`spec_major_build_independent`).  Hence both builds have the same optimal multisets with the same
scores, whatever the order in which the two builds enumerate variants and sites, without comparing
the two ILPs at all.  The correspondence `MajorCorr` is decidable from the two real stage inputs.
-/

namespace Aldy
open MajorInst

theorem perm_sum_map {α : Type} {l₁ l₂ : List α} (h : l₁.Perm l₂) (f : α → Rat) : (l₁.map f).sum = (l₂.map f).sum := by
  induction h with
  | nil => rfl
  | cons x _ ih => simp [ih]
  | swap x y l => simp only [List.map_cons, List.sum_cons]; ring
  | trans _ _ ih1 ih2 => rw [ih1, ih2]

theorem perm_filter_length {α : Type} {l₁ l₂ : List α} (h : l₁.Perm l₂) (p : α → Bool) :
    (l₁.filter p).length = (l₂.filter p).length := (h.filter p).length_eq

/-- the same candidate allele as the two builds' databases spell it: same name and structure, core
variants relabelled by `π` (the minor alleles do not matter to the major stage) -/
def SameAllele (π : Mut → Mut) (a b : MajorA) : Prop :=
  b.name = a.name ∧ b.cnConfig = a.cnConfig ∧ b.func.Perm (a.func.map π)

theorem perm_contains_eq {l₁ l₂ : List Mut} (h : l₁.Perm l₂) (x : Mut) : l₁.contains x = l₂.contains x := by
  rw [Bool.eq_iff_iff]
  simp only [List.contains_iff_mem]
  exact h.mem_iff

theorem perm_any_eq {l₁ l₂ : List Mut} (h : l₁.Perm l₂) (p : Mut → Bool) : l₁.any p = l₂.any p := by
  rw [Bool.eq_iff_iff, List.any_eq_true, List.any_eq_true]
  constructor
  · rintro ⟨x, hx, hp⟩; exact ⟨x, h.mem_iff.mp hx, hp⟩
  · rintro ⟨x, hx, hp⟩; exact ⟨x, h.mem_iff.mpr hx, hp⟩

theorem forall₂_any {α : Type} {R : α → α → Prop} {M L : List α} (h : List.Forall₂ R M L) (p q : α → Bool)
    (hpq : ∀ a b, a ∈ M → R a b → p b = q a) : L.any p = M.any q := by
  induction h with
  | nil => rfl
  | @cons a b M' L' hab _ ih =>
    simp only [List.any_cons]
    rw [hpq a b (by simp) hab, ih (fun a' b' ha' => hpq a' b' (by simp [ha']))]

theorem forall₂_sum_filter {α : Type} {R : α → α → Prop} {M L : List α} (h : List.Forall₂ R M L) (P Q : α → Bool)
    (w w' : α → Rat) (hpq : ∀ a b, a ∈ M → R a b → P b = Q a ∧ w b = w' a) :
    ((L.filter P).map w).sum = ((M.filter Q).map w').sum := by
  induction h with
  | nil => rfl
  | @cons a b M' L' hab _ ih =>
    have ih' := ih (fun a' b' ha' => hpq a' b' (by simp [ha']))
    obtain ⟨h1, h2⟩ := hpq a b (by simp) hab
    simp only [List.filter_cons, h1]
    by_cases hq : Q a = true
    · simp only [hq, if_true, List.map_cons, List.sum_cons, ih', h2]
    · have hq' : Q a = false := by simpa using hq
      simp only [hq', Bool.false_eq_true, if_false]
      exact ih'

theorem forall₂_forall {α : Type} {R : α → α → Prop} {M L : List α} (h : List.Forall₂ R M L) (S S' : α → Prop)
    (hss : ∀ a b, a ∈ M → R a b → (S b ↔ S' a)) : (∀ b ∈ L, S b) ↔ (∀ a ∈ M, S' a) := by
  induction h with
  | nil => simp
  | @cons a b M' L' hab _ ih =>
    have ih' := ih (fun a' b' ha' => hss a' b' (by simp [ha']))
    have h1 := hss a b (by simp) hab
    simp only [List.forall_mem_cons, h1, ih']

/-- two major-stage instances that describe the same sample against two builds -/
structure MajorCorr (I J : MajorInst) (π : Mut → Mut) (ρ : Int → Int) : Prop where
  alleles : List.Forall₂ (SameAllele π) I.alleles J.alleles
  cn : J.cn = I.cn
  novelPenalty : J.majorNovel = I.majorNovel
  funcs : J.funcMuts.Perm (I.funcMuts.map π)
  sites : J.positions.Perm (I.positions.map ρ)
  /-- relabelling keeps "allele carries variant" -/
  carries : ∀ a ∈ I.alleles, ∀ m ∈ I.funcMuts, (a.func.map π).contains (π m) = a.func.contains m
  /-- ... "a non-insertion core variant of the allele sits at this site" -/
  atSite : ∀ a ∈ I.alleles, ∀ p ∈ I.positions,
    ((a.func.map π).any fun ma => ma.pos == ρ p && !ma.isIns) = (a.func.any fun ma => ma.pos == p && !ma.isIns)
  /-- ... "this observed variant sits at this site and is not an insertion" -/
  mutSite : ∀ m ∈ I.funcMuts, ∀ p ∈ I.positions, ((π m).pos == ρ p && !(π m).isIns) = (m.pos == p && !m.isIns)
  obsVar : ∀ m ∈ I.funcMuts, J.observed (π m) = I.observed m
  obsRef : ∀ p ∈ I.positions, J.observed (refMut (ρ p)) = I.observed (refMut p)
  copies : ∀ a ∈ I.alleles, ∀ p ∈ I.positions, J.gene.hasCoverage a.name (ρ p) = I.gene.hasCoverage a.name p

section
variable {I J : MajorInst} {π : Mut → Mut} {ρ : Int → Int} (h : MajorCorr I J π ρ) (k : String → Nat)
include h

theorem corr_carriedB (m : Mut) (hm : m ∈ I.funcMuts) : carriedB J k (π m) = carriedB I k m := by
  unfold MajorInst.carriedB
  apply forall₂_any h.alleles
  intro a b ha hab
  obtain ⟨h1, _, h3⟩ := hab
  rw [perm_contains_eq h3, h.carries a ha m hm, h1]

theorem corr_plantedSum (P Q : MajorA → Bool) (hPQ : ∀ a b, a ∈ I.alleles → SameAllele π a b → P b = Q a) :
    plantedSum k (J.alleles.filter P) = plantedSum k (I.alleles.filter Q) := by
  unfold plantedSum
  apply forall₂_sum_filter h.alleles
  intro a b ha hab
  exact ⟨hPQ a b ha hab, by rw [hab.1]⟩

theorem corr_carriersCount (m : Mut) (hm : m ∈ I.funcMuts) : J.carriersCount k (π m) = I.carriersCount k m := by
  unfold MajorInst.carriersCount
  apply corr_plantedSum h k
  intro a b ha hab
  rw [perm_contains_eq hab.2.2]
  exact h.carries a ha m hm

theorem corr_refCount (p : Int) (hp : p ∈ I.positions) : J.refCount k (ρ p) = I.refCount k p := by
  unfold MajorInst.refCount
  apply corr_plantedSum h k
  intro a b ha hab
  rw [perm_any_eq hab.2.2, hab.1, h.copies a ha p hp, h.atSite a ha p hp]

theorem corr_novelOf : (J.novelOf k).Perm ((I.novelOf k).map π) := by
  unfold MajorInst.novelOf
  have h1 := (h.funcs.filter fun m => !carriedB J k m)
  refine h1.trans ?_
  rw [List.filter_map]
  apply List.Perm.of_eq
  congr 1
  apply List.filter_congr
  intro m hm
  simp only [Function.comp]
  rw [corr_carriedB h k m hm]

end

/-- **spec_major_build_independent** corresponding instances give every multiset the same
admissibility and the same documented score -/
theorem spec_major_build_independent {I J : MajorInst} {π : Mut → Mut} {ρ : Int → Int} (h : MajorCorr I J π ρ)
    (k : String → Nat) :
    (Admissible J k ↔ Admissible I k) ∧ J.specMajor k = I.specMajor k := by
  have hnov := corr_novelOf h k
  have hnovlen : (J.novelOf k).length = (I.novelOf k).length := by
    rw [hnov.length_eq, List.length_map]
  have hnovemp : (J.novelOf k).isEmpty = (I.novelOf k).isEmpty := by
    cases hj : J.novelOf k <;> cases hi : I.novelOf k <;> simp_all
  constructor
  · -- admissibility
    have hfit : (∀ a ∈ J.alleles, k a.name ≤ max 1 (J.cn.count a.cnConfig)) ↔
        (∀ a ∈ I.alleles, k a.name ≤ max 1 (I.cn.count a.cnConfig)) := by
      rw [h.cn]
      apply forall₂_forall h.alleles
      intro a b _ hab
      rw [hab.1, hab.2.1]
    have hfill : (∀ cc ∈ J.cn.solution, plantedSum k (J.alleles.filter fun a => a.cnConfig == cc.1) = (cc.2 : Rat)) ↔
        (∀ cc ∈ I.cn.solution, plantedSum k (I.alleles.filter fun a => a.cnConfig == cc.1) = (cc.2 : Rat)) := by
      rw [h.cn]
      have e : ∀ cc : String × Nat, plantedSum k (J.alleles.filter fun a => a.cnConfig == cc.1) =
          plantedSum k (I.alleles.filter fun a => a.cnConfig == cc.1) :=
        fun cc => corr_plantedSum h k _ _ (fun a b _ hab => by rw [hab.2.1])
      simp only [e]
    have hone : (∀ pos ∈ J.positions, ((J.novelOf k).filter fun m => m.pos == pos && !m.isIns).length ≤ 1) ↔
        (∀ pos ∈ I.positions, ((I.novelOf k).filter fun m => m.pos == pos && !m.isIns).length ≤ 1) := by
      have key : ∀ p ∈ I.positions, ((J.novelOf k).filter fun m => m.pos == ρ p && !m.isIns).length =
          ((I.novelOf k).filter fun m => m.pos == p && !m.isIns).length := by
        intro p hp
        rw [perm_filter_length hnov, List.filter_map, List.length_map]
        congr 1
        apply List.filter_congr
        intro m hm
        simp only [Function.comp]
        exact h.mutSite m (List.mem_filter.mp hm).1 p hp
      constructor
      · intro hh p hp
        rw [← key p hp]
        exact hh (ρ p) (h.sites.mem_iff.mpr (List.mem_map.mpr ⟨p, hp, rfl⟩))
      · intro hh q hq
        obtain ⟨p, hp, rfl⟩ := List.mem_map.mp (h.sites.mem_iff.mp hq)
        rw [key p hp]
        exact hh p hp
    constructor
    · intro hA; exact ⟨hfit.mp hA.fits, hfill.mp hA.fills, hone.mp hA.oneNovel⟩
    · intro hA; exact ⟨hfit.mpr hA.fits, hfill.mpr hA.fills, hone.mpr hA.oneNovel⟩
  · -- documented score
    unfold MajorInst.specMajor
    rw [hnovlen, hnovemp, h.novelPenalty]
    have s1 : (J.funcMuts.map fun m => absQ (J.observed m - (J.carriersCount k m + (if carriedB J k m then 0 else 1)))).sum =
        (I.funcMuts.map fun m => absQ (I.observed m - (I.carriersCount k m + (if carriedB I k m then 0 else 1)))).sum := by
      rw [perm_sum_map h.funcs, List.map_map]
      apply congrArg
      apply List.map_congr_left
      intro m hm
      simp only [Function.comp]
      rw [h.obsVar m hm, corr_carriersCount h k m hm, corr_carriedB h k m hm]
    have s2 : (J.positions.map fun pos => absQ (J.observed (refMut pos) - J.refCount k pos)).sum =
        (I.positions.map fun pos => absQ (I.observed (refMut pos) - I.refCount k pos)).sum := by
      rw [perm_sum_map h.sites, List.map_map]
      apply congrArg
      apply List.map_congr_left
      intro p hp
      simp only [Function.comp]
      rw [h.obsRef p hp, corr_refCount h k p hp]
    rw [s1, s2]

/-- **major_optimum_build_independent** a multiset of least documented score in one build has least
documented score in the other -/
theorem major_optimum_build_independent {I J : MajorInst} {π : Mut → Mut} {ρ : Int → Int} (h : MajorCorr I J π ρ)
    (k : String → Nat) (hk : Admissible I k) (hmin : ∀ k', Admissible I k' → I.specMajor k ≤ I.specMajor k') :
    Admissible J k ∧ ∀ k', Admissible J k' → J.specMajor k ≤ J.specMajor k' := by
  refine ⟨(spec_major_build_independent h k).1.mpr hk, ?_⟩
  intro k' hk'
  rw [(spec_major_build_independent h k).2, (spec_major_build_independent h k').2]
  exact hmin k' ((spec_major_build_independent h k').1.mp hk')

/-! ### the decided clauses imply the correspondence -/

theorem zipAll_forall₂ {α : Type} (r : α → α → Bool) (R : α → α → Prop) (hr : ∀ a b, r a b = true → R a b) :
    ∀ (M L : List α), zipAll r M L = true → List.Forall₂ R M L
  | [], [], _ => List.Forall₂.nil
  | a :: as, b :: bs, h => by
    simp only [zipAll, Bool.and_eq_true] at h
    exact List.Forall₂.cons (hr a b h.1) (zipAll_forall₂ r R hr as bs h.2)
  | [], _ :: _, h => by simp [zipAll] at h
  | _ :: _, [], h => by simp [zipAll] at h

/-- **majorCorrB_sound** the boolean the driver evaluates on the two real stage inputs implies
`MajorCorr`, the hypothesis of `spec_major_build_independent` -/
theorem majorCorrB_sound (I J : MajorInst) (πl : List (Mut × Mut)) (ρl : List (Int × Int))
    (h : majorCorrB I J πl ρl = true) : MajorCorr I J (piOf πl) (rhoOf ρl) := by
  simp only [majorCorrB, majorCorrClauses, List.all_cons, List.all_nil, Bool.and_true, Bool.and_eq_true,
    List.all_eq_true, decide_eq_true_eq, beq_iff_eq] at h
  obtain ⟨h1, h2, h3, h4, h5, h6, h7, h8, h9, h10, h11⟩ := h
  refine ⟨?_, ?_, h3, List.isPerm_iff.mp h4, List.isPerm_iff.mp h5, h6, h7, h8, h9, h10, h11⟩
  · apply zipAll_forall₂ _ _ _ _ _ h1
    intro a b hab
    simp only [sameAlleleB, Bool.and_eq_true, beq_iff_eq] at hab
    exact ⟨hab.1.1, hab.1.2, List.isPerm_iff.mp hab.2⟩
  · cases hj : J.cn
    cases hi : I.cn
    rw [hj, hi] at h2
    simp only at h2
    rw [h2]

end Aldy
