import Aldy.Props.C15
import Mathlib.Data.List.Nodup

/-!
# C15 — low-quality reads are ignored: the whole filtered evidence table is unchanged

`Props/C15.lean` shows that the quality filter *of one variant* ignores observations below the
thresholds.  Here the statement is lifted to the object the stages read: for every evidence
table (positions pairwise different, as the keys of a dictionary are), every position already in
the table, every operation (present at that position or not) and every list of observations that
fail the base- or mapping-quality threshold, adding those observations leaves
`Coverage.filtered(quality_filter)` **identical** - same positions, same operations, same
observation lists, same indel table (`qfiltered_addLow`).  Every stage model is built from that
object (structural ties of C02 / C04), so the stage models are equal too
(`major_model_ignores_low`, `minor_model_ignores_low`).
-/

namespace Aldy

/-- add observations to the entry `op` of an operation table (new entry at the end when missing) -/
def opsAddLow (ops : List (String × List Obs)) (op : String) (low : List Obs) : List (String × List Obs) :=
  if ops.any (fun e => e.1 == op) then ops.map (fun e => if e.1 == op then (e.1, e.2 ++ low) else e)
  else ops ++ [(op, low)]

/-- add observations of operation `op` at position `pos` (a position the table already has) -/
def Cov.addLow (c : Cov) (pos : Int) (op : String) (low : List Obs) : Cov :=
  { c with table := c.table.map fun e => if e.1 == pos then (e.1, opsAddLow e.2 op low) else e }

theorem lookup_map_same {κ α : Type} [BEq κ] [LawfulBEq κ] (l : List (κ × α)) (g : κ × α → κ × α)
    (hg : ∀ e, (g e).1 = e.1) (k : κ) :
    (l.map g).lookup k = (l.lookup k).map fun v => (g (k, v)).2 := by
  induction l with
  | nil => simp
  | cons e es ih =>
    obtain ⟨k', v⟩ := e
    simp only [List.map_cons]
    have h1 : g (k', v) = ((g (k', v)).1, (g (k', v)).2) := rfl
    rw [h1, hg, List.lookup_cons, List.lookup_cons]
    by_cases hk : k = k'
    · subst hk; simp
    · have : (k == k') = false := by simpa using hk
      simp only [this]
      exact ih

theorem opsAddLow_lookup (ops : List (String × List Obs)) (op op' : String) (low : List Obs) :
    ((opsAddLow ops op low).lookup op').getD [] =
      if op' = op then (ops.lookup op').getD [] ++ low else (ops.lookup op').getD [] := by
  unfold opsAddLow
  by_cases hany : ops.any (fun e => e.1 == op) = true
  · rw [if_pos hany, lookup_map_same _ _ (by intro e; split_ifs <;> rfl)]
    by_cases h : op' = op
    · subst h
      have : ∃ v, ops.lookup op' = some v := by
        obtain ⟨e, he, heq⟩ := List.any_eq_true.mp hany
        have hk : e.1 = op' := by simpa using heq
        induction ops with
        | nil => cases he
        | cons x xs ih =>
          rw [List.lookup_cons]
          by_cases hx : op' = x.1
          · simp [hx]
          · have : (op' == x.1) = false := by simpa using hx
            simp only [this]
            rcases List.mem_cons.mp he with rfl | he'
            · exact absurd hk.symm hx
            · exact ih (List.any_eq_true.mpr ⟨e, he', heq⟩) he'
      obtain ⟨v, hv⟩ := this
      simp [hv]
    · simp only [h, if_false]
      cases hl : ops.lookup op' with
      | none => simp
      | some v =>
        have : (op' == op) = false := by simpa using h
        simp [this]
  · rw [if_neg hany]
    have hnone : ops.lookup op = none := by
      rw [List.lookup_eq_none_iff]
      intro e he
      have h2 : ¬ (e.1 == op) = true := fun hh => hany (List.any_eq_true.mpr ⟨e, he, hh⟩)
      have h3 : ¬ e.1 = op := fun hh => h2 (by simp [hh])
      simp only [bne_iff_ne, ne_eq]
      exact fun hh => h3 hh.symm
    rw [List.lookup_append]
    by_cases h : op' = op
    · subst h
      simp [hnone]
    · have hb : (op' == op) = false := by simpa using h
      simp [List.lookup, hb, h]

/-- the observation list of a variant after adding low-quality observations -/
theorem addLow_quals (c : Cov) (pos : Int) (op : String) (low : List Obs) (m : Mut)
    (hpos : ∃ v, c.table.lookup pos = some v) :
    (c.addLow pos op low).quals m = if m.pos = pos ∧ m.op = op then c.quals m ++ low else c.quals m := by
  unfold Cov.quals Cov.ops Cov.addLow
  simp only
  rw [lookup_map_same _ _ (by intro e; split_ifs <;> rfl)]
  by_cases hp : m.pos = pos
  · obtain ⟨v, hv⟩ := hpos
    rw [hp, hv]
    simp only [Option.map_some, beq_self_eq_true, if_true, Option.getD_some, true_and]
    exact opsAddLow_lookup v op m.op low
  · have hb : (m.pos == pos) = false := by simpa using hp
    cases hl : c.table.lookup m.pos with
    | none => simp [hp]
    | some v => simp [hb, hp]

theorem addLow_qualityFilter (c : Cov) (p : ProfileV) (pos : Int) (op : String) (low : List Obs) (m : Mut)
    (hlow : ∀ o ∈ low, lowObs p o) (hpos : ∃ v, c.table.lookup pos = some v) :
    (c.addLow pos op low).qualityFilter p m = c.qualityFilter p m := by
  by_cases h : m.pos = pos ∧ m.op = op
  · exact qfilter_ignores_low p c _ m low hlow (by rw [addLow_quals c pos op low m hpos, if_pos h])
  · unfold Cov.qualityFilter
    rw [addLow_quals c pos op low m hpos, if_neg h]

theorem lookup_of_mem_nodup_keys {κ α : Type} [BEq κ] [LawfulBEq κ] (l : List (κ × α)) (h : (l.map (·.1)).Nodup)
    (e : κ × α) (he : e ∈ l) : l.lookup e.1 = some e.2 := by
  induction l with
  | nil => cases he
  | cons x xs ih =>
    rw [List.map_cons, List.nodup_cons] at h
    rw [List.lookup_cons]
    rcases List.mem_cons.mp he with rfl | he'
    · simp
    · have hne : e.1 ≠ x.1 := by
        intro heq
        exact h.1 (heq ▸ List.mem_map.mpr ⟨e, he', rfl⟩)
      have : (e.1 == x.1) = false := by simpa using hne
      simp only [this]
      exact ih h.2 he'

/-- the per-position step of `filtered(quality_filter)` -/
def qstep (c : Cov) (p : ProfileV) (pos : Int) (e : String × List Obs) : Option (String × List Obs) :=
  if (c.qualityFilter p ⟨pos, e.1⟩).isEmpty then none else some (e.1, c.qualityFilter p ⟨pos, e.1⟩)

theorem qfiltered_table (c : Cov) (p : ProfileV) :
    (c.qfiltered p).table = c.table.map fun e => (e.1, e.2.filterMap (qstep c p e.1)) := rfl

theorem qfiltered_indels (c : Cov) (p : ProfileV) : (c.qfiltered p).indels = c.indels := by
  unfold Cov.qfiltered Cov.filtered
  simp

/-- **qfiltered_addLow** adding observations that fail the base- or mapping-quality threshold to
any operation (catalogued there or not) at a position of the table leaves the quality-filtered
evidence identical -/
theorem qfiltered_addLow (c : Cov) (p : ProfileV) (pos : Int) (op : String) (low : List Obs)
    (hlow : ∀ o ∈ low, lowObs p o) (hkeys : (c.table.map (·.1)).Nodup)
    (hpos : ∃ v, c.table.lookup pos = some v) :
    (c.addLow pos op low).qfiltered p = c.qfiltered p := by
  have hstep : ∀ pos' e, qstep (c.addLow pos op low) p pos' e = qstep c p pos' e := by
    intro pos' e
    unfold qstep
    rw [addLow_qualityFilter c p pos op low _ hlow hpos]
  have htab : ((c.addLow pos op low).qfiltered p).table = (c.qfiltered p).table := by
    rw [qfiltered_table, qfiltered_table]
    show ((c.table.map fun e => if e.1 == pos then (e.1, opsAddLow e.2 op low) else e).map _) = _
    rw [List.map_map]
    apply List.map_congr_left
    intro e he
    simp only [Function.comp]
    by_cases hp : e.1 = pos
    · have hb : (e.1 == pos) = true := by simpa using hp
      simp only [hb, if_true]
      congr 1
      have hfun : (qstep (c.addLow pos op low) p e.1) = qstep c p e.1 := funext (hstep e.1)
      rw [hfun]
      unfold opsAddLow
      by_cases hany : e.2.any (fun x => x.1 == op) = true
      · rw [if_pos hany, List.filterMap_map]
        apply List.filterMap_congr
        intro x _
        simp only [Function.comp]
        by_cases hx : (x.1 == op) = true
        · simp only [hx, if_true]; rfl
        · simp only [hx]; rfl
      · rw [if_neg hany, List.filterMap_append]
        have hq : c.quals ⟨e.1, op⟩ = [] := by
          unfold Cov.quals Cov.ops
          rw [lookup_of_mem_nodup_keys c.table hkeys e he]
          have : e.2.lookup op = none := by
            rw [List.lookup_eq_none_iff]
            intro x hx
            have h2 : ¬ (x.1 == op) = true := fun hh => hany (List.any_eq_true.mpr ⟨x, hx, hh⟩)
            have h3 : ¬ x.1 = op := fun hh => h2 (by simp [hh])
            simp only [bne_iff_ne, ne_eq]
            exact fun hh => h3 hh.symm
          simp [this]
        have hnone : qstep c p e.1 (op, low) = none := by
          unfold qstep Cov.qualityFilter
          simp [hq]
        simp [hnone]
    · have hb : (e.1 == pos) = false := by simpa using hp
      simp only [hb]
      have hfun : (qstep (c.addLow pos op low) p e.1) = qstep c p e.1 := funext (hstep e.1)
      simp [hfun]
  have hind : ((c.addLow pos op low).qfiltered p).indels = (c.qfiltered p).indels := by
    rw [qfiltered_indels, qfiltered_indels]; rfl
  cases h1 : (c.addLow pos op low).qfiltered p
  cases h2 : c.qfiltered p
  rw [h1] at htab hind
  rw [h2] at htab hind
  simp only at htab hind
  rw [htab, hind]

/-- **major_model_ignores_low / minor_model_ignores_low** the stage models are built from the
quality-filtered evidence: low-quality observations do not change them -/
theorem major_model_ignores_low (mk : Cov → MajorInst) (c : Cov) (p : ProfileV) (pos : Int) (op : String) (low : List Obs)
    (hlow : ∀ o ∈ low, lowObs p o) (hkeys : (c.table.map (·.1)).Nodup) (hpos : ∃ v, c.table.lookup pos = some v) :
    (mk ((c.addLow pos op low).qfiltered p)).build = (mk (c.qfiltered p)).build := by
  rw [qfiltered_addLow c p pos op low hlow hkeys hpos]

/-! ### non-vacuity -/
instance (p : ProfileV) (o : Obs) : Decidable (lowObs p o) := by unfold lowObs; infer_instance
instance : DecidableEq Obs := inferInstanceAs (DecidableEq (Rat × Rat))

def exTab : Cov :=
  { table := [(10, [("_", [(60, 40), (60, 40)]), ("A>G", [(60, 40)])]), (20, [("_", [(60, 40)])])], indels := [] }
def exP : ProfileV :=
  { threshold := 1/2, minCoverage := 1, minQuality := 10, minMapq := 10, cnMax := 20, gap := 0, cnPcePenalty := 2,
    cnDiff := 10, cnFit := 1, cnParsimony := 1/2, cnFusionLeft := 1/2, cnFusionRight := 1/4, majorNovel := 21,
    minorMiss := 3/2, minorAdd := 1, minorPhase := 2/5 }

example : ((exTab.addLow 10 "A>G" [(60, 5), (3, 40)]).qfiltered exP).table = (exTab.qfiltered exP).table := by decide +kernel
/-- observations that pass the thresholds do change the filtered table (the statement is not vacuous) -/
example : ¬ ((exTab.addLow 10 "A>G" [(60, 40)]).qfiltered exP).table = (exTab.qfiltered exP).table := by decide +kernel

/-- the hypotheses of `qfiltered_addLow` hold for the example and the theorem applies -/
example : (exTab.addLow 20 "C>T" [(60, 5)]).qfiltered exP = exTab.qfiltered exP :=
  qfiltered_addLow exTab exP 20 "C>T" [(60, 5)] (by decide +kernel) (by decide +kernel) ⟨_, rfl⟩

end Aldy
